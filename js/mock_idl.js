// R9: mock of the `IDL` builder surface of agent-js (@dfinity/candid, idl.ts) that the
// JavaScript generator of candid_parser uses. Reads one JSON object per line on stdin:
//     {"id": <n>, "js": "<generated module text>", "actor": true|false}
// and answers with exactly one JSON line on stdout.
//
// actor = true : the text is an ES module exporting `idlFactory` and `init`. It is compiled (with
//   `new Function`) in strict mode (module code is always strict) after rewriting `export const X =` at line
//   starts to `const X =`, then `idlFactory({IDL})` and `init({IDL})` are called and the type
//   graph that was built is returned:
//     {"id","ok":true,"nodes":[...],"service":<node id>,"init":[<node id>...],"exports":2}
//   or the exception:
//     {"id","ok":false,"stage":"parse|module|factory|init|result","name":"SyntaxError",...}
// actor = false: the text is a fragment of `const` declarations with `IDL` free; it is only
//   compiled (syntax), then run once with IDL global for information:
//     {"id","ok":true,"noactor":true,"run":null|{"name","message"}}
//
// Type nodes are plain objects. Record/variant/service keep the *raw object keys* in the
// order `Object.entries` yields them (exactly what agent-js' RecordClass/VariantClass/
// ServiceClass constructors see); decoding keys to field ids (`_N_` => N, otherwise hash)
// is done by the caller. `IDL.Tuple(a,b)` is a record with keys `_0_`, `_1_` as in agent-js'
// TupleClass. `IDL.Rec()` gives a node with `fill(t)` / `getType()`.
'use strict';
const readline = require('readline');

const ALL = new WeakSet(); // every type node ever built by the mock

class MockUsageError extends Error {
  constructor(msg) {
    super(msg);
    this.name = 'MockUsageError';
  }
}

function describe(x) {
  if (x === undefined) return 'undefined';
  if (x === null) return 'null';
  if (typeof x === 'function') return 'function';
  if (typeof x === 'object') return Array.isArray(x) ? 'array' : 'object';
  return typeof x + ' ' + String(x);
}
function mk(k, props) {
  const o = Object.assign({ k }, props);
  ALL.add(o);
  return o;
}
function chk(x, where) {
  if (typeof x !== 'object' || x === null || !ALL.has(x)) {
    throw new MockUsageError(where + ': argument is not an IDL type (' + describe(x) + ')');
  }
  return x;
}
function entries(fields, where) {
  if (typeof fields !== 'object' || fields === null || Array.isArray(fields) || ALL.has(fields)) {
    throw new MockUsageError(where + ': expected an object literal of fields (' + describe(fields) + ')');
  }
  // agent-js: Object.entries(fields) -- own enumerable string keys only
  return Object.entries(fields).map(([k, v]) => [k, chk(v, where + ' field ' + JSON.stringify(k))]);
}
function tylist(a, where) {
  if (!Array.isArray(a)) throw new MockUsageError(where + ': expected an array (' + describe(a) + ')');
  return a.map((t, i) => chk(t, where + '[' + i + ']'));
}
const prim = (name) => mk('prim', { name });

const IDL = Object.freeze({
  Null: prim('null'),
  Bool: prim('bool'),
  Nat: prim('nat'),
  Int: prim('int'),
  Nat8: prim('nat8'),
  Nat16: prim('nat16'),
  Nat32: prim('nat32'),
  Nat64: prim('nat64'),
  Int8: prim('int8'),
  Int16: prim('int16'),
  Int32: prim('int32'),
  Int64: prim('int64'),
  Float32: prim('float32'),
  Float64: prim('float64'),
  Text: prim('text'),
  Reserved: prim('reserved'),
  Empty: prim('empty'),
  Principal: prim('principal'),
  Opt: (t) => mk('opt', { t: chk(t, 'IDL.Opt') }),
  Vec: (t) => mk('vec', { t: chk(t, 'IDL.Vec') }),
  Record: (fields) => mk('record', { fields: entries(fields, 'IDL.Record') }),
  Variant: (fields) => mk('variant', { fields: entries(fields, 'IDL.Variant') }),
  Tuple: (...ts) => mk('record', { tuple: true, fields: ts.map((t, i) => ['_' + i + '_', chk(t, 'IDL.Tuple[' + i + ']')]) }),
  Func: (args, rets, modes = []) => {
    if (!Array.isArray(modes) || modes.some((m) => typeof m !== 'string')) {
      throw new MockUsageError('IDL.Func: annotations must be an array of strings');
    }
    return mk('func', { args: tylist(args, 'IDL.Func args'), rets: tylist(rets, 'IDL.Func rets'), modes: modes.slice() });
  },
  Service: (fields) => mk('service', { methods: entries(fields, 'IDL.Service') }),
  Rec: () => {
    const o = mk('rec', { target: null, fills: 0 });
    o.fill = (t) => {
      o.target = chk(t, 'Rec.fill');
      o.fills += 1;
    };
    o.getType = () => {
      if (o.target === null) throw new Error('Recursive type uninitialized.');
      return o.target;
    };
    return o;
  },
});

// Generated code is compiled with `new Function` (strict mode through the directive): the
// whole text is parsed at construction, so every early error (reserved words, duplicate
// declarations, octal escapes) surfaces as a SyntaxError before anything runs.
function errOut(id, stage, e) {
  let name = 'Unknown';
  let message = '';
  try {
    name = e && e.name !== undefined ? String(e.name) : typeof e;
    message = e && e.message !== undefined ? String(e.message) : String(e);
  } catch (_) {
    /* keep defaults */
  }
  return { id, ok: false, stage, name, message };
}

function graph(roots) {
  const ids = new Map();
  const nodes = [];
  const visit = (n) => {
    if (ids.has(n)) return ids.get(n);
    const id = nodes.length;
    ids.set(n, id);
    nodes.push(null);
    let out;
    switch (n.k) {
      case 'prim':
        out = { k: 'prim', name: n.name };
        break;
      case 'opt':
      case 'vec':
        out = { k: n.k, t: visit(n.t) };
        break;
      case 'record':
      case 'variant':
        out = { k: n.k, tuple: n.tuple === true, fields: n.fields.map(([key, t]) => [key, visit(t)]) };
        break;
      case 'func':
        out = { k: 'func', args: n.args.map(visit), rets: n.rets.map(visit), modes: n.modes };
        break;
      case 'service':
        out = { k: 'service', methods: n.methods.map(([key, t]) => [key, visit(t)]) };
        break;
      case 'rec':
        out = { k: 'rec', t: n.target === null ? null : visit(n.target), fills: n.fills };
        break;
      default:
        throw new Error('mock: unknown node kind ' + n.k);
    }
    nodes[id] = out;
    return id;
  };
  const rootIds = roots.map(visit);
  return { nodes, rootIds };
}

function evalActor(id, js) {
  let nexp = 0;
  const body = js.replace(/^export const /gm, () => {
    nexp += 1;
    return 'const ';
  });
  // 1. the module text must be syntactically valid strict-mode code
  let mod;
  try {
    mod = new Function('"use strict";\n' + body + '\nreturn { idlFactory: idlFactory, init: init };');
  } catch (e) {
    return errOut(id, 'parse', e);
  }
  if (nexp !== 2) {
    return { id, ok: false, stage: 'shape', name: 'ShapeError', message: "expected 2 'export const' at line starts, found " + nexp };
  }
  // 2. evaluate it (function scope: nothing leaks between programs)
  let exp;
  try {
    exp = mod();
  } catch (e) {
    return errOut(id, 'module', e);
  }
  if (typeof exp.idlFactory !== 'function' || typeof exp.init !== 'function') {
    return { id, ok: false, stage: 'shape', name: 'ShapeError', message: 'idlFactory/init are not functions' };
  }
  let svc;
  try {
    svc = exp.idlFactory({ IDL });
  } catch (e) {
    return errOut(id, 'factory', e);
  }
  let ini;
  try {
    ini = exp.init({ IDL });
  } catch (e) {
    return errOut(id, 'init', e);
  }
  try {
    chk(svc, 'idlFactory result');
    tylist(ini, 'init result');
  } catch (e) {
    return errOut(id, 'result', e);
  }
  const g = graph([svc].concat(ini));
  return { id, ok: true, nodes: g.nodes, service: g.rootIds[0], init: g.rootIds.slice(1), exports: nexp };
}

function evalFragment(id, js) {
  let frag;
  try {
    frag = new Function('"use strict";\n' + js);
  } catch (e) {
    return errOut(id, 'parse', e);
  }
  // informational: run it with `IDL` as a global (the fragment uses IDL free)
  let run = null;
  globalThis.IDL = IDL;
  try {
    frag();
  } catch (e) {
    const o = errOut(id, 'run', e);
    run = { name: o.name, message: o.message };
  } finally {
    delete globalThis.IDL;
  }
  return { id, ok: true, noactor: true, run };
}

const rl = readline.createInterface({ input: process.stdin, terminal: false, crlfDelay: Infinity });
rl.on('line', (line) => {
  if (line.length === 0) return;
  let out;
  let req = null;
  try {
    req = JSON.parse(line);
    out = req.actor ? evalActor(req.id, req.js) : evalFragment(req.id, req.js);
  } catch (e) {
    // a failure of the mock itself: the caller treats this as a machinery error
    out = { id: req ? req.id : null, ok: false, stage: 'mock', name: 'MockInternalError', message: String(e && e.stack ? e.stack : e) };
  }
  process.stdout.write(JSON.stringify(out) + '\n');
});
rl.on('close', () => process.exit(0));
