#!/usr/bin/env python3
"""Generates MANIFEST.json from the table below (single source of truth for the interface)."""
import json, sys

CHECKS = {
 # id: (technique, level text, level_note, design_ref)
 "C02": ("bounded-exhaustive enumeration of (message, expected type) scopes + <=2-byte deviations of the real decoder vs. a spec-derived reference decoder and coercion function",
         "Every (wire type, value, expected type) triple of the stated finite scopes, every legal table transformation, every hostile table of <=2 entries and every 1-byte (thorough: 2-byte) deviation is decoded by the real untyped decoder and by the reference model (strict binary grammar + coercion relation); acceptance and returned values must agree case by case.",
         "Trusted: reference models R2/R3/R4 written from spec/Candid.md (validated against the spec's own test suite at setup); scope bounds as listed in evidence.rule.",
         "DESIGN.md section 5, C02"),
 "C05": ("bounded-exhaustive enumeration of type-environment pairs and BFS over query histories sharing one memo (explicit-state, states merged on memo content), real subtype/equal/upgrade checks vs. a greatest-fixed-point reference",
         "Every query of the stated scopes (all pairs of small types; all environments of two mutually recursive definitions vs. every single-definition mutant; record pairs with one flipped leaf; 10 query shapes incl. opt-probe-then-reuse) is answered by the real subtype (3 modes), subtype_check_all, equal and, through printed .did text with order/renaming variants, service_compatible / report / service_equal, and compared with the greatest fixed point computed over the reachable pair graph; histories of successful queries sharing one Gamma are explored breadth-first with the answer and the invariant 'memo is a subset of the relation' checked on every transition.",
         "Trusted: R3 (gfp over reachable pairs) as a reading of the spec's rules. Transitivity is demanded on the null-free fragment only, because the spec's own relation is not transitive through null-typed record fields.",
         "DESIGN.md section 5, C05; Appendix A.1, C.2"),
 "C16": ("bounded-exhaustive enumeration of principals (all byte strings of length <=2, structured families for every length 0..40) and of all single (thorough: double) deviations of their canonical texts, real ic_principal parser/printer/constructors vs. a reference CRC32/base32 implementation",
         "Every principal of the scope is printed, parsed back and pushed through every constructor and serde/candid form; every text of the deviation scope (replace/insert/delete/dash moves/regrouping/truncation/case masks) is parsed by the real parser and by the reference parser; acceptance and the returned principal must agree.",
         "Trusted: refmodel::hash (CRC32, RFC 4648 base32, grouping) cross-checked by a second classifier in the check. The serde binary form delivered as an owned buffer (visit_byte_buf is candid's private tag-byte channel) is counted as informational, not a verdict.",
         "DESIGN.md section 5, C16"),
}

NOT_YET = {}

def main():
    props = [json.loads(l) for l in open('/verif/properties.jsonl')]
    checks = []
    na = []
    for p in props:
        pid = p['id']
        if pid in CHECKS:
            tech, text, note, ref = CHECKS[pid]
            checks.append({
                "property_id": pid,
                "quick_cmd": f"./check {pid} --tier quick",
                "thorough_cmd": f"./check {pid} --tier thorough",
                "evidence_file": f"/verif/evidence/{pid}.json",
                "replay_cmd_template": f"./check {pid} --replay {{path}}",
                "engine": "mc",
                "level_claimed": {"category": "model_checking", "text": text, "design_ref": ref},
                "level_note": note,
                "technique": tech,
            })
        else:
            na.append({"property_id": pid, "reason": NOT_YET.get(pid, "check not built yet (work in progress; see DESIGN.md section 5 for the design)")})
    m = {
        "version": 1,
        "setup_cmd": "./check --setup",
        "hooks": {
            "guard": "candid_verif",
            "enable": "none needed: every explorer drives public API of /repo's crates through path dependencies (RUSTFLAGS=--cfg candid_verif reserved, unused)",
            "baseline_off_cmd": "cd /repo && cargo test --workspace --no-fail-fast --offline",
            "source_commits": [],
            "add_only": True,
        },
        "engines": [
            {"name": "mc", "path": "/verif/mc", "serves_properties": sorted(CHECKS.keys()),
             "kind_free_text": "Rust explorer linked against /repo's crates: bounded-exhaustive scope enumeration (E1), BFS over operation histories with canonical state digests (E2), <=2-deviation mutation (E3), budget sweeps (E4); oracles are spec-derived reference models in mc/refmodel"},
        ],
        "checks": checks,
        "not_applicable": na,
        "notes": "All checks rebuild mc against /repo's working tree (cargo path dependencies) before exploring. known_findings.txt lists genuine defects recorded rather than repaired. seeded/ holds property-breaking changes used to validate detection.",
    }
    json.dump(m, open('/verif/MANIFEST.json', 'w'), indent=1)
    print("checks:", len(checks), "not_applicable:", len(na))

main()
