#!/usr/bin/env python3
"""Generates MANIFEST.json from the table below (single source of truth for the interface)."""
import json, sys

def E(tech, text, note, ref):
    return (tech, text, note, ref)

CHECKS = {
 "C01": E("bounded-exhaustive enumeration of a compile-time corpus of ~800 Rust types x small values x 4 API pairs, plus explicit-state BFS over histories of type-derivation / builder / encode / decode operations (fresh OS thread per history, states merged on a canonical digest of memo, builders and decoder)",
          "Every small value of every corpus type is encoded and decoded through Encode!/Decode!, encode_args/decode_args, encode_one/decode_one and IDLBuilder+IDLDeserialize+done and compared (floats by bits) with itself; two-argument messages over all ordered pairs of a reduced corpus (incl. two different types with one type_name, deques in both storage shapes, identifiers outside ASCII, 256-byte strings and method names); every history of <=4 (thorough 5) operations over the memo-sensitive types is replayed on a fresh thread, every produced message is decoded by the strict reference decoder and the real decoder, and every operation's outcome must not depend on the history.",
          "Trusted: the corpus' own Cor::to_val (abstract value of a Rust value) and the R2 strict decoder. Rust types are a finite compile-time product, not 'all Rust types'.",
          "DESIGN.md section 5 C01, Appendix C.1"),
 "C02": E("bounded-exhaustive enumeration of (message, expected type) scopes + <=2-byte deviations of the real decoder vs. a spec-derived reference decoder and coercion function",
          "Every (wire type, value, expected type) triple of the stated finite scopes, every legal table transformation, every hostile table of <=2 entries, one-step neighbour pairs whose deciding component sits behind an alias chain, length-prefixed data at 127..65536 bytes, and every 1-byte (thorough: 2-byte) deviation is decoded by the real untyped decoder and by the reference model (strict binary grammar + coercion relation); acceptance and returned values must agree case by case.",
          "Trusted: reference models R2/R3/R4 written from spec/Candid.md (self-consistency checked at setup); scope bounds as listed in evidence.rule.",
          "DESIGN.md section 5 C02, Appendix A.2"),
 "C03": E("bounded-exhaustive enumeration of encoder inputs (all corpus values natively, all (environment, type, value) triples through the untyped API) checked by a strict spec-derived decoder and exact re-serialisation",
          "Every message the encoders produce in scope is decoded by the strict reference decoder (composite-only table, ascending unique ids and method names, index ranges, nothing left over), must denote exactly the input values at types structurally equal to the specified ones, and must equal the canonical re-serialisation of what was decoded (minimal LEB128, declared variant index); encoding twice and serialising a builder twice give identical bytes; one builder used for two messages (arg, serialize, serialize, arg, serialize) over all ordered pairs of a reduced corpus emits what a fresh builder emits.",
          "Trusted: R2 decoder/encoder of values, R3 equality, Cor::to_ty/to_val as the specified Rust mapping.",
          "DESIGN.md section 5 C03"),
 "C04": E("bounded-exhaustive enumeration of type pairs accepted by the real subtype check x all small values of the subtype, decoded at the supertype (untyped and native), incl. chains",
          "For every pair of the C05 scope that the implementation's own subtype check accepts, every tiny-domain value of the subtype is encoded and decoded at the supertype: it must succeed and the result must be typed at the supertype by the reference typing judgement; decoding via an intermediate supertype differs from direct decoding only by ~ (opt to null). The scope includes side conditions decided through alias chains. Native half: all ordered pairs of a reduced Rust corpus accepted by the checker, incl. an upgrade pair of enums with a case added inside variant payloads, below options.",
          "Trusted: R1 typing and ~, R2 encoder. Environments with opt-only cycles (type A = opt A) and with uninhabited infinitely recursive records are outside the scope (the spec's coercion has no finite derivation there / the header parser rewrites them to empty).",
          "DESIGN.md section 5 C04"),
 "C05": E("bounded-exhaustive enumeration of type-environment pairs and BFS over query histories sharing one memo (explicit-state, states merged on memo content), real subtype/equal/upgrade checks vs. a greatest-fixed-point reference",
          "Every query of the stated scopes is answered by the real subtype (3 modes), subtype_check_all, equal and, through printed .did text with order/renaming variants, service_compatible / report / service_equal, and compared with the greatest fixed point computed over the reachable pair graph; histories of successful queries sharing one Gamma are explored breadth-first with the answer and the invariant 'memo is a subset of the relation' checked on every transition.",
          "Trusted: R3 (gfp over reachable pairs) as a reading of the spec's rules. Transitivity is demanded on the null-free fragment only, because the spec's own relation is not transitive through null-typed record fields.",
          "DESIGN.md section 5 C05; Appendix A.1, C.2"),
 "C06": E("bounded-exhaustive enumeration of byte strings, 1-byte deviations and parameter-swept hostile families x 24 targets x 8-10 decoder configurations x 3 stack classes x 2 build profiles, each call in a single-threaded worker process under a counting allocator",
          "All byte strings DIDL+s up to the stated lengths, every 1-byte deviation of valid messages, and every member of the hostile families (huge/over-long counts at every count position, zero-sized element bombs, recursive tables, nesting 1..20000 of opt / vec / record / variant chains, counts whose byte size lies within 32 bytes of 2^63 / 2^64, future-typed values, wire-supplied strings with a multi-byte character across round byte offsets, two and three deep values in one message consumed in different ways with the depths sweeping through the region where each stack class runs out) are decoded at native and untyped targets under every configuration: each call returns Ok or Err; a panic, a dead worker, 20 s of the worker's CPU time without progress or an allocation above 4 MiB + 64*|input| + 64*quota is a violation; checked and release builds must agree.",
          "Trusted: the counting allocator and the process supervisor. 'Work proportional to the quota' is decided through allocation and termination, not timing; unmetered runs only on messages denoting <= 10^6 value nodes.",
          "DESIGN.md section 5 C06"),
 "C07": E("budget sweep: for every message of the scope the decoding cost is measured and then every quota value 0..=cost+2 (each a distinct abort point) is replayed on the real decoder; cost compared with a reference cost model",
          "For every successful (wire, expected) case of the C02 scope through the untyped API, every small corpus value natively, zero-sized element vectors and surplus arguments: each run under a decoding or skipping quota is either a quota error or exactly the unmetered result; success is monotone with threshold <= reported cost; reported cost is the same under every quota; cost >= value nodes, skipping cost >= skipped nodes, cost <= 4 x the documented model.",
          "Trusted: R5 (documented cost formula), R2 node counts, R4 to decide what is skipped. K=4 was chosen from the measured distribution (reported in evidence outcomes cost/model:*).",
          "DESIGN.md section 5 C07"),
 "C08": E("bounded-exhaustive enumeration of corpus Rust targets x messages at the target's type, every one-step neighbour type and byte-layout look-alikes; native decoding vs. untyped decoding at the same Candid type",
          "For every corpus type (plus borrowed targets and BoundedVec with each limit kind) and every message of the scope - at the target's own level and again one level below an option (wire opt w, target Option<T>) - Decode! succeeds iff from_bytes_with_types at the type's Candid type succeeds (documented host limits excused and computed independently) and both denote the same abstract value.",
          "Trusted: Cor::to_val for native results, R2 encoder for the messages, reference arithmetic for bounded-vector limits (DataSize as documented: Vec counts its 24-byte header).",
          "DESIGN.md section 5 C08"),
 "C09": E("bounded-exhaustive enumeration of (S)LEB128 byte strings (all strings of length <=2, thorough <=3; run-length pattern families around the 64- and 128-bit boundaries with all final byte pairs; unterminated strings) and of integers +-2^k+d, on 17 decoder and 10 encoder entry points in both build profiles",
          "Every string of the scope is decoded by every entry point (standalone readers with a sentinel, and embedded in hand-built messages for Nat, Int, u128, i128, vectors and maps) and compared with the mathematical value, bytes consumed and range verdict of the reference; encoders must emit the minimal string; nothing panics; checked and release agree.",
          "Trusted: refmodel::leb on big integers.",
          "DESIGN.md section 5 C09"),
 "C10": E("bounded-exhaustive enumeration of (environment, type, value) triples and of all single-point near-miss mutants of each value, through annotate / typed encode / decode",
          "Every triple: annotate_type keeps the meaning and sets variant indices, to_bytes_with_types output decodes (reference decoder, typed and untyped real decoder) to the same value at an equal type, to_bytes round-trips; every near-miss (other number width/kind, missing non-optional field, undeclared tag, other reference kind, wrong element) is accepted by typed encoding and parser-mode annotation iff typed under the three stated allowances; liberal annotation must only be type safe; try_from_candid_type on the whole Rust corpus.",
          "Trusted: R1 typing, R2, R3. Extra record fields and missing optional fields are not near-misses (documented width subtyping / defaults).",
          "DESIGN.md section 5 C10"),
 "C11": E("bounded-exhaustive enumeration of values incl. every Unicode scalar value in text (alone and before 9 context characters), every byte pair in blobs, labels from keyword / hostile lists in every position, numbers +-2^k+d, float boundary lists, structure around the printer's abbreviation thresholds; print -> parse -> annotate round trip",
          "Every value of the scope is printed by Display and Debug (as IDLArgs and as a single IDLValue), printed twice (determinism), parsed by parse_idl_args / parse_idl_value and re-annotated; the result must equal the original.",
          "Trusted: IDLValue equality (floats by bits). Record values are built sorted by id (the parser sorts). Thorough adds all ordered pairs over 792 scalars, every scalar in every label position and all finite float32 bit patterns through a replica of the reader.",
          "DESIGN.md section 5 C11"),
 "C12": E("bounded-exhaustive enumeration of well-formed programs (generator U_P) and of TypeContainer exports of the Rust corpus; print -> parse -> check -> structural comparison",
          "Every program is printed by pretty::candid::compile and syntax::pretty_print, re-parsed and re-checked; every definition and the service must be structurally equal (R3 bisimulation through the bridge and candid's own equal / service_equal) to the program's denotation; printing is deterministic; instantiate_candid and get_metadata work on the result. Every corpus type's TypeContainer export re-parses to the specified type.",
          "Trusted: Prog::to_did / to_model (the generator's own printer quotes every label) and R3.",
          "DESIGN.md section 5 C12"),
 "C13": E("bounded-exhaustive enumeration of character strings (<=3, thorough 4 over a 44-character alphabet), token strings (<=4/5 over 40-73 lexemes), all single-token mutants of 40 seed sentences, nesting sweeps to depth 128, on all parser entry points in both build profiles, in worker processes",
          "Every input goes to every entry point (IDLProg, IDLType, IDLTypes, IDLInitArgs, Test, args, value) and, on success, to check_prog / check_init_args / annotate / Display, on failure to Error::report and Display: each returns; a panic, abort or dead worker is a violation bisected to the input; diagnostics carry an in-range location; checked and release agree on Ok/Err.",
          "Trusted: the process supervisor. pretty_parse only on the levels marked (pretty) in the evidence (it is 25x slower).",
          "DESIGN.md section 5 C13"),
 "C14": E("bounded-exhaustive enumeration of a complete small syntactic universe of programs (well-formed or not), of U_P, and of every single-fault mutant of U_P; real type checker vs. an independent well-formedness predicate",
          "Every program of the universe (definition lists over 42 right-hand sides x 13 actors), every generated program and every single-fault mutant is parsed and checked; accepted iff the reference predicate R8 says well-formed; on every accepted environment name tracing, subtyping, chase_actor, encoding and the binding generators terminate without panicking (worker process with supervised death/hang detection); also check_init_args and check_file with imports.",
          "Trusted: R8 (c14/src/wf.rs) as a reading of the spec's well-formedness rules.",
          "DESIGN.md section 5 C14"),
 "C15": E("bounded-exhaustive enumeration of label strings (all strings <=3, thorough <=4, over 40 characters; multi-byte strings long enough to wrap 2^32; keywords; colliding pairs found by search) across hash function, Label, parsers, macros, binary header and a generated derive-macro corpus",
          "idl_hash equals the reference hash on every string; Label eq/ord/hash are mutually consistent on all ordered pairs; types and values written by name or by id encode to identical, strictly-ascending bytes and decode against each other; duplicate ids are rejected by parsers, macros and the header (all id sequences <=3/4); the derive macro maps ~350 labels (identifiers, raw identifiers, renames) to the parser's ids and refuses colliding pairs at compile time.",
          "Trusted: refmodel::hash, R2. The derive corpus is a finite generated crate (compile step).",
          "DESIGN.md section 5 C15"),
 "C16": E("bounded-exhaustive enumeration of principals (all byte strings of length <=2, structured families for every length 0..40) and of all single (thorough: double) deviations of their canonical texts, real ic_principal parser/printer/constructors vs. a reference CRC32/base32 implementation",
          "Every principal of the scope is printed, parsed back and pushed through every constructor and serde/candid form; every text of the deviation scope is parsed by the real parser and by the reference parser; acceptance and the returned principal must agree.",
          "Trusted: refmodel::hash (CRC32, RFC 4648 base32, grouping) cross-checked by a second classifier. The serde binary form delivered as an owned buffer (candid's private tag-byte channel) is informational.",
          "DESIGN.md section 5 C16"),
 "C17": E("bounded-exhaustive enumeration of programs (U_P, all definition graphs on <=3 (thorough 4) nodes in all textual orders, alias chains, name alphabets in every position); generated JavaScript evaluated by node against a structural IDL mock and compared with the program's denotation",
          "For every program the generated module is evaluated in strict mode; idlFactory and init must return type graphs structurally equal (R3) to the program's service and init arguments; no exception (ReferenceError = used before declaration, SyntaxError = reserved word or bad quoting); compile is deterministic. 13 hand-made mutants of a correct module must be caught by the mock before each run.",
          "Trusted: js/mock_idl.js (the agent-js IDL surface the generator uses: constructors see object literals through Object.entries, numeric keys spelled _N_), R3.",
          "DESIGN.md section 5 C17"),
 "C18": E("bounded-exhaustive enumeration of programs stressing nominalisation; emitted Rust type definitions compiled in a scratch crate and each item's derived Candid type compared with the source definition",
          "For every program emit_bindgen's type definitions are compiled (one module per program; failing modules are attributed and removed, the rest rebuilt), every item exports its derived type, and every source definition / anonymous sub-term must be matched by an item with a structurally equal type (R3); distinct source types must not collapse into one item; method signatures are compared through aliases.",
          "Trusted: rustc + the derive macro (that is what the property quantifies over), R3, the name-insensitive item matching. The ic_cdk call stubs are not compiled.",
          "DESIGN.md section 5 C18"),
 "C19": E("bounded-exhaustive enumeration of programs x 6 generator entry points, with 55 hostile doc strings and 208 hostile names placed at every comment / name position; differential tokenisation against a benign twin",
          "Each generator returns without panicking, returns the same text on a second run and on a fresh thread, defines every type name it references and mentions every method once; the token-kind sequence of the output with a hostile string equals that with a benign placeholder (no comment or string terminated early, no token injected), decided by total lexers for JS/TS, Motoko and Rust.",
          "Trusted: the three lexers (c19/src/lex.rs) and the reachability model. No TS/Motoko compiler exists offline; closure and escaping are decided lexically.",
          "DESIGN.md section 5 C19"),
 "C20": E("bounded-exhaustive enumeration of all entropy seeds of length <=4 (thorough 6) over a 5-byte alphabet x environments / argument type lists x 57 generator configurations, each run in a supervised worker process",
          "random::any either returns an error or values that annotate unchanged at the requested types, encode, and decode (reference decoder) to inhabitants of those types; it never panics, never hangs (watchdog), is deterministic in the seed, and recursive types terminate.",
          "Trusted: R1 typing, R2. The size bound under depth/size limits is a conservative own bound and informational when the limit is set at the root of the config (documented soft limit).",
          "DESIGN.md section 5 C20"),
}

NOT_YET = {}

def main():
    props = [json.loads(l) for l in open('/verif/properties.jsonl')]
    checks = []
    na = []
    for p in props:
        pid = p['id']
        if pid in CHECKS:
            tech, text, note, ref = CHECKS[pid]
            checks.append({
                "property_id": pid,
                "quick_cmd": f"./check {pid} --tier quick",
                "thorough_cmd": f"./check {pid} --tier thorough",
                "evidence_file": f"/verif/evidence/{pid}.json",
                "replay_cmd_template": f"./check {pid} --replay {{path}}",
                "engine": "mc",
                "level_claimed": {"category": "model_checking", "text": text, "design_ref": ref},
                "level_note": note,
                "technique": tech,
            })
        else:
            na.append({"property_id": pid, "reason": NOT_YET.get(pid, "check not built yet (work in progress; see DESIGN.md section 5 for the design)")})
    m = {
        "version": 1,
        "setup_cmd": "./check --setup",
        "hooks": {
            "guard": "candid_verif",
            "enable": "none needed: every explorer drives public API of /repo's crates through path dependencies (RUSTFLAGS=--cfg candid_verif reserved, unused)",
            "baseline_off_cmd": "cd /repo && RUSTUP_TOOLCHAIN=stable-x86_64-unknown-linux-gnu cargo nextest run --workspace --no-fail-fast --offline",
            "source_commits": [],
            "add_only": True,
        },
        "engines": [
            {"name": "mc", "path": "/verif/mc", "serves_properties": sorted(CHECKS.keys()),
             "kind_free_text": "Rust workspace linked against /repo's crates by path (binary mc for C01-C08, C10, C12; one binary cNN per other property): bounded-exhaustive scope enumeration (E1), BFS over operation histories with canonical state digests (E2), <=2-deviation mutation (E3), budget sweeps (E4); oracles are spec-derived reference models in mc/refmodel; node (js/mock_idl.js) and rustc (generated scratch crates under /verif/work) as external evaluators for C17 / C15, C18"},
        ],
        "checks": checks,
        "not_applicable": na,
        "notes": "All checks rebuild mc against /repo's working tree (cargo path dependencies) before exploring. known_findings.txt lists genuine defects recorded rather than repaired. seeded/ holds property-breaking changes used to validate detection.",
    }
    json.dump(m, open('/verif/MANIFEST.json', 'w'), indent=1)
    print("checks:", len(checks), "not_applicable:", len(na))

main()
