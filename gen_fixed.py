#!/usr/bin/env python3
"""Rewrites the `fixed:` lines of known_findings.txt from /repo's fix: commits (hashes change when the
fix commits are rebased). Mapping: commit subject -> (property, what failed)."""
import subprocess, re
M = [
 ("strip the 0X prefix", "C13", "upper-case hex literal `(0X1F)` panicked the value parser (lexer kept the prefix, grammar unwrapped None)"),
 ("reject record shorthand ids beyond 32 bits", "C13", "any record field id 4294967295 overflowed `id + 1` (panic with overflow checks) in record values and record types, e.g. `record { 4294967295 : nat }`"),
 ("roll back every assumption made under a failed subtype check", "C05", "stale memo entries after a failed opt probe: `record { p : opt A; q : B } <: record { p : opt A2; q : B2 }` accepted although B <: B2 does not hold (subtype, subtype_check_all, service_compatible, report)"),
 ("coerce a non-blob wire vector element-wise", "C02", "empty `vec T` (T != nat8) rejected at expected `vec nat8`: 4449444c016d68010000 at (vec nat8)"),
 ("do not decode function and service references from wire type empty", "C02", "wire type `empty` accepted for func/service reference values: 4449444c016a0171017c00016f010103caffee016d at (func () -> ())"),
 ("read the function annotation count as LEB128", "C02", "padded LEB128 function annotation count rejected: 4449444c026a0101017d80006e7d0100010103caffee016d"),
 ("report an error instead of panicking when asked for a random value of type empty", "C20", "random::any panicked (unimplemented!) on argument type `empty`"),
 ("random generation for variants without an inhabited alternative", "C20", "random::any panicked on `variant {}` (index out of bounds) and `variant { 0 : empty }` (subtraction overflow)"),
 ("an empty `range` in the random config", "C20", "`range = [10, 5]` made Unstructured::int_in_range assert"),
 ("size estimation of random values propagates lookup failures", "C20", "`type t = variant { 0 : t }`, `(opt t)`: unwrap on 'Recursion limit exceeded' inside size_helper"),
 ("give the target of a recursion knot its own type-table entry", "C01", "history [IDLBuilder::new(), B::ty(), arg(&a)] (A, B mutually recursive), or IDLBuilder::default(): 'knot type ... not found'"),
 ("serialising a builder twice no longer repeats the type table", "C03", "second serialize_to_vec() on one builder emitted the header twice (4449444c00000000 for an empty builder)"),
 ("escape the actor's definition name in the generated JavaScript", "C17", "`type class = service {}; service : class` emitted `return class;`"),
 ("quote NUL as \\x00", "C17", "method / field names containing NUL were quoted as '\\0..' (octal escape, SyntaxError in strict mode) in JavaScript/TypeScript output"),
 ("native tuples skip surplus fields of a longer wire tuple", "C08", "`record {text; float64; opt nat}` at (String, f64): 'Trailing value after finishing deserialization' / misaligned reads inside vectors"),
 ("a map target accepts an empty wire vector", "C08", "`vec empty` / `vec null` with zero elements rejected at BTreeMap / HashMap targets, accepted untyped"),
 ("128-bit LEB128 decoders detect overflow", "C09", "nat 2^128 decoded to 0 at u128, int 2^127 to i128::MIN, padded 20-byte encodings panicked (shift overflow): leb128.rs `shift == 127` guard never true"),
 ("untyped decoding of a variant whose tag name contains a comma", "C15", "expected type `variant { \",\" }` hit unreachable!() in IDLValueVisitor::visit_enum: 4449444c016b012c7f010000"),
 ("escape method names in generated define_service!", "C19", "Rust binding printed service method names raw inside a string literal: a name with \" or \\ injected tokens"),
 ("escape the actor's definition name in the generated TypeScript", "C19", "`service : class` emitted `export interface _SERVICE extends class {}` while only class_ is defined"),
 ("print NUL in text values and quoted names", "C11", "text \"\\0\" printed as `\\0` (unknown escape; `\\0` + hex digit re-read as a byte escape), also in labels"),
 ("quote the labels `true` and `false`", "C11", "labels true / false printed unquoted and lexed as booleans (values and types: also C12)"),
 ("Debug of a unit variant quotes its tag", "C11", "Debug printed `variant { a b }` / `variant { type }` unquoted"),
 ("Debug of an empty argument list", "C11", "`format!(\"{:?}\", IDLArgs{args: vec![]})` printed the empty string"),
 ("printing a vector whose first element is a nat8", "C13", "`(vec { 1 : nat8; 2 })` parses, but printing it hit unreachable!() (pretty/candid.rs blob printer); also reached by C10 through error messages"),
 ("annotate_types with more values than types", "C13", "test script `assert \"(1)\" : ();` panicked in IDLArgs::annotate_types (slice out of range)"),
 ("displaying a parse error that mentions a non-UTF-8 text token", "C13", "input `\"\\ff\"`: Display of the returned error formatted invalid UTF-8 as str (abort)"),
 ("a backslash before a non-ASCII character", "C13", "input `\"\\é`: escape regex matched half a character; chars() on the slice aborted in checked builds"),
 ("native tuples accept wire records that extend the tuple with non-consecutive ids", "C08", "`record { 0 : int32; 1 : nat8; 3 : nat }` at (i32, u8) rejected natively ('is not a tuple type'), accepted untyped; also missing optional tuple fields"),
 ("map targets accept wire entries that carry further or fewer fields", "C08", "`vec record { 0 : text; 1 : nat8; 2 : nat }` at HashMap<String,u8> rejected ('expect a key-value pair'), accepted untyped"),
 ("parse_idl_value accepts a type annotation at the root", "C11", "parse_idl_value rejected the Display text of any annotated single value (`42 : nat8`)"),
 ("surplus wire fields of a record are skipped without the made-up field name", "C15", "a record field named \"_\" was dropped by the untyped decoder; #[serde(rename = \"_\")] structs failed on any surplus wire field (4449444c016c015f7d010001 at record { \"_\" : nat })"),
 ("byte-string targets check the wire type", "C08", "&[u8] / serde_bytes::Bytes accepted text, vec nat, nat8 ... as bytes; ByteBuf rejected empty vectors of other element types"),
 ("method names of function references are checked to be UTF-8 when the value is skipped", "C02", "DIDL 01 6a 02 71 71 00 00 01 00 01 01 03 ca ff ee 01 80 at (opt principal): a func reference whose method name is not UTF-8 was accepted when skipped (surplus / mismatched opt / reserved)"),
]
log = subprocess.run(['git','-C','/repo','log','--format=%h\t%s','616d33a..HEAD','--reverse'],capture_output=True,text=True).stdout.strip().split('\n')
lines=[]
used=set()
for l in log:
    h,s=l.split('\t',1)
    hit=[m for m in M if m[0] in s]
    assert len(hit)==1, (s,hit)
    used.add(hit[0][0])
    lines.append(f"fixed: property={hit[0][1]} {h} {hit[0][2]}")
assert len(used)==len(M), set(m[0] for m in M)-used
p='/verif/known_findings.txt'
old=[l for l in open(p).read().split('\n') if not l.startswith('fixed:')]
while old and old[-1]=='' : old.pop()
head=[l for l in old if l.startswith('#')]
rest=[l for l in old if not l.startswith('#')]
open(p,'w').write('\n'.join(head+lines+rest)+'\n')
print(len(lines),'fixed entries')
