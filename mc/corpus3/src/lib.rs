//! one share of the corpus registry (split so that cargo compiles the shares in parallel)
pub fn register(v: &mut Vec<corpus::Entry>) {
    corpus::elem_reg!(v; candid::Int, u128, i128, candid::Principal, (), candid::Reserved, serde_bytes::ByteBuf);
}
