#![allow(unused_variables, unused_mut, unused_assignments)]
//! Compile-time corpus of Rust types with a Candid mapping (C01, C03, C04, C08).
//!
//! Every corpus type implements `Cor`, which gives (independently of the implementation's
//! derive macro and serializer) its small exhaustive value set, the Candid type it is
//! *specified* to map to (as a reference-model term) and the abstract value each Rust
//! value denotes. `entries()` is the type-erased registry the explorers iterate over.
use candid::types::reference::{Func, Service};
use candid::{CandidType, Decode, Deserialize, Encode, Int, Nat, Principal, Reserved};
use mclib::engine::catch;
use num_bigint::{BigInt, BigUint};
use refmodel::gen::product_capped;
use refmodel::hash::idl_hash;
use refmodel::ty::{Env, Mode, Prim, Ty};
use refmodel::val::Val;
use serde::de::DeserializeOwned;
use std::collections::{BTreeMap, BTreeSet, BinaryHeap, HashMap, HashSet, LinkedList, VecDeque};

pub mod special;
pub mod types;

pub trait Cor: Sized + Clone + CandidType + DeserializeOwned + 'static {
    fn name() -> String;
    fn small() -> Vec<Self>;
    /// specified Candid type; named (recursive) types are bound in `env`
    fn to_ty(env: &mut Env) -> Ty;
    fn to_val(&self) -> Val;
    /// contains a container without a wire order of its own
    fn unordered() -> bool {
        false
    }
}

pub const CAP: usize = 8;

fn p(x: Prim) -> Ty {
    Ty::Prim(x)
}

macro_rules! prim_cor {
    ($t:ty, $name:expr, $prim:expr, [$($v:expr),*], |$x:ident| $val:expr) => {
        impl Cor for $t {
            fn name() -> String { $name.to_string() }
            fn small() -> Vec<Self> { vec![$($v),*] }
            fn to_ty(_: &mut Env) -> Ty { p($prim) }
            fn to_val(&self) -> Val { let $x = self; $val }
        }
    };
}

prim_cor!(bool, "bool", Prim::Bool, [false, true], |x| Val::Bool(*x));
prim_cor!(u8, "u8", Prim::Nat8, [0, 255, 1], |x| Val::NatN(8, *x as u64));
prim_cor!(u16, "u16", Prim::Nat16, [0, 0xff01, 65535], |x| Val::NatN(16, *x as u64));
prim_cor!(u32, "u32", Prim::Nat32, [1, 0xff000001, u32::MAX], |x| Val::NatN(32, *x as u64));
prim_cor!(u64, "u64", Prim::Nat64, [0, 1 << 63, u64::MAX], |x| Val::NatN(64, *x));
prim_cor!(usize, "usize", Prim::Nat64, [0, usize::MAX], |x| Val::NatN(64, *x as u64));
prim_cor!(i8, "i8", Prim::Int8, [0, -1, -128, 127], |x| Val::IntN(8, *x as i64));
prim_cor!(i16, "i16", Prim::Int16, [1, -2, -32768], |x| Val::IntN(16, *x as i64));
prim_cor!(i32, "i32", Prim::Int32, [-1, i32::MIN, i32::MAX], |x| Val::IntN(32, *x as i64));
prim_cor!(i64, "i64", Prim::Int64, [0, i64::MIN, i64::MAX], |x| Val::IntN(64, *x));
prim_cor!(isize, "isize", Prim::Int64, [-1, isize::MIN], |x| Val::IntN(64, *x as i64));
prim_cor!(f32, "f32", Prim::Float32, [0.0, -0.0, 1.5, f32::from_bits(0x7fc00001), f32::from_bits(0x7fa00000), f32::from_bits(0xff800001)], |x| Val::F32(x.to_bits()));
prim_cor!(f64, "f64", Prim::Float64, [0.0, -0.0, 1.5, f64::from_bits(0x7ff8000000000001), f64::from_bits(0x7ff4000000000000), f64::from_bits(0xfff0000000000001)], |x| Val::F64(x.to_bits()));
// the last value is 256 bytes long with a 2-byte character across byte 255/256 (length prefix needs two LEB128 bytes)
prim_cor!(String, "String", Prim::Text, ["".to_string(), "a".to_string(), "é😀".to_string(), format!("{}é", "s".repeat(254))], |x| Val::Text(x.clone()));
prim_cor!((), "unit", Prim::Null, [()], |_x| Val::Null);
prim_cor!(Reserved, "Reserved", Prim::Reserved, [Reserved], |_x| Val::Reserved);
prim_cor!(
    u128,
    "u128",
    Prim::Nat,
    [0, 127, 128, 1 << 64, u128::MAX],
    |x| Val::Nat(BigUint::from(*x))
);
prim_cor!(
    i128,
    "i128",
    Prim::Int,
    [0, -1, 64, -65, i128::MIN, i128::MAX, -(1 << 64)],
    |x| Val::Int(BigInt::from(*x))
);

fn pow2(k: u32) -> BigUint {
    BigUint::from(1u8) << k
}

impl Cor for Nat {
    fn name() -> String {
        "Nat".into()
    }
    fn small() -> Vec<Self> {
        vec![
            Nat(BigUint::from(0u8)),
            Nat(BigUint::from(127u8)),
            Nat(BigUint::from(128u8)),
            Nat(pow2(63) - 1u8),
            Nat(pow2(63)),
            Nat(pow2(64)),
            Nat(pow2(128)),
        ]
    }
    fn to_ty(_: &mut Env) -> Ty {
        p(Prim::Nat)
    }
    fn to_val(&self) -> Val {
        Val::Nat(self.0.clone())
    }
}
impl Cor for Int {
    fn name() -> String {
        "Int".into()
    }
    fn small() -> Vec<Self> {
        vec![
            Int(BigInt::from(0)),
            Int(BigInt::from(-1)),
            Int(BigInt::from(63)),
            Int(BigInt::from(-64)),
            Int(BigInt::from(64)),
            Int(BigInt::from(-65)),
            Int(BigInt::from(pow2(62))),
            Int(-BigInt::from(pow2(62)) - 1),
            Int(BigInt::from(pow2(63))),
            Int(-BigInt::from(pow2(64))),
            Int(BigInt::from(pow2(127))),
        ]
    }
    fn to_ty(_: &mut Env) -> Ty {
        p(Prim::Int)
    }
    fn to_val(&self) -> Val {
        Val::Int(self.0.clone())
    }
}

pub fn principals() -> Vec<Principal> {
    vec![
        Principal::from_slice(&[]),
        Principal::from_slice(&[4]),
        Principal::from_slice(&(1..=29).collect::<Vec<u8>>()),
    ]
}
impl Cor for Principal {
    fn name() -> String {
        "Principal".into()
    }
    fn small() -> Vec<Self> {
        principals()
    }
    fn to_ty(_: &mut Env) -> Ty {
        p(Prim::Principal)
    }
    fn to_val(&self) -> Val {
        Val::Principal(self.as_slice().to_vec())
    }
}
impl Cor for serde_bytes::ByteBuf {
    fn name() -> String {
        "ByteBuf".into()
    }
    fn small() -> Vec<Self> {
        vec![serde_bytes::ByteBuf::from(vec![]), serde_bytes::ByteBuf::from(vec![0, 255]), serde_bytes::ByteBuf::from(vec![7]), serde_bytes::ByteBuf::from((0..=256u32).map(|i| (i % 256) as u8).collect::<Vec<u8>>())]
    }
    fn to_ty(_: &mut Env) -> Ty {
        Ty::vec(p(Prim::Nat8))
    }
    fn to_val(&self) -> Val {
        Val::blob(self.as_ref())
    }
}
impl Cor for Func {
    fn name() -> String {
        "Func".into()
    }
    fn small() -> Vec<Self> {
        vec![
            Func { principal: principals()[0], method: "".into() },
            Func { principal: principals()[2], method: "é m".into() },
            Func { principal: principals()[1], method: format!("{}é", "m".repeat(255)) },
        ]
    }
    fn to_ty(_: &mut Env) -> Ty {
        Ty::func(vec![], vec![], vec![])
    }
    fn to_val(&self) -> Val {
        Val::Func(self.principal.as_slice().to_vec(), self.method.clone())
    }
}
impl Cor for Service {
    fn name() -> String {
        "Service".into()
    }
    fn small() -> Vec<Self> {
        principals().into_iter().map(|principal| Service { principal }).collect()
    }
    fn to_ty(_: &mut Env) -> Ty {
        Ty::service(vec![])
    }
    fn to_val(&self) -> Val {
        Val::Service(self.principal.as_slice().to_vec())
    }
}

// ---- containers

fn cap<T>(mut v: Vec<T>) -> Vec<T> {
    if v.len() > CAP {
        let tail: Vec<T> = v.drain(v.len() - CAP / 2..).collect();
        v.truncate(CAP - CAP / 2);
        v.extend(tail);
    }
    v
}

/// small sequences over an element set: [], [x] for each x, [first, last], [last, first, second]
fn seqs<T: Clone>(xs: &[T]) -> Vec<Vec<T>> {
    let mut out = vec![vec![]];
    for x in xs {
        out.push(vec![x.clone()]);
    }
    if xs.len() >= 2 {
        out.push(vec![xs[0].clone(), xs[xs.len() - 1].clone()]);
        out.push(vec![xs[xs.len() - 1].clone(), xs[0].clone(), xs[1].clone()]);
    } else if xs.len() == 1 {
        out.push(vec![xs[0].clone(), xs[0].clone()]);
    }
    cap(out)
}

impl<T: Cor> Cor for Option<T> {
    fn name() -> String {
        format!("Option<{}>", T::name())
    }
    fn small() -> Vec<Self> {
        let mut v = vec![None];
        v.extend(T::small().into_iter().map(Some));
        cap(v)
    }
    fn to_ty(env: &mut Env) -> Ty {
        Ty::opt(T::to_ty(env))
    }
    fn to_val(&self) -> Val {
        Val::Opt(self.as_ref().map(|x| Box::new(x.to_val())))
    }
    fn unordered() -> bool {
        T::unordered()
    }
}

macro_rules! seq_cor {
    ($c:ident, $name:expr, $unordered:expr, [$($bound:tt)*]) => {
        impl<T: Cor $($bound)*> Cor for $c<T> {
            fn name() -> String { format!("{}<{}>", $name, T::name()) }
            fn small() -> Vec<Self> {
                seqs(&T::small()).into_iter().map(|v| v.into_iter().collect::<$c<T>>()).collect()
            }
            fn to_ty(env: &mut Env) -> Ty { Ty::vec(T::to_ty(env)) }
            fn to_val(&self) -> Val { Val::Vec(self.iter().map(|x| x.to_val()).collect()) }
            fn unordered() -> bool { $unordered || T::unordered() }
        }
    };
}
seq_cor!(Vec, "Vec", false, []);
// a deque has two storage shapes for one logical value: contiguous (collected) and wrapped around the end of its
// ring buffer (filled from both ends); both occur
impl<T: Cor> Cor for VecDeque<T> {
    fn name() -> String {
        format!("VecDeque<{}>", T::name())
    }
    fn small() -> Vec<Self> {
        let mut out: Vec<VecDeque<T>> = vec![];
        for v in seqs(&T::small()) {
            out.push(v.iter().cloned().collect());
            if v.len() >= 2 {
                let mut d: VecDeque<T> = VecDeque::with_capacity(v.len() + 1);
                for x in &v[1..] {
                    d.push_back(x.clone());
                }
                d.push_front(v[0].clone());
                out.push(d);
            }
        }
        out
    }
    fn to_ty(env: &mut Env) -> Ty {
        Ty::vec(T::to_ty(env))
    }
    fn to_val(&self) -> Val {
        Val::Vec(self.iter().map(|x| x.to_val()).collect())
    }
    fn unordered() -> bool {
        T::unordered()
    }
}
seq_cor!(LinkedList, "LinkedList", false, []);
// sets and maps have no wire order of their own (a BTree* re-sorts what it receives)
seq_cor!(BTreeSet, "BTreeSet", true, [+ Ord]);
seq_cor!(HashSet, "HashSet", true, [+ Eq + std::hash::Hash]);
seq_cor!(BinaryHeap, "BinaryHeap", true, [+ Ord]);

macro_rules! map_cor {
    ($c:ident, $name:expr, $unordered:expr, [$($bound:tt)*]) => {
        impl<K: Cor $($bound)*, V: Cor> Cor for $c<K, V> {
            fn name() -> String { format!("{}<{},{}>", $name, K::name(), V::name()) }
            fn small() -> Vec<Self> {
                let ks = K::small();
                let vs = V::small();
                let mut out: Vec<$c<K, V>> = vec![$c::new()];
                // one entry: every key once (value cycling), every value once (key cycling)
                for i in 0..ks.len().max(vs.len()) {
                    let mut m = $c::new();
                    m.insert(ks[i % ks.len()].clone(), vs[i % vs.len()].clone());
                    out.push(m);
                }
                // two and three entries
                if ks.len() >= 2 {
                    let mut m = $c::new();
                    m.insert(ks[0].clone(), vs[vs.len() - 1].clone());
                    m.insert(ks[ks.len() - 1].clone(), vs[0].clone());
                    out.push(m);
                }
                if ks.len() >= 3 {
                    let mut m = $c::new();
                    for (i, k) in ks.iter().take(3).enumerate() {
                        m.insert(k.clone(), vs[(i + 1) % vs.len()].clone());
                    }
                    out.push(m);
                }
                cap(out)
            }
            fn to_ty(env: &mut Env) -> Ty {
                Ty::vec(Ty::record(vec![(0, K::to_ty(env)), (1, V::to_ty(env))]))
            }
            fn to_val(&self) -> Val {
                Val::Vec(self.iter().map(|(k, v)| Val::record(vec![(0, k.to_val()), (1, v.to_val())])).collect())
            }
            fn unordered() -> bool { $unordered || K::unordered() || V::unordered() }
        }
    };
}
map_cor!(BTreeMap, "BTreeMap", true, [+ Ord]);
map_cor!(HashMap, "HashMap", true, [+ Eq + std::hash::Hash]);

macro_rules! wrapper_cor {
    ($c:ident, $path:path, $name:expr) => {
        impl<T: Cor> Cor for $path {
            fn name() -> String { format!("{}<{}>", $name, T::name()) }
            fn small() -> Vec<Self> { T::small().into_iter().map($c::new).collect() }
            fn to_ty(env: &mut Env) -> Ty { T::to_ty(env) }
            fn to_val(&self) -> Val { (**self).to_val() }
            fn unordered() -> bool { T::unordered() }
        }
    };
}
use std::rc::Rc;
use std::sync::Arc;
wrapper_cor!(Box, Box<T>, "Box");

impl<T: Cor> Cor for [T; 2] {
    fn name() -> String {
        format!("[{};2]", T::name())
    }
    fn small() -> Vec<Self> {
        let xs = T::small();
        let n = xs.len();
        let mut out = vec![[xs[0].clone(), xs[n - 1].clone()], [xs[n - 1].clone(), xs[0].clone()]];
        for x in &xs {
            out.push([x.clone(), x.clone()]);
        }
        cap(out)
    }
    fn to_ty(env: &mut Env) -> Ty {
        Ty::vec(T::to_ty(env))
    }
    fn to_val(&self) -> Val {
        Val::Vec(self.iter().map(|x| x.to_val()).collect())
    }
    fn unordered() -> bool {
        T::unordered()
    }
}

/// index combinations for heterogeneous products
pub fn combos(lens: &[usize]) -> Vec<Vec<usize>> {
    let f: Vec<Vec<usize>> = lens.iter().map(|n| (0..*n).collect()).collect();
    product_capped(&f, 12)
}

impl<A: Cor, B: Cor> Cor for (A, B) {
    fn name() -> String {
        format!("({},{})", A::name(), B::name())
    }
    fn small() -> Vec<Self> {
        let (a, b) = (A::small(), B::small());
        combos(&[a.len(), b.len()]).into_iter().map(|c| (a[c[0]].clone(), b[c[1]].clone())).collect()
    }
    fn to_ty(env: &mut Env) -> Ty {
        Ty::tuple(vec![A::to_ty(env), B::to_ty(env)])
    }
    fn to_val(&self) -> Val {
        Val::tuple(vec![self.0.to_val(), self.1.to_val()])
    }
    fn unordered() -> bool {
        A::unordered() || B::unordered()
    }
}
impl<A: Cor, B: Cor, C: Cor> Cor for (A, B, C) {
    fn name() -> String {
        format!("({},{},{})", A::name(), B::name(), C::name())
    }
    fn small() -> Vec<Self> {
        let (a, b, c) = (A::small(), B::small(), C::small());
        combos(&[a.len(), b.len(), c.len()]).into_iter().map(|i| (a[i[0]].clone(), b[i[1]].clone(), c[i[2]].clone())).collect()
    }
    fn to_ty(env: &mut Env) -> Ty {
        Ty::tuple(vec![A::to_ty(env), B::to_ty(env), C::to_ty(env)])
    }
    fn to_val(&self) -> Val {
        Val::tuple(vec![self.0.to_val(), self.1.to_val(), self.2.to_val()])
    }
    fn unordered() -> bool {
        A::unordered() || B::unordered() || C::unordered()
    }
}

impl<T: Cor, E: Cor> Cor for Result<T, E> {
    fn name() -> String {
        format!("Result<{},{}>", T::name(), E::name())
    }
    fn small() -> Vec<Self> {
        let mut v: Vec<Self> = T::small().into_iter().map(Ok).collect();
        v.extend(E::small().into_iter().map(Err));
        cap(v)
    }
    fn to_ty(env: &mut Env) -> Ty {
        Ty::variant(vec![(idl_hash("Ok"), T::to_ty(env)), (idl_hash("Err"), E::to_ty(env))])
    }
    fn to_val(&self) -> Val {
        match self {
            Ok(x) => Val::Variant(idl_hash("Ok"), Box::new(x.to_val())),
            Err(x) => Val::Variant(idl_hash("Err"), Box::new(x.to_val())),
        }
    }
    fn unordered() -> bool {
        T::unordered() || E::unordered()
    }
}

// ---------------------------------------------------------------------------------------
// type-erased registry

#[derive(Clone, Copy, Debug, PartialEq, Eq)]
pub enum Api {
    /// Encode! / Decode!
    Macros,
    /// encode_args / decode_args
    Args,
    /// IDLBuilder::arg + IDLDeserialize::get_value + done
    Builder,
    /// encode_one / decode_one
    One,
}
pub const APIS: [Api; 4] = [Api::Macros, Api::Args, Api::Builder, Api::One];

#[derive(Debug, Clone, PartialEq)]
pub enum Native {
    Ok { val: Val, reencoded: Result<Vec<u8>, String> },
    Err(String),
    Panic(String),
}

pub struct Entry {
    pub name: String,
    pub unordered: bool,
    pub nvals: fn() -> usize,
    pub real_ty: fn() -> candid::types::Type,
    pub model_ty: fn() -> (Env, Ty),
    /// Encode!(small()[i]) together with the abstract value of that same instance
    pub encode: fn(usize) -> Result<(Vec<u8>, Val), String>,
    /// encode then decode at the same type through the given API; Err describes the failure
    pub roundtrip: fn(usize, Api) -> Result<(), String>,
    /// native decoding of an arbitrary message at this type
    pub decode: fn(&[u8]) -> Native,
    /// native decoding of an arbitrary message at `Option<T>` (failures below an option must be recoverable)
    pub decode_opt: fn(&[u8]) -> Native,
    /// `builder.arg(&small()[i])`; returns the abstract value pushed
    pub arg_into: fn(&mut candid::ser::IDLBuilder, usize) -> Result<Val, String>,
    /// `de.get_value::<T>()`, compared with small()[i]
    pub get_from: for<'a, 'b> fn(&'b mut candid::de::IDLDeserialize<'a>, usize) -> Result<(), String>,
    /// `T::ty()` (type derivation touches the thread-local memo)
    pub touch_ty: fn() -> String,
    /// the memo entry for this type, printed (None if absent)
    pub memo_probe: fn() -> String,
    /// `TypeContainer::add::<T>()`, environment and type printed
    pub export: fn() -> Result<String, String>,
    /// `IDLValue::try_from_candid_type(&small()[i])` as a model value, with the value's own abstract value
    pub try_from: fn(usize) -> Result<(Val, Val), String>,
    /// native decoding under (decoding quota, skipping quota); returns the outcome and, on
    /// success, the cost reported by `compute_cost` for the quotas that were set
    pub decode_cfg: fn(&[u8], Option<usize>, Option<usize>) -> (Native, Option<usize>, Option<usize>),
}

/// order-insensitive canonical form (sort every vector)
pub fn canon(v: &Val) -> Val {
    match v {
        Val::Vec(xs) => {
            let mut ys: Vec<Val> = xs.iter().map(canon).collect();
            ys.sort();
            Val::Vec(ys)
        }
        Val::Opt(Some(x)) => Val::some(canon(x)),
        Val::Record(fs) => Val::Record(fs.iter().map(|(i, x)| (*i, canon(x))).collect()),
        Val::Variant(i, x) => Val::Variant(*i, Box::new(canon(x))),
        o => o.clone(),
    }
}

fn same<T: Cor>(a: &T, b: &T) -> bool {
    if T::unordered() {
        canon(&a.to_val()) == canon(&b.to_val())
    } else {
        a.to_val() == b.to_val()
    }
}

pub(crate) fn e2s<E: std::fmt::Display>(e: E) -> String {
    let s = format!("{e}");
    s.lines().next().unwrap_or("").chars().take(200).collect()
}

fn roundtrip<T: Cor>(i: usize, api: Api) -> Result<(), String> {
    let vals = T::small();
    let v = &vals[i];
    let r = catch(|| -> Result<T, String> {
        match api {
            Api::Macros => {
                let b = Encode!(v).map_err(|e| format!("encode error: {}", e2s(e)))?;
                Decode!(&b, T).map_err(|e| format!("decode error: {}", e2s(e)))
            }
            Api::Args => {
                let b = candid::encode_args((v,)).map_err(|e| format!("encode error: {}", e2s(e)))?;
                let (x,): (T,) = candid::decode_args(&b).map_err(|e| format!("decode error: {}", e2s(e)))?;
                Ok(x)
            }
            Api::One => {
                let b = candid::encode_one(v).map_err(|e| format!("encode error: {}", e2s(e)))?;
                candid::decode_one(&b).map_err(|e| format!("decode error: {}", e2s(e)))
            }
            Api::Builder => {
                let mut ser = candid::ser::IDLBuilder::new();
                ser.arg(v).map_err(|e| format!("encode error: {}", e2s(e)))?;
                let b = ser.serialize_to_vec().map_err(|e| format!("encode error: {}", e2s(e)))?;
                let mut de = candid::de::IDLDeserialize::new(&b).map_err(|e| format!("decode error: {}", e2s(e)))?;
                let x: T = de.get_value().map_err(|e| format!("decode error: {}", e2s(e)))?;
                de.done().map_err(|e| format!("unread input: {}", e2s(e)))?;
                Ok(x)
            }
        }
    });
    match r {
        Err(p) => Err(format!("panic: {p}")),
        Ok(Err(e)) => Err(e),
        Ok(Ok(x)) => {
            if same(&x, v) {
                Ok(())
            } else {
                Err(format!("value differs: sent {} got {}", v.to_val(), x.to_val()))
            }
        }
    }
}

fn encode<T: Cor>(i: usize) -> Result<(Vec<u8>, Val), String> {
    let vals = T::small();
    let v = &vals[i];
    match catch(|| Encode!(v)) {
        Err(p) => Err(format!("panic: {p}")),
        Ok(Err(e)) => Err(format!("encode error: {}", e2s(e))),
        Ok(Ok(b)) => Ok((b, v.to_val())),
    }
}

fn decode<T: Cor>(b: &[u8]) -> Native {
    match catch(|| Decode!(b, T)) {
        Err(p) => Native::Panic(p),
        Ok(Err(e)) => Native::Err(e2s(e)),
        Ok(Ok(x)) => {
            let re = match catch(|| Encode!(&x)) {
                Err(p) => Err(format!("panic: {p}")),
                Ok(Err(e)) => Err(e2s(e)),
                Ok(Ok(b)) => Ok(b),
            };
            Native::Ok { val: x.to_val(), reencoded: re }
        }
    }
}

fn arg_into<T: Cor>(b: &mut candid::ser::IDLBuilder, i: usize) -> Result<Val, String> {
    let vals = T::small();
    let v = &vals[i];
    match catch(|| b.arg(v).map(|_| ())) {
        Err(p) => Err(format!("panic: {p}")),
        Ok(Err(e)) => Err(format!("encode error: {}", e2s(e))),
        Ok(Ok(())) => Ok(v.to_val()),
    }
}

fn get_from<'a, 'b, T: Cor>(de: &'b mut candid::de::IDLDeserialize<'a>, i: usize) -> Result<(), String> {
    let vals = T::small();
    let v = &vals[i];
    match catch(|| de.get_value::<T>()) {
        Err(p) => Err(format!("panic: {p}")),
        Ok(Err(e)) => Err(format!("decode error: {}", e2s(e))),
        Ok(Ok(x)) => {
            if same(&x, v) {
                Ok(())
            } else {
                Err(format!("value differs: sent {} got {}", v.to_val(), x.to_val()))
            }
        }
    }
}

fn export<T: Cor>() -> Result<String, String> {
    catch(|| {
        let mut c = candid::types::internal::TypeContainer::new();
        let t = c.add::<T>();
        format!("{}\n=> {}", c.env, t)
    })
}

fn try_from<T: Cor>(i: usize) -> Result<(Val, Val), String> {
    let vals = T::small();
    let v = &vals[i];
    match catch(|| candid::IDLValue::try_from_candid_type(v)) {
        Err(p) => Err(format!("panic: {p}")),
        Ok(Err(e)) => Err(format!("error: {}", e2s(e))),
        Ok(Ok(x)) => Ok((mclib::bridge::from_idl(&x).map_err(|e| format!("bridge: {e}"))?, v.to_val())),
    }
}

fn decode_cfg<T: Cor>(b: &[u8], dq: Option<usize>, sq: Option<usize>) -> (Native, Option<usize>, Option<usize>) {
    let mut cfg = candid::DecoderConfig::new();
    if let Some(q) = dq {
        cfg.set_decoding_quota(q);
    }
    if let Some(q) = sq {
        cfg.set_skipping_quota(q);
    }
    match catch(|| candid::utils::decode_args_with_config_debug::<(T,)>(b, &cfg)) {
        Err(p) => (Native::Panic(p), None, None),
        Ok(Err(e)) => (Native::Err(e2s_full(e)), None, None),
        Ok(Ok(((x,), cost))) => (Native::Ok { val: x.to_val(), reencoded: Err("n/a".into()) }, cost.decoding_quota, cost.skipping_quota),
    }
}

/// all lines of the error chain on one line (quota errors sit below the context lines)
fn e2s_full<E: std::fmt::Debug + std::fmt::Display>(e: E) -> String {
    let s = format!("{e:?}");
    let s: String = s.split_whitespace().collect::<Vec<_>>().join(" ");
    // the root cause is the last line of the chain
    let n = s.chars().count();
    if n > 500 {
        format!("{} ... {}", s.chars().take(120).collect::<String>(), s.chars().skip(n - 380).collect::<String>())
    } else {
        s
    }
}

fn model_ty<T: Cor>() -> (Env, Ty) {
    let mut env = Env::new();
    let t = T::to_ty(&mut env);
    (env, t)
}

pub fn entry<T: Cor>() -> Entry {
    Entry {
        name: T::name(),
        unordered: T::unordered(),
        nvals: || T::small().len(),
        real_ty: || T::ty(),
        model_ty: model_ty::<T>,
        encode: encode::<T>,
        roundtrip: roundtrip::<T>,
        decode: decode::<T>,
        decode_opt: decode::<Option<T>>,
        arg_into: arg_into::<T>,
        get_from: get_from::<T>,
        touch_ty: || format!("{:?}", catch(|| T::ty())),
        memo_probe: || format!("{:?}", candid::types::internal::find_type(&candid::types::TypeId::of::<T>())),
        export: export::<T>,
        try_from: try_from::<T>,
        decode_cfg: decode_cfg::<T>,
    }
}


#[allow(dead_code)]
fn unused(_: Mode) {}
