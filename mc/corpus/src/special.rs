//! Decode-only corpus entries for C08: borrowed targets and bounded vectors, with the
//! reference predicate saying which (untyped) values the target must accept.
use super::*;
use candid::types::bounded_vec::{BoundedVec, UNBOUNDED};

pub struct DecodeOnly {
    pub name: String,
    pub model_ty: fn() -> (Env, Ty),
    pub decode: fn(&[u8]) -> Native,
    /// given the untyped decoding result at the model type, must native decoding accept it?
    pub accepts: fn(&Val) -> bool,
}

fn nat8s(v: &Val) -> Option<Vec<u8>> {
    match v {
        Val::Vec(xs) => xs.iter().map(|x| if let Val::NatN(8, n) = x { Some(*n as u8) } else { None }).collect(),
        _ => None,
    }
}

fn data_size(v: &Val) -> usize {
    match v {
        Val::NatN(b, _) => (*b / 8) as usize,
        Val::Text(s) => s.len(),
        // DataSize estimates memory usage: a Vec counts its own header (3 words) plus its elements
        Val::Vec(xs) => std::mem::size_of::<Vec<u8>>() + xs.iter().map(data_size).sum::<usize>(),
        Val::Principal(p) => p.len(),
        _ => 0,
    }
}

fn within(v: &Val, max_len: usize, max_total: usize, max_elem: usize) -> bool {
    match v {
        Val::Vec(xs) => {
            xs.len() <= max_len && xs.iter().all(|x| data_size(x) <= max_elem) && xs.iter().map(data_size).sum::<usize>() <= max_total
        }
        _ => false,
    }
}

fn native<T>(r: Result<candid::Result<T>, String>, to_val: impl Fn(&T) -> Val) -> Native {
    match r {
        Err(p) => Native::Panic(p),
        Ok(Err(e)) => Native::Err(e2s(e)),
        Ok(Ok(x)) => Native::Ok { val: to_val(&x), reencoded: Err("n/a".into()) },
    }
}

macro_rules! bounded {
    ($v:ident, $len:expr, $tot:expr, $el:expr, $t:ty, $mty:expr) => {
        $v.push(DecodeOnly {
            name: format!("BoundedVec<{},{},{},{}>", stringify!($len), stringify!($tot), stringify!($el), stringify!($t)),
            model_ty: || (Env::new(), Ty::vec($mty)),
            decode: |b| native(catch(|| Decode!(b, BoundedVec<{ $len }, { $tot }, { $el }, $t>)), |x| x.get().to_val()),
            accepts: |v| within(v, $len, $tot, $el),
        });
    };
}

pub fn decode_only() -> Vec<DecodeOnly> {
    let mut v: Vec<DecodeOnly> = vec![];
    v.push(DecodeOnly {
        name: "&[u8]".into(),
        model_ty: || (Env::new(), Ty::vec(p(Prim::Nat8))),
        decode: |b| native(catch(|| Decode!(b, &[u8])), |x| Val::blob(x)),
        accepts: |v| nat8s(v).is_some(),
    });
    v.push(DecodeOnly {
        name: "&serde_bytes::Bytes".into(),
        model_ty: || (Env::new(), Ty::vec(p(Prim::Nat8))),
        decode: |b| native(catch(|| Decode!(b, &serde_bytes::Bytes)), |x| Val::blob(x)),
        accepts: |v| nat8s(v).is_some(),
    });
    v.push(DecodeOnly {
        name: "&str".into(),
        model_ty: || (Env::new(), p(Prim::Text)),
        decode: |b| native(catch(|| Decode!(b, &str)), |x| Val::Text(x.to_string())),
        accepts: |v| matches!(v, Val::Text(_)),
    });
    v.push(DecodeOnly {
        name: "Cow<str>".into(),
        model_ty: || (Env::new(), p(Prim::Text)),
        decode: |b| native(catch(|| Decode!(b, std::borrow::Cow<str>)), |x| Val::Text(x.to_string())),
        accepts: |v| matches!(v, Val::Text(_)),
    });
    v.push(DecodeOnly {
        name: "Vec<&str>".into(),
        model_ty: || (Env::new(), Ty::vec(p(Prim::Text))),
        decode: |b| native(catch(|| Decode!(b, Vec<&str>)), |x| Val::Vec(x.iter().map(|s| Val::Text(s.to_string())).collect())),
        accepts: |v| matches!(v, Val::Vec(_)),
    });
    v.push(DecodeOnly {
        name: "BTreeMap<&str,&[u8]>".into(),
        model_ty: || (Env::new(), Ty::vec(Ty::record(vec![(0, p(Prim::Text)), (1, Ty::vec(p(Prim::Nat8)))]))),
        decode: |b| {
            native(catch(|| Decode!(b, BTreeMap<&str, &[u8]>)), |x| {
                Val::Vec(x.iter().map(|(k, v)| Val::record(vec![(0, Val::Text(k.to_string())), (1, Val::blob(v))])).collect())
            })
        },
        accepts: |v| matches!(v, Val::Vec(_)),
    });
    bounded!(v, 2, UNBOUNDED, UNBOUNDED, u8, p(Prim::Nat8));
    bounded!(v, 0, UNBOUNDED, UNBOUNDED, u64, p(Prim::Nat64));
    bounded!(v, UNBOUNDED, 16, UNBOUNDED, u64, p(Prim::Nat64));
    bounded!(v, UNBOUNDED, 3, UNBOUNDED, String, p(Prim::Text));
    bounded!(v, UNBOUNDED, UNBOUNDED, 1, String, p(Prim::Text));
    bounded!(v, 2, 60, 25, Vec<u8>, Ty::vec(p(Prim::Nat8)));
    bounded!(v, 3, UNBOUNDED, 1, Principal, p(Prim::Principal));
    v
}
