//! Derived / user-defined corpus types and the registry (cross products of element, key
//! and value types under every container).
use super::*;
use candid::{define_function, define_service, func};

/// named-field struct with derive + independent model
macro_rules! cor_struct {
    ($name:ident { $($f:ident : $t:ty),* $(,)? }) => {
        #[derive(CandidType, Deserialize, Clone, Debug)]
        pub struct $name { $(pub $f: $t),* }
        impl Cor for $name {
            fn name() -> String { stringify!($name).to_string() }
            fn small() -> Vec<Self> {
                $(let $f = <$t as Cor>::small();)*
                let lens = [$($f.len()),*];
                combos(&lens).into_iter().map(|c| {
                    let mut k = 0usize;
                    $(let $f = { let v = $f[c[k]].clone(); k += 1; v };)*
                    let _ = k;
                    $name { $($f),* }
                }).collect()
            }
            fn to_ty(env: &mut Env) -> Ty {
                Ty::record(vec![$((idl_hash(stringify!($f).trim_start_matches("r#")), <$t as Cor>::to_ty(env))),*])
            }
            fn to_val(&self) -> Val {
                Val::record(vec![$((idl_hash(stringify!($f).trim_start_matches("r#")), self.$f.to_val())),*])
            }
            fn unordered() -> bool { false $(|| <$t as Cor>::unordered())* }
        }
    };
}

cor_struct!(S0 {});
cor_struct!(S1 { a: u8 });
cor_struct!(S2 { a: u8, b: Option<u8> });
// spelling order != id order: hash("zz") < hash("a")? ids are what they are; both orders occur below
cor_struct!(S3 { zebra: String, apple: Int, mango: Vec<u8> });
cor_struct!(S4 { b: bool, a: Nat, c: (u8, String) });
cor_struct!(S5 { inner: S2, list: Vec<S1>, opt: Option<S3> });
cor_struct!(S6 { r#type: u8, r#fn: String, r#match: Option<bool> });
cor_struct!(S7 { m: BTreeMap<String, Nat>, n: BTreeMap<u8, Int>, v: Vec<Int> });
cor_struct!(S8 { f: f32, g: f64, p: Principal, r: Reserved, u: () });
cor_struct!(S9 { x: u128, y: i128, z: Vec<Nat> });

// generic
macro_rules! cor_generic_struct {
    ($name:ident < $g:ident > { $($f:ident : $t:ty),* $(,)? }) => {
        #[derive(CandidType, Deserialize, Clone, Debug)]
        pub struct $name<$g> { $(pub $f: $t),* }
        impl<$g: Cor> Cor for $name<$g> {
            fn name() -> String { format!("{}<{}>", stringify!($name), $g::name()) }
            fn small() -> Vec<Self> {
                $(let $f = <$t as Cor>::small();)*
                let lens = [$($f.len()),*];
                combos(&lens).into_iter().map(|c| {
                    let mut k = 0usize;
                    $(let $f = { let v = $f[c[k]].clone(); k += 1; v };)*
                    let _ = k;
                    $name { $($f),* }
                }).collect()
            }
            fn to_ty(env: &mut Env) -> Ty {
                Ty::record(vec![$((idl_hash(stringify!($f)), <$t as Cor>::to_ty(env))),*])
            }
            fn to_val(&self) -> Val {
                Val::record(vec![$((idl_hash(stringify!($f)), self.$f.to_val())),*])
            }
            fn unordered() -> bool { $g::unordered() }
        }
    };
}
cor_generic_struct!(G<T> { a: T, b: Option<T> });
cor_generic_struct!(H<T> { items: Vec<T>, count: u32 });

// renamed fields, serde_bytes, rc/arc
#[derive(CandidType, Deserialize, Clone, Debug)]
pub struct Renamed {
    #[serde(rename = "a b")]
    pub ab: u8,
    #[serde(rename = "type")]
    pub ty_: String,
    #[serde(rename = "é")]
    pub e: Option<i8>,
}
impl Cor for Renamed {
    fn name() -> String {
        "Renamed".into()
    }
    fn small() -> Vec<Self> {
        let (a, b, c) = (u8::small(), String::small(), <Option<i8>>::small());
        combos(&[a.len(), b.len(), c.len()]).into_iter().map(|i| Renamed { ab: a[i[0]], ty_: b[i[1]].clone(), e: c[i[2]] }).collect()
    }
    fn to_ty(env: &mut Env) -> Ty {
        Ty::record(vec![(idl_hash("a b"), u8::to_ty(env)), (idl_hash("type"), String::to_ty(env)), (idl_hash("é"), <Option<i8>>::to_ty(env))])
    }
    fn to_val(&self) -> Val {
        Val::record(vec![(idl_hash("a b"), self.ab.to_val()), (idl_hash("type"), self.ty_.to_val()), (idl_hash("é"), self.e.to_val())])
    }
}

#[derive(CandidType, Deserialize, Clone, Debug)]
pub struct Bytes {
    #[serde(with = "serde_bytes")]
    pub b: Vec<u8>,
    pub plain: Vec<u8>,
    #[serde(with = "candid::rc")]
    pub shared: Rc<String>,
    #[serde(with = "candid::arc")]
    pub ashared: Arc<Vec<u16>>,
}
impl Cor for Bytes {
    fn name() -> String {
        "Bytes".into()
    }
    fn small() -> Vec<Self> {
        let (a, b, c) = (<Vec<u8>>::small(), String::small(), <Vec<u16>>::small());
        combos(&[a.len(), a.len(), b.len(), c.len()])
            .into_iter()
            .map(|i| Bytes { b: a[i[0]].clone(), plain: a[i[1]].clone(), shared: Rc::new(b[i[2]].clone()), ashared: Arc::new(c[i[3]].clone()) })
            .collect()
    }
    fn to_ty(env: &mut Env) -> Ty {
        Ty::record(vec![
            (idl_hash("b"), <Vec<u8>>::to_ty(env)),
            (idl_hash("plain"), <Vec<u8>>::to_ty(env)),
            (idl_hash("shared"), String::to_ty(env)),
            (idl_hash("ashared"), <Vec<u16>>::to_ty(env)),
        ])
    }
    fn to_val(&self) -> Val {
        Val::record(vec![
            (idl_hash("b"), self.b.to_val()),
            (idl_hash("plain"), self.plain.to_val()),
            (idl_hash("shared"), (*self.shared).to_val()),
            (idl_hash("ashared"), (*self.ashared).to_val()),
        ])
    }
}

// tuple / newtype / unit structs
#[derive(CandidType, Deserialize, Clone, Debug)]
pub struct Newtype(pub Int);
impl Cor for Newtype {
    fn name() -> String {
        "Newtype".into()
    }
    fn small() -> Vec<Self> {
        Int::small().into_iter().map(Newtype).collect()
    }
    fn to_ty(env: &mut Env) -> Ty {
        Int::to_ty(env)
    }
    fn to_val(&self) -> Val {
        self.0.to_val()
    }
}
#[derive(CandidType, Deserialize, Clone, Debug)]
pub struct TupleS(pub u8, pub String, pub Option<Nat>);
impl Cor for TupleS {
    fn name() -> String {
        "TupleS".into()
    }
    fn small() -> Vec<Self> {
        <(u8, String, Option<Nat>)>::small().into_iter().map(|(a, b, c)| TupleS(a, b, c)).collect()
    }
    fn to_ty(env: &mut Env) -> Ty {
        <(u8, String, Option<Nat>)>::to_ty(env)
    }
    fn to_val(&self) -> Val {
        Val::tuple(vec![self.0.to_val(), self.1.to_val(), self.2.to_val()])
    }
}
#[derive(CandidType, Deserialize, Clone, Debug)]
pub struct UnitS;
impl Cor for UnitS {
    fn name() -> String {
        "UnitS".into()
    }
    fn small() -> Vec<Self> {
        vec![UnitS]
    }
    fn to_ty(_: &mut Env) -> Ty {
        Ty::Prim(Prim::Null)
    }
    fn to_val(&self) -> Val {
        Val::Null
    }
}

// enums
#[derive(CandidType, Deserialize, Clone, Debug)]
pub enum E1 {
    A,
    B(u8),
    C { x: Int, y: String },
    D(u8, i8),
    #[serde(rename = "e e")]
    E(Option<Box<E1>>),
}
impl Cor for E1 {
    fn name() -> String {
        "E1".into()
    }
    fn small() -> Vec<Self> {
        let mut v = vec![E1::A];
        v.extend(u8::small().into_iter().map(E1::B));
        for c in combos(&[Int::small().len(), String::small().len()]).into_iter().take(5) {
            v.push(E1::C { x: Int::small()[c[0]].clone(), y: String::small()[c[1]].clone() });
        }
        v.push(E1::D(1, -1));
        v.push(E1::E(None));
        v.push(E1::E(Some(Box::new(E1::A))));
        v.push(E1::E(Some(Box::new(E1::E(Some(Box::new(E1::B(7))))))));
        v
    }
    fn to_ty(env: &mut Env) -> Ty {
        let n = "E1".to_string();
        if !env.0.contains_key(&n) {
            env.0.insert(n.clone(), Ty::Prim(Prim::Empty));
            let t = Ty::variant(vec![
                (idl_hash("A"), Ty::Prim(Prim::Null)),
                (idl_hash("B"), u8::to_ty(env)),
                (idl_hash("C"), Ty::record(vec![(idl_hash("x"), Int::to_ty(env)), (idl_hash("y"), String::to_ty(env))])),
                (idl_hash("D"), Ty::tuple(vec![u8::to_ty(env), i8::to_ty(env)])),
                (idl_hash("e e"), Ty::opt(Ty::Var(n.clone()))),
            ]);
            env.0.insert(n.clone(), t);
        }
        Ty::Var(n)
    }
    fn to_val(&self) -> Val {
        match self {
            E1::A => Val::Variant(idl_hash("A"), Box::new(Val::Null)),
            E1::B(x) => Val::Variant(idl_hash("B"), Box::new(x.to_val())),
            E1::C { x, y } => Val::Variant(idl_hash("C"), Box::new(Val::record(vec![(idl_hash("x"), x.to_val()), (idl_hash("y"), y.to_val())]))),
            E1::D(a, b) => Val::Variant(idl_hash("D"), Box::new(Val::tuple(vec![a.to_val(), b.to_val()]))),
            E1::E(o) => Val::Variant(idl_hash("e e"), Box::new(Val::Opt(o.as_ref().map(|b| Box::new(b.to_val()))))),
        }
    }
}

#[derive(CandidType, Deserialize, Clone, Debug, PartialEq, Eq, PartialOrd, Ord, Hash)]
pub enum Color {
    Red,
    Green,
    #[serde(rename = "blue")]
    Blue,
}
impl Cor for Color {
    fn name() -> String {
        "Color".into()
    }
    fn small() -> Vec<Self> {
        vec![Color::Red, Color::Green, Color::Blue]
    }
    fn to_ty(_: &mut Env) -> Ty {
        Ty::variant(vec![(idl_hash("Red"), Ty::Prim(Prim::Null)), (idl_hash("Green"), Ty::Prim(Prim::Null)), (idl_hash("blue"), Ty::Prim(Prim::Null))])
    }
    fn to_val(&self) -> Val {
        let l = match self {
            Color::Red => "Red",
            Color::Green => "Green",
            Color::Blue => "blue",
        };
        Val::Variant(idl_hash(l), Box::new(Val::Null))
    }
}

// an upgrade pair of enums: the new side has one more case *inside* the payload of a tuple variant, of a struct
// variant and of a newtype variant (a value using it must read as None below an option of the old side)
macro_rules! unit_enum {
    ($name:ident { $($v:ident),* }) => {
        #[derive(CandidType, Deserialize, Clone, Debug, PartialEq, Eq, PartialOrd, Ord, Hash)]
        pub enum $name { $($v),* }
        impl Cor for $name {
            fn name() -> String { stringify!($name).into() }
            fn small() -> Vec<Self> { vec![$($name::$v),*] }
            fn to_ty(_: &mut Env) -> Ty { Ty::variant(vec![$((idl_hash(stringify!($v)), Ty::Prim(Prim::Null))),*]) }
            fn to_val(&self) -> Val {
                match self { $($name::$v => Val::Variant(idl_hash(stringify!($v)), Box::new(Val::Null))),* }
            }
        }
    };
}
unit_enum!(KindOld { X, Y });
unit_enum!(KindNew { X, Y, Z });
macro_rules! evt_enum {
    ($name:ident, $kind:ident) => {
        #[derive(CandidType, Deserialize, Clone, Debug)]
        pub enum $name {
            Move(u8, $kind),
            Turn { by: i8, kind: $kind },
            Mark($kind),
            Stop,
        }
        impl Cor for $name {
            fn name() -> String { stringify!($name).into() }
            fn small() -> Vec<Self> {
                let mut v = vec![$name::Stop];
                for k in $kind::small() {
                    v.push($name::Move(7, k.clone()));
                    v.push($name::Turn { by: -1, kind: k.clone() });
                    v.push($name::Mark(k));
                }
                v
            }
            fn to_ty(env: &mut Env) -> Ty {
                let k = $kind::to_ty(env);
                Ty::variant(vec![
                    (idl_hash("Move"), Ty::tuple(vec![u8::to_ty(env), k.clone()])),
                    (idl_hash("Turn"), Ty::record(vec![(idl_hash("by"), i8::to_ty(env)), (idl_hash("kind"), k.clone())])),
                    (idl_hash("Mark"), k),
                    (idl_hash("Stop"), Ty::Prim(Prim::Null)),
                ])
            }
            fn to_val(&self) -> Val {
                match self {
                    $name::Move(a, k) => Val::Variant(idl_hash("Move"), Box::new(Val::tuple(vec![a.to_val(), k.to_val()]))),
                    $name::Turn { by, kind } => Val::Variant(idl_hash("Turn"), Box::new(Val::record(vec![(idl_hash("by"), by.to_val()), (idl_hash("kind"), kind.to_val())]))),
                    $name::Mark(k) => Val::Variant(idl_hash("Mark"), Box::new(k.to_val())),
                    $name::Stop => Val::Variant(idl_hash("Stop"), Box::new(Val::Null)),
                }
            }
        }
    };
}
// Rust identifiers outside ASCII: type names (the exported environment must still print as Candid source) and
// field / variant names (hashed as UTF-8)
#[allow(non_snake_case, uncommon_codepoints)]
mod non_ascii {
    use super::*;
    cor_struct!(Größe { länge: u8, naïve: Option<String> });
    unit_enum!(Température { Froid, Très_chaud });
    cor_struct!(数据 { 名: Nat, 温度: Température });
}
pub use non_ascii::*;
evt_enum!(EvtOld, KindOld);
evt_enum!(EvtNew, KindNew);
cor_struct!(HoldOld { e: Option<EvtOld>, n: u8, m: Option<BTreeMap<String, KindOld>> });
cor_struct!(HoldNew { e: Option<EvtNew>, n: u8, m: Option<BTreeMap<String, KindNew>> });

// recursive types
#[derive(CandidType, Deserialize, Clone, Debug)]
pub struct List<T> {
    pub head: T,
    pub tail: Option<Box<List<T>>>,
}
impl<T: Cor> Cor for List<T> {
    fn name() -> String {
        format!("List<{}>", T::name())
    }
    fn small() -> Vec<Self> {
        let xs = T::small();
        let n = xs.len();
        let one = |i: usize| List { head: xs[i % n].clone(), tail: None };
        let mut v = vec![one(0), one(n - 1)];
        v.push(List { head: xs[0].clone(), tail: Some(Box::new(one(n - 1))) });
        v.push(List { head: xs[n - 1].clone(), tail: Some(Box::new(List { head: xs[0].clone(), tail: Some(Box::new(one(1))) })) });
        v
    }
    fn to_ty(env: &mut Env) -> Ty {
        let n = Self::name();
        if !env.0.contains_key(&n) {
            env.0.insert(n.clone(), Ty::Prim(Prim::Empty));
            let t = Ty::record(vec![(idl_hash("head"), T::to_ty(env)), (idl_hash("tail"), Ty::opt(Ty::Var(n.clone())))]);
            env.0.insert(n.clone(), t);
        }
        Ty::Var(n)
    }
    fn to_val(&self) -> Val {
        Val::record(vec![
            (idl_hash("head"), self.head.to_val()),
            (idl_hash("tail"), Val::Opt(self.tail.as_ref().map(|b| Box::new(b.to_val())))),
        ])
    }
    fn unordered() -> bool {
        T::unordered()
    }
}

#[derive(CandidType, Deserialize, Clone, Debug)]
pub enum Tree {
    Leaf(i32),
    Node(Box<Tree>, Box<Tree>),
}
impl Cor for Tree {
    fn name() -> String {
        "Tree".into()
    }
    fn small() -> Vec<Self> {
        let l = |i| Tree::Leaf(i);
        vec![
            l(0),
            l(i32::MIN),
            Tree::Node(Box::new(l(1)), Box::new(l(-1))),
            Tree::Node(Box::new(Tree::Node(Box::new(l(1)), Box::new(l(2)))), Box::new(l(3))),
        ]
    }
    fn to_ty(env: &mut Env) -> Ty {
        let n = "Tree".to_string();
        if !env.0.contains_key(&n) {
            env.0.insert(n.clone(), Ty::Prim(Prim::Empty));
            let t = Ty::variant(vec![
                (idl_hash("Leaf"), i32::to_ty(env)),
                (idl_hash("Node"), Ty::tuple(vec![Ty::Var(n.clone()), Ty::Var(n.clone())])),
            ]);
            env.0.insert(n.clone(), t);
        }
        Ty::Var(n)
    }
    fn to_val(&self) -> Val {
        match self {
            Tree::Leaf(i) => Val::Variant(idl_hash("Leaf"), Box::new(i.to_val())),
            Tree::Node(a, b) => Val::Variant(idl_hash("Node"), Box::new(Val::tuple(vec![a.to_val(), b.to_val()]))),
        }
    }
}

// mutual recursion
#[derive(CandidType, Deserialize, Clone, Debug)]
pub struct MA {
    pub b: Option<Box<MB>>,
    pub x: u8,
}
#[derive(CandidType, Deserialize, Clone, Debug)]
pub struct MB {
    pub a: Vec<MA>,
}
impl Cor for MA {
    fn name() -> String {
        "MA".into()
    }
    fn small() -> Vec<Self> {
        let leaf = MA { b: None, x: 1 };
        let b0 = MB { a: vec![] };
        let b1 = MB { a: vec![leaf.clone(), MA { b: Some(Box::new(b0.clone())), x: 2 }] };
        vec![leaf, MA { b: Some(Box::new(b0)), x: 0 }, MA { b: Some(Box::new(b1)), x: 255 }]
    }
    fn to_ty(env: &mut Env) -> Ty {
        let n = "MA".to_string();
        if !env.0.contains_key(&n) {
            env.0.insert(n.clone(), Ty::Prim(Prim::Empty));
            let t = Ty::record(vec![(idl_hash("b"), Ty::opt(MB::to_ty(env))), (idl_hash("x"), u8::to_ty(env))]);
            env.0.insert(n.clone(), t);
        }
        Ty::Var(n)
    }
    fn to_val(&self) -> Val {
        Val::record(vec![(idl_hash("b"), Val::Opt(self.b.as_ref().map(|b| Box::new(b.to_val())))), (idl_hash("x"), self.x.to_val())])
    }
}
impl Cor for MB {
    fn name() -> String {
        "MB".into()
    }
    fn small() -> Vec<Self> {
        let mut v = vec![MB { a: vec![] }];
        v.push(MB { a: MA::small() });
        v
    }
    fn to_ty(env: &mut Env) -> Ty {
        let n = "MB".to_string();
        if !env.0.contains_key(&n) {
            env.0.insert(n.clone(), Ty::Prim(Prim::Empty));
            let t = Ty::record(vec![(idl_hash("a"), Ty::vec(MA::to_ty(env)))]);
            env.0.insert(n.clone(), t);
        }
        Ty::Var(n)
    }
    fn to_val(&self) -> Val {
        Val::record(vec![(idl_hash("a"), Val::Vec(self.a.iter().map(|x| x.to_val()).collect()))])
    }
}

// wrapper around a recursive type (memo-sensitive: the knot is met below the root)
cor_struct!(WrapList { l: List<u8>, m: Option<List<u8>> });

// references
define_function!(pub FQuery : (u8, &str) -> (Nat) query);
define_function!(pub FOne : (Int) -> () oneway);
define_service!(pub Svc : { "f": func!((u8) -> (Nat) query); "g": func!(() -> ()) });
impl Cor for FQuery {
    fn name() -> String {
        "FQuery".into()
    }
    fn small() -> Vec<Self> {
        Func::small().into_iter().map(FQuery).collect()
    }
    fn to_ty(_: &mut Env) -> Ty {
        Ty::func(vec![Ty::Prim(Prim::Nat8), Ty::Prim(Prim::Text)], vec![Ty::Prim(Prim::Nat)], vec![Mode::Query])
    }
    fn to_val(&self) -> Val {
        self.0.to_val()
    }
}
impl Cor for FOne {
    fn name() -> String {
        "FOne".into()
    }
    fn small() -> Vec<Self> {
        Func::small().into_iter().map(FOne).collect()
    }
    fn to_ty(_: &mut Env) -> Ty {
        Ty::func(vec![Ty::Prim(Prim::Int)], vec![], vec![Mode::Oneway])
    }
    fn to_val(&self) -> Val {
        self.0.to_val()
    }
}
impl Cor for Svc {
    fn name() -> String {
        "Svc".into()
    }
    fn small() -> Vec<Self> {
        Service::small().into_iter().map(Svc).collect()
    }
    fn to_ty(_: &mut Env) -> Ty {
        Ty::service(vec![
            ("f".into(), Ty::func(vec![Ty::Prim(Prim::Nat8)], vec![Ty::Prim(Prim::Nat)], vec![Mode::Query])),
            ("g".into(), Ty::func(vec![], vec![], vec![])),
        ])
    }
    fn to_val(&self) -> Val {
        self.0.to_val()
    }
}
cor_struct!(WithRefs { f: FQuery, s: Svc, o: Option<FOne>, p: Principal });

// a service whose method names order differently by name (byte order: "aa" < "b" < "hello_world" < "zz9")
// than by label hash ("b" < "zz9" < "aa" < "hello_world")
define_service!(pub Svc2 : { "b": func!((u8) -> (Nat) query); "aa": func!(() -> ()); "zz9": func!((Int) -> () oneway); "hello_world": func!((String) -> (String)) });
impl Cor for Svc2 {
    fn name() -> String {
        "Svc2".into()
    }
    fn small() -> Vec<Self> {
        Service::small().into_iter().map(Svc2).collect()
    }
    fn to_ty(_: &mut Env) -> Ty {
        Ty::service(vec![
            ("aa".into(), Ty::func(vec![], vec![], vec![])),
            ("b".into(), Ty::func(vec![Ty::Prim(Prim::Nat8)], vec![Ty::Prim(Prim::Nat)], vec![Mode::Query])),
            ("hello_world".into(), Ty::func(vec![Ty::Prim(Prim::Text)], vec![Ty::Prim(Prim::Text)], vec![])),
            ("zz9".into(), Ty::func(vec![Ty::Prim(Prim::Int)], vec![], vec![Mode::Oneway])),
        ])
    }
    fn to_val(&self) -> Val {
        self.0.to_val()
    }
}

// big-number vectors followed (in field-id order, either way round) by a big-number scalar
cor_struct!(S10 { a_list: Vec<Nat>, b_int: Int, c_opt: Option<Int> });
cor_struct!(S11 { b_list: Vec<Nat>, a_int: Int, set: BTreeSet<Nat>, z_int: Int });
cor_struct!(S12 { ints: Vec<Int>, n: Nat, m: BTreeMap<Nat, Int>, after_map: Int });

// type tables with more than 64 entries (table indices 64.. need two SLEB128 bytes)
macro_rules! nest {
    ($c:ident, $t:ty;) => { $t };
    ($c:ident, $t:ty; $x:tt $($rest:tt)*) => { $c<nest!($c, $t; $($rest)*)> };
}
pub type DeepOpt70 = nest!(Option, u8; x x x x x x x x x x x x x x x x x x x x x x x x x x x x x x x x x x x x x x x x x x x x x x x x x x x x x x x x x x x x x x x x x x x x x x);
pub type DeepVec66 = nest!(Vec, Option<Nat>; x x x x x x x x x x x x x x x x x x x x x x x x x x x x x x x x x x x x x x x x x x x x x x x x x x x x x x x x x x x x x x x x x x);

#[macro_export]
macro_rules! reg {
    ($v:ident; $($t:ty),* $(,)?) => { $( $v.push($crate::entry::<$t>()); )* };
}

/// one element type on its own and under every sequence container / composition
#[macro_export]
macro_rules! elem_reg {
    ($v:ident; $($t:ty),* $(,)?) => { $(
        $crate::reg!($v; $t, Option<$t>, Vec<$t>, std::collections::VecDeque<$t>, std::collections::LinkedList<$t>, [$t; 2], Box<$t>,
             Vec<Vec<$t>>, Vec<Option<$t>>, Option<Vec<$t>>, Option<Option<$t>>, ($t, u8), (String, $t), Result<$t, String>,
             $crate::types::G<$t>, $crate::types::H<$t>, $crate::types::List<$t>,
             std::collections::BTreeMap<String, Vec<$t>>, Vec<std::collections::BTreeMap<u8, $t>>, Vec<Box<$t>>);
    )* };
}

/// ordered / hashed sets of a key type
#[macro_export]
macro_rules! keyc_reg {
    ($v:ident; $($t:ty),* $(,)?) => { $(
        $crate::reg!($v; std::collections::BTreeSet<$t>, std::collections::HashSet<$t>, std::collections::BinaryHeap<$t>,
             Vec<std::collections::BTreeSet<$t>>, Option<std::collections::HashSet<$t>>);
    )* };
}

/// one key type against every value type (BTreeMap) and a value subset (HashMap, nested maps)
#[macro_export]
macro_rules! kv_reg {
    ($v:ident; $($k:ty),* $(,)?) => { $(
        $crate::reg!($v;
             std::collections::BTreeMap<$k, bool>, std::collections::BTreeMap<$k, u8>, std::collections::BTreeMap<$k, u16>,
             std::collections::BTreeMap<$k, u32>, std::collections::BTreeMap<$k, u64>, std::collections::BTreeMap<$k, i8>,
             std::collections::BTreeMap<$k, i16>, std::collections::BTreeMap<$k, i32>, std::collections::BTreeMap<$k, i64>,
             std::collections::BTreeMap<$k, f32>, std::collections::BTreeMap<$k, f64>, std::collections::BTreeMap<$k, usize>,
             std::collections::BTreeMap<$k, String>, std::collections::BTreeMap<$k, candid::Nat>, std::collections::BTreeMap<$k, candid::Int>,
             std::collections::BTreeMap<$k, u128>, std::collections::BTreeMap<$k, i128>, std::collections::BTreeMap<$k, candid::Principal>,
             std::collections::BTreeMap<$k, ()>, std::collections::BTreeMap<$k, candid::Reserved>, std::collections::BTreeMap<$k, serde_bytes::ByteBuf>,
             std::collections::HashMap<$k, u8>, std::collections::HashMap<$k, candid::Nat>, std::collections::HashMap<$k, candid::Int>,
             std::collections::HashMap<$k, String>, std::collections::HashMap<$k, Vec<u8>>, std::collections::HashMap<$k, Option<i64>>,
             std::collections::BTreeMap<$k, std::collections::BTreeMap<u8, candid::Int>>,
             std::collections::BTreeMap<$k, std::collections::BTreeMap<String, candid::Nat>>,
             std::collections::BTreeMap<$k, Vec<candid::Int>>, std::collections::BTreeMap<$k, (candid::Nat, candid::Int)>,
             std::collections::BTreeMap<$k, Option<candid::Nat>>, std::collections::BTreeMap<$k, $crate::types::S2>,
             std::collections::BTreeMap<$k, $crate::types::E1>, Vec<std::collections::BTreeMap<$k, candid::Int>>,
             Option<std::collections::BTreeMap<$k, candid::Nat>>,
             std::collections::BTreeMap<String, std::collections::BTreeMap<$k, candid::Int>>,
             (std::collections::BTreeMap<$k, candid::Nat>, std::collections::BTreeMap<$k, String>));
    )* };
}

/// Two different derived types with one and the same `std::any::type_name` (items of anonymous blocks carry only
/// the path of the enclosing function): the type memo must keep them apart, alone, side by side in one message
/// and nested in one another.
pub fn register_same_name(v: &mut Vec<Entry>) {
    {
        cor_struct!(Twin { weight: f64, id: u32 });
        type Twin1 = Twin;
        let mut e = entry::<Twin1>();
        e.name = "Twin#1".into();
        v.push(e);
        {
            cor_struct!(Twin { label: String, id: Option<Nat> });
            let mut e = entry::<Twin>();
            e.name = "Twin#2".into();
            v.push(e);
            let mut e = entry::<(Twin1, Twin)>();
            e.name = "(Twin#1,Twin#2)".into();
            v.push(e);
            let mut e = entry::<(Twin, Vec<Twin1>)>();
            e.name = "(Twin#2,Vec<Twin#1>)".into();
            v.push(e);
            let mut e = entry::<G<Twin>>();
            e.name = "G<Twin#2>".into();
            v.push(e);
            let mut e = entry::<G<Twin1>>();
            e.name = "G<Twin#1>".into();
            v.push(e);
        }
    }
}

/// derived, generic, recursive and reference types
pub fn register_misc(v: &mut Vec<Entry>) {
    register_same_name(v);
    reg!(v; KindOld, KindNew, EvtOld, EvtNew, Option<EvtOld>, Option<EvtNew>, Vec<Option<EvtOld>>, Vec<Option<EvtNew>>, HoldOld, HoldNew,
         Option<BTreeMap<String, KindOld>>, Option<BTreeMap<String, KindNew>>, (Option<EvtOld>, u8), (Option<EvtNew>, u8));
    reg!(v; Größe, Température, 数据, Vec<Größe>, G<Größe>, H<Température>, BTreeMap<Température, Größe>, Option<数据>, List<Größe>);
    reg!(v; S0, S1, S2, S3, S4, S5, S6, S7, S8, S9, Renamed, Bytes, Newtype, TupleS, UnitS, E1, Color, Tree, MA, MB, WrapList,
         Vec<S2>, Option<S3>, Vec<E1>, Option<E1>, BTreeMap<u8, E1>, (S1, E1), Vec<Color>, BTreeSet<Color>, BTreeMap<Color, u8>,
         List<S2>, List<Option<Int>>, G<S2>, G<Vec<u8>>, H<E1>, Vec<Tree>, Option<Tree>, Vec<MA>, (MA, MB), Option<MB>,
         FQuery, FOne, Svc, WithRefs, Vec<FQuery>, Option<Svc>, BTreeMap<Principal, Svc>, Svc2, Vec<Svc2>, (Svc, Svc2),
         S10, S11, S12, (Vec<Nat>, Int), (BTreeSet<Nat>, Option<Int>), (Vec<Int>, Nat), (Vec<Nat>, BTreeMap<u8, Int>, Int), Vec<(Vec<Nat>, Int)>,
         DeepOpt70, DeepVec66, (DeepOpt70, S5), (S5, DeepOpt70), (DeepVec66, BTreeMap<u8, S2>),
         (u8, u16, u32), (Nat, Int, String), ((u8, u8), (Nat, Nat)), Vec<(String, Nat)>, Vec<(u8, Int)>, Vec<(Principal, Int)>,
         Result<S2, E1>, Result<(), ()>, Vec<Result<Nat, Int>>, Box<List<u8>>, Vec<Vec<Vec<u8>>>, Vec<Vec<Nat>>, Vec<Vec<Int>>,
         Option<Vec<Vec<Int>>>, [Box<u64>; 2], [Box<f64>; 2], Vec<Box<S2>>, Option<Vec<Box<i64>>>, H<Box<u64>>, H<Box<f64>>, BTreeMap<(u8, u8), Nat>, BTreeMap<Option<u8>, Int>, BTreeMap<Vec<u8>, Int>);
}
