//! `mc <PROPERTY> --tier quick|thorough` : one bounded-exhaustive check per property.
//! `mc <PROPERTY> --replay <file>`      : re-execute one recorded case.
use mclib::engine::{install_quiet_panic_hook, Tier};

mod checks;

// peak/total allocation per decoding call is measured by C06's worker processes
#[global_allocator]
static ALLOC: checks::c06::Counting = checks::c06::Counting;

fn main() {
    let args: Vec<String> = std::env::args().collect();
    if args.len() < 2 {
        eprintln!("usage: mc <C01..C20|selftest> [--tier quick|thorough] [--replay file]");
        std::process::exit(2);
    }
    let id = args[1].clone();
    let mut tier = match std::env::var("VERIF_TIER").as_deref() {
        Ok("thorough") => Tier::Thorough,
        _ => Tier::Quick,
    };
    let mut replay: Option<String> = None;
    let mut rest: Vec<String> = vec![];
    let mut i = 2;
    while i < args.len() {
        match args[i].as_str() {
            "--tier" => {
                i += 1;
                tier = match args.get(i).map(|s| s.as_str()) {
                    Some("thorough") => Tier::Thorough,
                    Some("quick") => Tier::Quick,
                    _ => {
                        eprintln!("bad --tier");
                        std::process::exit(2)
                    }
                };
            }
            "--replay" => {
                i += 1;
                replay = args.get(i).cloned();
            }
            other => rest.push(other.to_string()),
        }
        i += 1;
    }
    // anyhow captures a backtrace per error when RUST_BACKTRACE is set
    std::env::set_var("RUST_BACKTRACE", "0");
    install_quiet_panic_hook();
    let code = checks::dispatch(&id, tier, replay.as_deref(), &rest);
    std::process::exit(code);
}
