fn main() { println!("{}", candid::idl_hash("a")); }
