//! Helpers shared by the checks: text <-> model conversion for replay files, the
//! decode comparison used by C02/C04/C06, hex.
use candid::types::{Type, TypeEnv};
use candid::IDLArgs;
use mclib::bridge;
use mclib::engine::catch;
use refmodel::coerce;
use refmodel::ty::{Env, Ty};
use refmodel::val::Val;
use refmodel::wire::{self, Limits, WireErr};
use serde_json::{json, Value};

pub fn hex(b: &[u8]) -> String {
    hex::encode(b)
}
pub fn unhex(s: &str) -> Vec<u8> {
    hex::decode(s).expect("hex")
}

pub fn tys_text(ts: &[Ty]) -> String {
    format!("({})", ts.iter().map(|t| t.to_string()).collect::<Vec<_>>().join(", "))
}
pub fn vals_text(vs: &[Val]) -> String {
    format!("({})", vs.iter().map(|t| t.to_string()).collect::<Vec<_>>().join(", "))
}

/// Parse `type a = ...; type b = ...;` plus a `(t1, t2)` list with the *real* parser and
/// convert to model terms (used only to read replay files back).
pub fn parse_env_and_types(env_src: &str, tys_src: &str) -> Result<(Env, Vec<Ty>), String> {
    use candid_parser::syntax::{IDLProg, IDLTypes};
    let prog: IDLProg = env_src.parse().map_err(|e| format!("{e}"))?;
    let mut te = TypeEnv::new();
    candid_parser::check_prog(&mut te, &prog).map_err(|e| format!("{e}"))?;
    let tys: IDLTypes = tys_src.parse().map_err(|e| format!("{e}"))?;
    let mut out = vec![];
    let mut knots = Env::new();
    for t in &tys.args {
        let rt = candid_parser::typing::ast_to_type(&te, &t.typ).map_err(|e| format!("{e}"))?;
        out.push(bridge::from_real_ty(&rt, &mut knots)?);
    }
    Ok((bridge::from_real_env(&te)?, out))
}

#[derive(Debug, Clone, PartialEq)]
pub enum ModelOutcome {
    /// decoded and coerced
    Ok(Vec<Val>),
    /// malformed message
    Malformed(String),
    /// well-formed, but the values do not coerce to the expected types
    NoCoercion,
    /// outside the documented limits or the model's budget: no verdict
    OutOfScope(String),
}

/// The specification's verdict for decoding `bytes` at `(eenv, etys)`.
pub fn model_decode_at(bytes: &[u8], eenv: &Env, etys: &[Ty], lim: &Limits) -> (ModelOutcome, Option<wire::Decoded>) {
    match wire::decode(bytes, lim) {
        Err(WireErr::Budget) => (ModelOutcome::OutOfScope("budget".into()), None),
        Err(WireErr::Limit(s)) => (ModelOutcome::OutOfScope(s), None),
        Err(e) => (ModelOutcome::Malformed(format!("{e:?}")), None),
        Ok(d) => {
            let env = d.env.merge_disjoint(eenv);
            let _ = coerce::diverged();
            let r = match coerce::coerce_args(&env, &d.vals, &d.tys, etys) {
                _ if coerce::diverged() => ModelOutcome::OutOfScope("expected type with an endless option nesting: the coercion rules give no verdict".into()),
                Some(vs) => ModelOutcome::Ok(vs),
                None => ModelOutcome::NoCoercion,
            };
            (r, Some(d))
        }
    }
}

#[derive(Debug, Clone, PartialEq)]
pub enum ImplOutcome {
    Ok(Vec<Val>),
    Err(String),
    Panic(String),
    /// the result could not be converted to a model value
    Bridge(String),
}

pub fn impl_decode_at(bytes: &[u8], renv: &TypeEnv, rtys: &[Type]) -> ImplOutcome {
    match catch(|| IDLArgs::from_bytes_with_types(bytes, renv, rtys)) {
        Err(p) => ImplOutcome::Panic(p),
        Ok(Err(e)) => ImplOutcome::Err(first_line(&format!("{e}"))),
        Ok(Ok(args)) => match bridge::from_idl_args(&args) {
            Ok(vs) => ImplOutcome::Ok(vs),
            Err(e) => ImplOutcome::Bridge(e),
        },
    }
}

pub fn impl_decode_untyped(bytes: &[u8]) -> ImplOutcome {
    match catch(|| IDLArgs::from_bytes(bytes)) {
        Err(p) => ImplOutcome::Panic(p),
        Ok(Err(e)) => ImplOutcome::Err(first_line(&format!("{e}"))),
        Ok(Ok(args)) => match bridge::from_idl_args(&args) {
            Ok(vs) => ImplOutcome::Ok(vs),
            Err(e) => ImplOutcome::Bridge(e),
        },
    }
}

pub fn first_line(s: &str) -> String {
    let l = s.lines().next().unwrap_or("");
    if l.len() > 160 {
        format!("{}...", &l[..l.char_indices().take_while(|(i, _)| *i < 160).last().map(|(i, c)| i + c.len_utf8()).unwrap_or(0)])
    } else {
        l.to_string()
    }
}

/// Do model and implementation agree? Returns a description of the disagreement.
pub fn compare(m: &ModelOutcome, i: &ImplOutcome) -> Option<String> {
    match (m, i) {
        (ModelOutcome::OutOfScope(_), ImplOutcome::Panic(p)) => Some(format!("panic: {p}")),
        (ModelOutcome::OutOfScope(_), _) => None,
        (_, ImplOutcome::Panic(p)) => Some(format!("panic: {p}")),
        (_, ImplOutcome::Bridge(e)) => Some(format!("result not a well-formed value: {e}")),
        (ModelOutcome::Ok(a), ImplOutcome::Ok(b)) => {
            if a == b {
                None
            } else {
                Some(format!("value differs: spec {} impl {}", vals_text(a), vals_text(b)))
            }
        }
        (ModelOutcome::Ok(a), ImplOutcome::Err(e)) => Some(format!("impl rejects ({e}); spec gives {}", vals_text(a))),
        (ModelOutcome::Malformed(w), ImplOutcome::Ok(b)) => {
            Some(format!("impl accepts malformed message ({w}) as {}", vals_text(b)))
        }
        (ModelOutcome::NoCoercion, ImplOutcome::Ok(b)) => {
            Some(format!("impl accepts although no coercion exists, as {}", vals_text(b)))
        }
        (ModelOutcome::Malformed(_), ImplOutcome::Err(_)) | (ModelOutcome::NoCoercion, ImplOutcome::Err(_)) => None,
    }
}

pub fn outcome_class(m: &ModelOutcome) -> &'static str {
    match m {
        ModelOutcome::Ok(_) => "ok",
        ModelOutcome::Malformed(_) => "malformed",
        ModelOutcome::NoCoercion => "no-coercion",
        ModelOutcome::OutOfScope(_) => "out-of-scope",
    }
}

pub fn decode_case_json(bytes: &[u8], eenv: &Env, etys: &[Ty]) -> Value {
    json!({"bytes": hex(bytes), "expected_env": eenv.to_string(), "expected_types": tys_text(etys)})
}
