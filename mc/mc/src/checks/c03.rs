//! C03 — every encoded message is well-formed per the binary format of the spec.
//! E1 over all corpus values (native encoder) and all (environment, type, value)
//! triples (untyped encoder); oracle: the strict reference decoder R2 plus exact
//! re-serialisation of what it decoded (minimal LEB128, nothing extra).
use super::c10::{self, Triple};
use super::common::*;
use super::corpus_all;
use candid::IDLArgs;
use mclib::bridge;
use mclib::engine::{catch, finish, Ctx, Report, Tier};
use refmodel::sub;
use refmodel::ty::{Env, Ty};
use refmodel::val::Val;
use refmodel::wire::{self, Limits};
use serde_json::json;

/// Conformance of one message with the expected argument types and values.
pub fn conformance(bytes: &[u8], env: &Env, tys: &[Ty], vals: &[Val], lim: &Limits) -> Result<(), String> {
    let d = wire::decode(bytes, lim).map_err(|e| format!("not well-formed: {e:?}"))?;
    if d.vals != vals {
        return Err(format!("denotes {} instead of {}", vals_text(&d.vals), vals_text(vals)));
    }
    if d.tys.len() != tys.len() {
        return Err("argument count differs".into());
    }
    let merged = d.env.merge_disjoint(env);
    for (a, b) in d.tys.iter().zip(tys) {
        if !sub::equal(&merged, a, b) {
            return Err(format!("declares argument type {a} (table: {}) instead of {b}", d.env.to_string().replace('\n', " ")));
        }
    }
    // exact re-serialisation: header as decoded + M(v : t) with minimal LEB128
    let mut again = d.header.to_bytes();
    for (t, v) in d.tys.iter().zip(&d.vals) {
        wire::enc_val(&d.env, t, v, &mut again).map_err(|e| format!("{e:?}"))?;
    }
    if again != bytes {
        return Err(format!("not the canonical byte string of its content (non-minimal LEB128 or padding): re-serialised {}", hex(&again)));
    }
    // every table entry is referenced from the arguments (no garbage entries)
    Ok(())
}

fn check_native(ctx: &Ctx) -> Report {
    let n = corpus_all::entries().len() as u64;
    let lim = Limits::default();
    ctx.par_range("native: corpus types x small values", n, 4, corpus_all::entries, move |es, i, rep| {
        let e = &es[i as usize];
        rep.states += 1;
        let (menv, mty) = (e.model_ty)();
        // the derived / declared Candid type equals the specified one
        let mut knots = Env::new();
        match catch(|| (e.real_ty)()) {
            Err(p) => rep.violation(&format!("ty-panic|{}", e.name), p, json!({"type": e.name})),
            Ok(rt) => match bridge::from_real_ty(&rt, &mut knots) {
                Err(err) => rep.violation(&format!("ty-bridge|{}", e.name), err, json!({"type": e.name})),
                Ok(t) => {
                    let merged = knots.merge_disjoint(&menv);
                    rep.transitions += 1;
                    rep.traces_validated += 1;
                    if !sub::equal(&merged, &t, &mty) {
                        rep.violation(&format!("ty-differs|{}", e.name), format!("{}::ty() = {t} (with {}), specified {mty}", e.name, knots.to_string().replace('\n', " ")), json!({"type": e.name}));
                    }
                }
            },
        }
        let mut reported = false;
        for vi in 0..(e.nvals)() {
            rep.evaluations += 1;
            rep.transitions += 2;
            match (e.encode)(vi) {
                Err(msg) => {
                    rep.outcome("native:encode-fails");
                    if !reported {
                        rep.violation(&format!("native-encode|{}|{}", e.name, msg.split(':').next().unwrap_or("")), format!("{} value #{vi}: {}", e.name, first_line(&msg)), json!({"type": e.name, "value_index": vi}));
                        reported = true;
                    }
                }
                Ok((bytes, val)) => {
                    rep.traces_validated += 1;
                    match conformance(&bytes, &menv, &[mty.clone()], &[val], &lim) {
                        Ok(()) => {
                            rep.nontrivial += 1;
                            rep.outcome("native:conformant");
                        }
                        Err(msg) => {
                            rep.outcome("native:nonconformant");
                            if !reported {
                                rep.violation(&format!("native-conformance|{}|{}", e.name, msg.split(':').next().unwrap_or("")), format!("{} value #{vi}: {} [{}]", e.name, msg, hex(&bytes)), json!({"type": e.name, "value_index": vi, "bytes": hex(&bytes)}));
                                reported = true;
                            }
                        }
                    }
                    // same arguments twice => identical bytes
                    if let Ok((b2, _)) = (e.encode)(vi) {
                        if b2 != bytes && !e.unordered {
                            rep.violation(&format!("native-nondeterministic|{}", e.name), format!("{} value #{vi}: two encodings differ", e.name), json!({"type": e.name, "value_index": vi}));
                        }
                    }
                }
            }
        }
        if i % 131 == 0 {
            rep.sample(json!({"type": e.name, "specified": mty.to_string()}));
        }
    })
}

fn check_untyped(ctx: &Ctx, triples: &[Triple]) -> Report {
    let lim = Limits::default();
    ctx.par_range("untyped: (env, type, value) triples", triples.len() as u64, 64, || (), |_, i, rep| {
        let tr = &triples[i as usize];
        let renv = bridge::to_real_env(&tr.env);
        let rt = bridge::to_real_ty(&tr.t);
        rep.states += 1;
        for blob in [false, true] {
            let Ok(iv) = bridge::to_idl(&tr.v, blob) else { return };
            rep.evaluations += 1;
            rep.transitions += 2;
            let key = |c: &str| format!("{c}|env={}|t={}|v={}|blob={blob}", tr.env.to_string().replace('\n', " "), tr.t, tr.v);
            let case = json!({"env": tr.env.to_string(), "type": tr.t.to_string(), "value": tr.v.to_string()});
            // IDLArgs::to_bytes_with_types and IDLBuilder::value_arg_with_type
            let a = catch(|| IDLArgs::new(&[iv.clone()]).to_bytes_with_types(&renv, &[rt.clone()]));
            let b = catch(|| {
                let mut bld = candid::ser::IDLBuilder::new();
                bld.value_arg_with_type(&iv, &renv, &rt)?;
                bld.serialize_to_vec()
            });
            for (name, r) in [("to_bytes_with_types", a), ("value_arg_with_type", b)] {
                match r {
                    Err(p) => rep.violation(&key(&format!("{name}-panic")), p, case.clone()),
                    Ok(Err(e)) => rep.violation(&key(&format!("{name}-rejects")), first_line(&e.to_string()), case.clone()),
                    Ok(Ok(bytes)) => {
                        rep.traces_validated += 1;
                        match conformance(&bytes, &tr.env, &[tr.t.clone()], &[tr.v.clone()], &lim) {
                            Ok(()) => {
                                rep.nontrivial += 1;
                                rep.outcome("untyped:conformant");
                            }
                            Err(msg) => {
                                rep.outcome("untyped:nonconformant");
                                let mut c = case.clone();
                                c["bytes"] = json!(hex(&bytes));
                                rep.violation(&key(&format!("{name}-conformance")), msg, c);
                            }
                        }
                    }
                }
            }
        }
        // values typed through the annotation allowances (nat at int, null at opt, anything at
        // reserved, ...): the message must be the well-formed encoding of their normal form
        for m in c10::allowance_values(&tr.env, &tr.t, &tr.v) {
            let Some(norm) = refmodel::val::liberal_norm(&tr.env, &m, &tr.t, true) else { continue };
            let Ok(iv) = bridge::to_idl(&m, false) else { continue };
            rep.evaluations += 1;
            rep.transitions += 2;
            let a = catch(|| IDLArgs::new(&[iv.clone()]).to_bytes_with_types(&renv, &[rt.clone()]));
            let b = catch(|| {
                let mut bld = candid::ser::IDLBuilder::new();
                bld.value_arg_with_type(&iv, &renv, &rt)?;
                bld.serialize_to_vec()
            });
            for (name, r) in [("to_bytes_with_types", a), ("value_arg_with_type", b)] {
                // (whether the value is accepted is C10's question)
                if let Ok(Ok(bytes)) = r {
                    rep.traces_validated += 1;
                    match conformance(&bytes, &tr.env, &[tr.t.clone()], &[norm.clone()], &lim) {
                        Ok(()) => {
                            rep.nontrivial += 1;
                            rep.outcome("untyped-allowance:conformant");
                        }
                        Err(msg) => {
                            rep.outcome("untyped-allowance:nonconformant");
                            rep.violation(
                                &format!("{name}-conformance-allowance|env={}|t={}|m={}", tr.env.to_string().replace('\n', " "), tr.t, m),
                                msg,
                                json!({"env": tr.env.to_string(), "type": tr.t.to_string(), "value": tr.v.to_string(), "allowance_value": m.to_string(), "bytes": hex(&bytes)}),
                            );
                        }
                    }
                }
            }
        }
        // two-argument messages share one table: (v, v) at (t, t)
        if i % 5 == 0 {
            if let Ok(iv) = bridge::to_idl(&tr.v, false) {
                if let Ok(Ok(bytes)) = catch(|| IDLArgs::new(&[iv.clone(), iv.clone()]).to_bytes_with_types(&renv, &[rt.clone(), rt.clone()])) {
                    rep.evaluations += 1;
                    rep.traces_validated += 1;
                    if let Err(msg) = conformance(&bytes, &tr.env, &[tr.t.clone(), tr.t.clone()], &[tr.v.clone(), tr.v.clone()], &lim) {
                        rep.violation(
                            &format!("two-args-conformance|env={}|t={}|v={}", tr.env.to_string().replace('\n', " "), tr.t, tr.v),
                            msg,
                            json!({"env": tr.env.to_string(), "type": tr.t.to_string(), "value": tr.v.to_string(), "bytes": hex(&bytes)}),
                        );
                    }
                }
            }
        }
    })
}

/// `serialize_to_vec` twice on one builder, and `arg` after `serialize`
fn check_reuse(rep: &mut Report) {
    let lim = Limits::default();
    rep.evaluations += 2;
    rep.transitions += 4;
    let r = catch(|| {
        let mut b = candid::ser::IDLBuilder::new();
        b.arg(&42u8).unwrap();
        let first = b.serialize_to_vec().unwrap();
        let second = b.serialize_to_vec().unwrap();
        (first, second)
    });
    match r {
        Err(p) => rep.violation("builder-reuse|panic", p, json!({"ops": "arg(42u8); serialize_to_vec(); serialize_to_vec()"})),
        Ok((first, second)) => {
            rep.traces_validated += 2;
            if wire::decode(&second, &lim).is_err() || first != second {
                rep.violation(
                    "builder-reuse|second-serialize",
                    format!("second serialize_to_vec() on the same builder gives {} (first: {})", hex(&second), hex(&first)),
                    json!({"ops": "arg(42u8); serialize_to_vec(); serialize_to_vec()", "first": hex(&first), "second": hex(&second)}),
                );
            } else {
                rep.outcome("builder-reuse:identical");
            }
        }
    }
}

/// One builder used for two messages: `arg(a); serialize; serialize; arg(b); serialize` for all ordered pairs (a, b) of
/// a reduced corpus (every k-th type and the memo-sensitive ones; b ranges over types that add table entries, types
/// already in the table and primitives). Every output must be exactly what a fresh builder emits for the same
/// arguments (and that is conformant by the native level).
fn check_reuse_pairs(ctx: &Ctx, tier: Tier) -> Report {
    let es0 = corpus_all::entries();
    let named = ["u8", "bool", "String", "Nat", "Vec<u16>", "Vec<u8>", "S2", "E1", "MA", "MB", "List<u8>", "Option<u8>", "BTreeMap<String,Nat>", "Twin#1", "Twin#2", "unit", "Principal"];
    let reduced: Vec<usize> = (0..es0.len()).filter(|i| i % tier.pick(41, 11) == 0 || named.contains(&es0[*i].name.as_str())).collect();
    drop(es0);
    let m = reduced.len() as u64;
    let mut rep = ctx.par_range("builder reuse: arg, serialize twice, arg, serialize - ordered pairs", m * m, 16, corpus_all::entries, |es, idx, rep| {
        let (a, b) = (&es[reduced[(idx / m) as usize]], &es[reduced[(idx % m) as usize]]);
        rep.evaluations += 1;
        rep.transitions += 6;
        rep.traces_validated += 1;
        let fresh = |args: &[&corpus::Entry]| -> Result<Vec<u8>, String> {
            let mut bld = candid::ser::IDLBuilder::new();
            for e in args {
                (e.arg_into)(&mut bld, 0)?;
            }
            catch(|| bld.serialize_to_vec()).map_err(|p| format!("panic: {p}"))?.map_err(|e| format!("encode error: {e}"))
        };
        let r: Result<Option<String>, String> = (|| {
            let want1 = fresh(&[a])?;
            let want2 = fresh(&[a, b])?;
            let mut bld = candid::ser::IDLBuilder::new();
            (a.arg_into)(&mut bld, 0)?;
            let s1 = catch(|| bld.serialize_to_vec()).map_err(|p| format!("panic: {p}"))?.map_err(|e| format!("first serialize: {e}"))?;
            let s1b = catch(|| bld.serialize_to_vec()).map_err(|p| format!("panic: {p}"))?.map_err(|e| format!("second serialize: {e}"))?;
            (b.arg_into)(&mut bld, 0)?;
            let s2 = catch(|| bld.serialize_to_vec()).map_err(|p| format!("panic: {p}"))?.map_err(|e| format!("serialize after the second arg: {e}"))?;
            if s1 != want1 {
                return Ok(Some(format!("first serialize gives {}, a fresh builder {}", hex(&s1), hex(&want1))));
            }
            if s1b != want1 {
                return Ok(Some(format!("second serialize gives {}, a fresh builder {}", hex(&s1b), hex(&want1))));
            }
            if s2 != want2 {
                return Ok(Some(format!("serialize after a further arg gives {}, a fresh builder with both arguments {}", hex(&s2), hex(&want2))));
            }
            Ok(None)
        })();
        match r {
            Ok(None) => {
                rep.nontrivial += 1;
                rep.outcome("builder-reuse-pair:as-fresh");
            }
            Ok(Some(msg)) => {
                rep.outcome("builder-reuse-pair:differs");
                rep.violation(&format!("builder-reuse-pair|{}|{}", a.name, b.name), msg, json!({"ops": "arg(a); serialize; serialize; arg(b); serialize", "types": [a.name, b.name]}));
            }
            Err(e) => {
                rep.outcome("builder-reuse-pair:error");
                rep.violation(&format!("builder-reuse-pair|{}|{}|error", a.name, b.name), first_line(&e), json!({"ops": "arg(a); serialize; serialize; arg(b); serialize", "types": [a.name, b.name]}));
            }
        }
    });
    rep.notes.push(format!("builder reuse over {m} x {m} ordered pairs of corpus types"));
    rep
}

pub fn run(tier: Tier, replay: Option<&str>) -> i32 {
    if replay.is_some() {
        println!("C03 cases are re-run by the quick tier (cases are identified by corpus type / triple)");
        return 2;
    }
    let ctx = Ctx::new("C03", tier, tier.pick(240, 1200));
    let mut rep = check_native(&ctx);
    let (triples, notes) = c10::build(tier);
    rep.merge(check_untyped(&ctx, &triples));
    check_reuse(&mut rep);
    rep.merge(check_reuse_pairs(&ctx, tier));
    rep.notes.extend(notes);
    finish(
        &ctx,
        rep,
        "native: every small value of every corpus Rust type through Encode!; untyped: every (environment, type, value) triple of the C10 scope through IDLArgs::to_bytes_with_types and IDLBuilder::value_arg_with_type (blobs spelled both ways), every value typed at the triple's type only through the annotation allowances (nat at int with magnitudes around every LEB128 group boundary, null at opt, anything at reserved, absent optional field, float64 literal at float32; the message must conform at the normal form), plus two-argument messages sharing a table. Oracle: strict reference decoder (composite-only table, ascending unique ids/method names, index ranges, methods are functions, values of declared types, nothing left over) returns the same abstract values at argument types structurally equal (R3) to the specified ones, and re-serialising exactly what was decoded reproduces the bytes (minimal (S)LEB128, little-endian fixed width, declared variant index). Encoding twice gives identical bytes; serialize twice on one builder, and `arg(a); serialize; serialize; arg(b); serialize` on one builder for all ordered pairs of a reduced corpus (each output equal to a fresh builder's). Non-trivial = conformant messages.",
        &["R2 strict decoder and encoder of values", "Cor::to_ty / to_val as the specified mapping of Rust types"],
        json!({}),
    )
}
