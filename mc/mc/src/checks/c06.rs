//! C06 — decoding arbitrary bytes never panics, crashes or over-allocates (E1+E3+E4).
//! All subject calls run in single-threaded worker *processes* (a dead worker is a verdict
//! about the input it was on); a counting global allocator measures peak live bytes per
//! case; every case runs on a thread of a declared stack size.
use super::common::*;
use super::corpus_all;
use candid::DecoderConfig;
use corpus::{Entry, Native};
use mclib::engine::{catch, finish, Ctx, Report, Tier};
use mclib::scopes::byte_mutants;
use refmodel::gen::{self, ValDomain};
use refmodel::leb;
use refmodel::ty::{Env, Ty, P};
use refmodel::wire::{self, Entry as TEntry, Header};
use serde_json::json;
use std::io::Write;
use std::sync::atomic::{AtomicUsize, Ordering};

// ---------------------------------------------------------------------------------------
// counting allocator (installed as the global allocator of the `mc` binary)

pub struct Counting;
static LIVE: AtomicUsize = AtomicUsize::new(0);
static PEAK: AtomicUsize = AtomicUsize::new(0);
static TOTAL: AtomicUsize = AtomicUsize::new(0);
/// counting is switched on only in C06's single-threaded worker processes (shared atomic
/// counters would serialise the 16 explorer threads of every other check)
static COUNTING: std::sync::atomic::AtomicBool = std::sync::atomic::AtomicBool::new(false);

unsafe impl std::alloc::GlobalAlloc for Counting {
    unsafe fn alloc(&self, l: std::alloc::Layout) -> *mut u8 {
        let p = std::alloc::System.alloc(l);
        if !p.is_null() && COUNTING.load(Ordering::Relaxed) {
            let live = LIVE.fetch_add(l.size(), Ordering::Relaxed) + l.size();
            TOTAL.fetch_add(l.size(), Ordering::Relaxed);
            PEAK.fetch_max(live, Ordering::Relaxed);
        }
        p
    }
    unsafe fn dealloc(&self, p: *mut u8, l: std::alloc::Layout) {
        std::alloc::System.dealloc(p, l);
        if COUNTING.load(Ordering::Relaxed) {
            // saturating: blocks allocated before counting was switched on
            let _ = LIVE.fetch_update(Ordering::Relaxed, Ordering::Relaxed, |x| Some(x.saturating_sub(l.size())));
        }
    }
    unsafe fn realloc(&self, p: *mut u8, l: std::alloc::Layout, new: usize) -> *mut u8 {
        let q = std::alloc::System.realloc(p, l, new);
        if !q.is_null() && COUNTING.load(Ordering::Relaxed) {
            if new >= l.size() {
                let live = LIVE.fetch_add(new - l.size(), Ordering::Relaxed) + (new - l.size());
                TOTAL.fetch_add(new - l.size(), Ordering::Relaxed);
                PEAK.fetch_max(live, Ordering::Relaxed);
            } else {
                let _ = LIVE.fetch_update(Ordering::Relaxed, Ordering::Relaxed, |x| Some(x.saturating_sub(l.size() - new)));
            }
        }
        q
    }
}

fn alloc_reset() -> usize {
    let live = LIVE.load(Ordering::Relaxed);
    PEAK.store(live, Ordering::Relaxed);
    TOTAL.store(0, Ordering::Relaxed);
    live
}

// ---------------------------------------------------------------------------------------
// targets and configurations

const NATIVE_TARGETS: [&str; 20] = [
    "u8", "String", "Nat", "Int", "u128", "Vec<u8>", "Vec<Nat>", "Vec<unit>", "Option<Option<u8>>", "BTreeMap<String,Nat>", "BTreeMap<u8,Int>", "S5", "E1",
    "Tree", "MA", "Principal", "Vec<u16>", "Vec<i32>", "Vec<u64>", "Vec<f64>",
];

#[derive(Clone, Copy, Debug)]
struct Cfg {
    dq: Option<usize>,
    sq: Option<usize>,
    full: bool,
    max_type_len: Option<usize>,
}

fn configs(tier: Tier) -> Vec<Cfg> {
    let mut v = vec![Cfg { dq: None, sq: None, full: true, max_type_len: None }];
    for q in [0usize, 1, 10, 100, 10_000] {
        v.push(Cfg { dq: Some(q), sq: None, full: false, max_type_len: None });
    }
    v.push(Cfg { dq: None, sq: Some(10), full: false, max_type_len: None });
    v.push(Cfg { dq: Some(10_000), sq: Some(100), full: true, max_type_len: Some(1) });
    if tier == Tier::Thorough {
        v.push(Cfg { dq: None, sq: Some(0), full: true, max_type_len: Some(100) });
        v.push(Cfg { dq: Some(1_000_000), sq: None, full: false, max_type_len: None });
    }
    v
}

fn mk_config(c: &Cfg) -> DecoderConfig {
    let mut cfg = DecoderConfig::new();
    if let Some(q) = c.dq {
        cfg.set_decoding_quota(q);
    }
    if let Some(q) = c.sq {
        cfg.set_skipping_quota(q);
    }
    if let Some(n) = c.max_type_len {
        cfg.set_max_type_len(n);
    }
    cfg.set_full_error_message(c.full);
    cfg
}

/// allocation bound under a decoding quota q: c0 + c1*|input| + c2*q (DESIGN.md C06)
fn alloc_bound(input_len: usize, q: usize) -> usize {
    (4 << 20) + 64 * input_len + 64 * q
}

/// outcome of one (input, target, config) call, as a small code: 0 ok, 1 err, 2 panic
fn run_one(bytes: &[u8], target: usize, es: &[Entry], cfg: &Cfg) -> (u8, String) {
    let dc = mk_config(cfg);
    if target < es.len() {
        match (es[target].decode_cfg)(bytes, cfg.dq, cfg.sq) {
            (Native::Ok { .. }, ..) => (0, String::new()),
            (Native::Err(_), ..) => (1, String::new()),
            (Native::Panic(p), ..) => (2, p),
        }
    } else {
        // untyped targets
        let k = target - es.len();
        let r = catch(|| match k {
            0 => candid::IDLArgs::from_bytes_with_config(bytes, &dc).map(|_| ()),
            1 => candid::IDLArgs::from_bytes_with_types_with_config(bytes, &candid::TypeEnv::new(), &[candid::types::TypeInner::Reserved.into()], &dc).map(|_| ()),
            2 => {
                let t: candid::types::Type = candid::types::TypeInner::Opt(candid::types::TypeInner::Vec(candid::types::TypeInner::Nat8.into()).into()).into();
                candid::IDLArgs::from_bytes_with_types_with_config(bytes, &candid::TypeEnv::new(), &[t], &dc).map(|_| ())
            }
            4 | 5 => {
                // skip one argument and decode the other (both may be deep): T = opt T
                let mut env = candid::TypeEnv::new();
                let t: candid::types::Type = candid::types::TypeInner::Var("T".into()).into();
                env.0.insert("T".into(), candid::types::TypeInner::Opt(t.clone()).into());
                let r: candid::types::Type = candid::types::TypeInner::Reserved.into();
                let tys = if k == 4 { vec![r, t] } else { vec![t, r] };
                candid::IDLArgs::from_bytes_with_types_with_config(bytes, &env, &tys, &dc).map(|_| ())
            }
            _ => {
                // a recursive expected type
                let mut env = candid::TypeEnv::new();
                let list: candid::types::Type = candid::types::TypeInner::Opt(
                    candid::types::TypeInner::Record(vec![
                        candid::types::Field { id: candid::types::Label::Id(0).into(), ty: candid::types::TypeInner::Int.into() },
                        candid::types::Field { id: candid::types::Label::Id(1).into(), ty: candid::types::TypeInner::Var("L".into()).into() },
                    ])
                    .into(),
                )
                .into();
                env.0.insert("L".into(), list);
                candid::IDLArgs::from_bytes_with_types_with_config(bytes, &env, &[candid::types::TypeInner::Var("L".into()).into()], &dc).map(|_| ())
            }
        });
        match r {
            Ok(Ok(())) => (0, String::new()),
            Ok(Err(_)) => (1, String::new()),
            Err(p) => (2, p),
        }
    }
}
const UNTYPED_TARGETS: usize = 6;

fn target_name(t: usize, es: &[Entry]) -> String {
    if t < es.len() {
        format!("Decode!(_, {})", es[t].name)
    } else {
        [
            "IDLArgs::from_bytes",
            "from_bytes_with_types (reserved)",
            "from_bytes_with_types (opt vec nat8)",
            "from_bytes_with_types (rec list)",
            "from_bytes_with_types (reserved, T) with T = opt T",
            "from_bytes_with_types (T, reserved) with T = opt T",
        ][t - es.len()]
            .to_string()
    }
}

// ---------------------------------------------------------------------------------------
// input families (deterministic, indexable)

const ALPHA: [u8; 24] = [
    0x00, 0x01, 0x02, 0x03, 0x7f, 0x80, 0xff, 0x68, 0x69, 0x6a, 0x6b, 0x6c, 0x6d, 0x6e, 0x6f, 0x70, 0x71, 0x7b, 0x7c, 0x7d, 0x7e, 0x04, 0x10, 0x67,
];

fn didl(s: &[u8]) -> Vec<u8> {
    let mut v = b"DIDL".to_vec();
    v.extend(s);
    v
}

fn leb_big(n: u128) -> Vec<u8> {
    leb::enc_u(&num_bigint::BigUint::from(n))
}

/// huge / over-long counts
fn counts() -> Vec<Vec<u8>> {
    let mut v: Vec<Vec<u8>> = [1u128 << 7, 1 << 14, 1 << 31, (1 << 32) - 1, 1 << 32, 1 << 63, (1u128 << 64) - 1, 1u128 << 64]
        .iter()
        .map(|n| leb_big(*n))
        .collect();
    // over-long encodings of 1 (10..20 bytes)
    for n in [10usize, 11, 19, 20] {
        let mut b = vec![0x81u8];
        b.extend(vec![0x80u8; n - 2]);
        b.push(0);
        v.push(b);
    }
    v
}

/// Messages with type table `T = opt T` and two or three arguments of type T nested d1, d2 (, d3) deep. One
/// recursion-depth tracker and one stack serve the whole message, and the targets consume the arguments in
/// different ways (decode / skip as surplus / read at reserved), with different stack needs per level. Depths
/// sweep densely through the region where each stack class runs out (the guard must fire for every value on
/// its own account, whatever was consumed before).
fn two_deep_messages(tier: Tier) -> Vec<(String, Vec<u8>)> {
    let mut out = vec![];
    let val = |d: usize| {
        let mut v = vec![0x01u8; d];
        v.push(0x00);
        v
    };
    let mut d1s: Vec<usize> = vec![];
    let (s1, s2, s3) = if tier == Tier::Quick { (3, 10, 60) } else { (1, 2, 10) };
    let deltas: &[usize] = if tier == Tier::Quick { &[0, 2, 8, 32] } else { &[0, 1, 2, 4, 8, 16, 32] };
    d1s.extend((20..=140).step_by(s1));
    d1s.extend((150..=600).step_by(s2));
    d1s.extend((1200..=4200).step_by(s3));
    for d1 in d1s {
        for &delta in deltas {
            if delta >= d1 {
                continue;
            }
            let d2 = d1 - delta;
            out.push((format!("two-deep d1={d1} d2={d2}"), didl(&[&[0x01, 0x6e, 0x00, 0x02, 0x00, 0x00][..], &val(d1)[..], &val(d2)[..]].concat())));
            if delta == 2 {
                out.push((format!("two-deep d1={d2} d2={d1}"), didl(&[&[0x01, 0x6e, 0x00, 0x02, 0x00, 0x00][..], &val(d2)[..], &val(d1)[..]].concat())));
                out.push((format!("three-deep d={d1},{d2},{d2}"), didl(&[&[0x01, 0x6e, 0x00, 0x03, 0x00, 0x00, 0x00][..], &val(d1)[..], &val(d2)[..], &val(d2)[..]].concat())));
            }
        }
    }
    out
}

/// names for wire positions that carry a string which error messages may quote or cut: every "round" byte offset
/// with a 2-, 3- and 4-byte character straddling it at every alignment
fn straddling_names(tier: Tier) -> Vec<Vec<u8>> {
    let mut out: Vec<Vec<u8>> = vec![];
    let offsets: &[usize] = if tier == Tier::Quick {
        &[8, 16, 20, 32, 64, 100, 128, 256, 1024]
    } else {
        &[8, 10, 16, 20, 24, 30, 32, 40, 48, 50, 60, 64, 80, 100, 120, 128, 200, 250, 255, 256, 500, 512, 1000, 1024]
    };
    for &b in offsets {
        for ch in ["\u{e9}", "\u{672c}", "\u{1F600}"] {
            for k in 1..ch.len() {
                if k > b {
                    continue;
                }
                let mut s = "a".repeat(b - k);
                s.push_str(ch);
                s.push_str("bc");
                out.push(s.into_bytes());
            }
        }
    }
    out
}

fn hostile_messages(tier: Tier) -> Vec<(String, Vec<u8>)> {
    let mut out: Vec<(String, Vec<u8>)> = vec![];
    // strings supplied by the wire that diagnostics quote: method names in service types (valid, typed by a
    // non-function, duplicated, unsorted), method names of function values, text values (also cut short in the
    // middle of a character)
    for (ni, name) in straddling_names(tier).into_iter().enumerate() {
        let l = leb::enc_u64(name.len() as u64);
        let func = [0x6au8, 0x00, 0x00, 0x00]; // entry 0: func () -> ()
        let svc = |methods: &[(&[u8], u8)]| {
            let mut t = vec![0x02u8];
            t.extend(func);
            t.push(0x69);
            t.extend(leb::enc_u64(methods.len() as u64));
            for (n, ty) in methods {
                t.extend(leb::enc_u64(n.len() as u64));
                t.extend(*n);
                t.push(*ty);
            }
            t.extend([0x01, 0x01, 0x01, 0x00]); // one argument of type entry 1: a service reference with empty principal
            didl(&t)
        };
        let mut longer = name.clone();
        longer.push(b'z');
        out.push((format!("service-method-name#{ni} valid len={}", name.len()), svc(&[(&name, 0x00)])));
        out.push((format!("service-method-name#{ni} non-func-prim len={}", name.len()), svc(&[(&name, 0x7d)])));
        out.push((format!("service-method-name#{ni} non-func-entry len={}", name.len()), svc(&[(&name, 0x01)])));
        out.push((format!("service-method-name#{ni} duplicate len={}", name.len()), svc(&[(&name, 0x00), (&name, 0x00)])));
        out.push((format!("service-method-name#{ni} unsorted len={}", name.len()), svc(&[(&longer, 0x00), (&name, 0x00)])));
        // function value: principal (empty) + method name
        out.push((format!("func-method-name#{ni} len={}", name.len()), didl(&[&[0x01, 0x6a, 0x00, 0x00, 0x00, 0x01, 0x00, 0x01, 0x01, 0x00][..], &l[..], &name[..]].concat())));
        out.push((format!("text-value#{ni} len={}", name.len()), didl(&[&[0x00, 0x01, 0x71][..], &l[..], &name[..]].concat())));
        // the same bytes cut inside the multi-byte character (invalid UTF-8 at the very end)
        let cut = &name[..name.len() - 3];
        let lc = leb::enc_u64(cut.len() as u64);
        out.push((format!("text-value#{ni} cut-inside-char len={}", cut.len()), didl(&[&[0x00, 0x01, 0x71][..], &lc[..], cut].concat())));
        out.push((format!("func-method-name#{ni} cut-inside-char len={}", cut.len()), didl(&[&[0x01, 0x6a, 0x00, 0x00, 0x00, 0x01, 0x00, 0x01, 0x01, 0x00][..], &lc[..], cut].concat())));
        out.push((format!("service-method-name#{ni} cut-inside-char non-func len={}", cut.len()), svc(&[(cut, 0x7d)])));
    }
    for c in counts() {
        let tag = hex(&c);
        // table length, arg count
        out.push((format!("table-length={tag}"), didl(&[&c[..], &[0x00]].concat())));
        out.push((format!("arg-count={tag}"), didl(&[&[0x00][..], &c[..], &[0x7f]].concat())));
        // field count, func arity, method count, future length
        out.push((format!("field-count={tag}"), didl(&[&[0x01, 0x6c][..], &c[..], &[0x00, 0x7f, 0x01, 0x00]].concat())));
        out.push((format!("variant-field-count={tag}"), didl(&[&[0x01, 0x6b][..], &c[..], &[0x00, 0x7f, 0x01, 0x00, 0x00]].concat())));
        out.push((format!("func-arg-count={tag}"), didl(&[&[0x01, 0x6a][..], &c[..], &[0x00, 0x00, 0x01, 0x00]].concat())));
        out.push((format!("service-method-count={tag}"), didl(&[&[0x01, 0x69][..], &c[..], &[0x01, 0x00]].concat())));
        out.push((format!("future-type-length={tag}"), didl(&[&[0x01, 0x67][..], &c[..], &[0x01, 0x00]].concat())));
        // value-level: vec length (of null, reserved, nat8, nat, record {}), text length, principal length, blob
        for (name, elem) in [("null", 0x7fu8), ("reserved", 0x70), ("nat8", 0x7b), ("nat", 0x7d), ("text", 0x71), ("bool", 0x7e)] {
            out.push((format!("vec-{name}-length={tag}"), didl(&[&[0x01, 0x6d, elem, 0x01, 0x00][..], &c[..]].concat())));
        }
        out.push((format!("vec-empty-record-length={tag}"), didl(&[&[0x02, 0x6d, 0x01, 0x6c, 0x00, 0x01, 0x00][..], &c[..]].concat())));
        out.push((format!("vec-vec-null-length={tag}"), didl(&[&[0x02, 0x6d, 0x01, 0x6d, 0x7f, 0x01, 0x00][..], &c[..], &c[..]].concat())));
        out.push((format!("text-length={tag}"), didl(&[&[0x00, 0x01, 0x71][..], &c[..], b"ab"].concat())));
        out.push((format!("principal-length={tag}"), didl(&[&[0x00, 0x01, 0x68, 0x01][..], &c[..], &[1, 2, 3]].concat())));
        out.push((format!("variant-index={tag}"), didl(&[&[0x01, 0x6b, 0x01, 0x00, 0x7f, 0x01, 0x00][..], &c[..]].concat())));
        out.push((format!("future-value-length={tag}"), didl(&[&[0x01, 0x67, 0x00, 0x01, 0x00][..], &c[..], &[0x00]].concat())));
        out.push((format!("nat-value={tag}"), didl(&[&[0x00, 0x01, 0x7d][..], &c[..]].concat())));
    }
    // fixed-width element vectors whose byte size (count x width) lands in the last few bytes below 2^64 / 2^63
    // (where `pos + count*width` and `count*width` wrap), with and without some payload present
    let mut edge: Vec<u128> = vec![];
    for base in [1u128 << 64, 1u128 << 63] {
        for w in [1u128, 2, 4, 8] {
            for j in 0..=24u128 {
                edge.push((base - j) / w);
                edge.push((base - j + w - 1) / w);
            }
        }
    }
    edge.sort();
    edge.dedup();
    for (name, code, w) in [
        ("nat8", 0x7bu8, 1u128), ("nat16", 0x7a, 2), ("nat32", 0x79, 4), ("nat64", 0x78, 8), ("int8", 0x77, 1), ("int16", 0x76, 2), ("int32", 0x75, 4),
        ("int64", 0x74, 8), ("float32", 0x73, 4), ("float64", 0x72, 8), ("bool", 0x7e, 1),
    ] {
        for c in &edge {
            // only counts whose byte size is within 32 bytes of a power-of-two boundary for this width
            let bytes = c * w;
            let near = |b: u128| bytes + 32 >= b && bytes <= b + 8;
            if !(near(1 << 64) || near(1 << 63)) {
                continue;
            }
            let cb = leb_big(*c);
            for pay in [0usize, 16] {
                out.push((format!("edge:vec-{name} count={c} payload={pay}"), didl(&[&[0x01, 0x6d, code, 0x01, 0x00][..], &cb[..], &vec![0x01u8; pay][..]].concat())));
            }
            if name == "nat8" {
                out.push((format!("edge:text length={c}"), didl(&[&[0x00, 0x01, 0x71][..], &cb[..], b"abcdefgh"].concat())));
            }
        }
    }
    // zero-sized element bombs with explicit counts (quota decides how far the decoder goes)
    for n in [1_000u64, 1_000_000, (1 << 32) - 1] {
        for (name, body) in [
            ("vec-null", vec![0x01, 0x6d, 0x7f, 0x01, 0x00]),
            ("vec-reserved", vec![0x01, 0x6d, 0x70, 0x01, 0x00]),
            ("vec-record{}", vec![0x02, 0x6d, 0x01, 0x6c, 0x00, 0x01, 0x00]),
            ("vec-record{null;null}", vec![0x02, 0x6d, 0x01, 0x6c, 0x02, 0x00, 0x7f, 0x01, 0x7f, 0x01, 0x00]),
            ("vec-opt-empty?no:vec-opt-null", vec![0x02, 0x6d, 0x01, 0x6e, 0x7f, 0x01, 0x00]),
        ] {
            out.push((format!("bomb:{name}x{n}"), didl(&[&body[..], &leb::enc_u64(n)[..]].concat())));
        }
    }
    // values of a future type (opcode < -24: `leb(m) leb(refs) m bytes`), skipped as surplus argument, at reserved
    // and under a mismatching opt: every small byte count against every way the remaining input can fall short
    for m in 0u8..=4 {
        for refs in [&[0x00u8][..], &[0x01], &[0x80, 0x00], &[0x80, 0x80, 0x00], &[0xff, 0x7f], &[0x80]] {
            for pay in 0..=(m as usize + 1) {
                let mut v = vec![m];
                v.extend(refs);
                v.extend(vec![0xaau8; pay]);
                out.push((format!("future-value m={m} refs={} payload={pay}", hex(refs)), didl(&[&[0x01, 0x67, 0x00, 0x01, 0x00][..], &v[..]].concat())));
                // followed by a second, ordinary argument (the decoder continues after the skipped value)
                out.push((format!("future-value+nat8 m={m} refs={} payload={pay}", hex(refs)), didl(&[&[0x01, 0x67, 0x00, 0x02, 0x00, 0x7b][..], &v[..], &[0x07]].concat())));
            }
        }
    }
    // recursive tables without progress
    out.push(("table:record-self".into(), didl(&[0x01, 0x6c, 0x01, 0x00, 0x00, 0x01, 0x00])));
    out.push(("table:opt-self".into(), didl(&[0x01, 0x6e, 0x00, 0x01, 0x00, 0x01, 0x01, 0x01, 0x01, 0x00])));
    out.push(("table:vec-self".into(), didl(&[0x01, 0x6d, 0x00, 0x01, 0x00, 0x01, 0x01, 0x01, 0x00])));
    out.push(("table:mutual-records".into(), didl(&[0x02, 0x6c, 0x01, 0x00, 0x01, 0x6c, 0x01, 0x00, 0x00, 0x01, 0x00])));
    // nesting depth in the type table and in the value
    let depths: Vec<usize> = if tier == Tier::Quick { vec![1, 10, 100, 1000, 5000, 20000] } else { vec![1, 2, 10, 50, 100, 500, 1000, 2000, 5000, 9999, 10000, 20000] };
    for d in depths {
        // chains of records / variants in the table only (the value of a record chain has no bytes, a
        // variant chain needs one index byte per level): table processing must be stack-safe on its own
        for (name, op) in [("record", 0x6cu8), ("variant", 0x6b)] {
            let mut t = leb::enc_u64(d as u64);
            for i in 0..d {
                t.push(op);
                if i + 1 < d {
                    // one field, id 0, of the next entry
                    t.extend([0x01, 0x00]);
                    t.extend(leb::enc_i64((i + 1) as i64));
                } else if op == 0x6c {
                    t.push(0x00); // record {}
                } else {
                    t.extend([0x01, 0x00, 0x7f]); // variant { 0 : null }
                }
            }
            t.extend([0x01, 0x00]);
            let v = if op == 0x6c { vec![] } else { vec![0x00u8; d] };
            out.push((format!("nest:{name}-chain depth={d}"), didl(&[&t[..], &v[..]].concat())));
        }
        for (name, op) in [("opt", 0x6eu8), ("vec", 0x6d)] {
            // chain of d entries: entry i = op(i+1), last = op(null)
            let mut t = leb::enc_u64(d as u64);
            for i in 0..d {
                t.push(op);
                if i + 1 < d {
                    t.extend(leb::enc_i64((i + 1) as i64));
                } else {
                    t.push(0x7f);
                }
            }
            t.extend([0x01, 0x00]);
            // value: opt: d-1 times 01 then 00 ; vec: d-1 times length 1 then length 0
            let mut v = vec![0x01u8; d.saturating_sub(1)];
            v.push(0x00);
            out.push((format!("nest:{name}-chain depth={d}"), didl(&[&t[..], &v[..]].concat())));
        }
        // recursive type, deep value: type L = opt record {L}
        let t = vec![0x02, 0x6e, 0x01, 0x6c, 0x01, 0x00, 0x00, 0x01, 0x00];
        let mut v = vec![0x01u8; d];
        v.push(0x00);
        out.push((format!("nest:recursive-opt-record value depth={d}"), didl(&[&t[..], &v[..]].concat())));
        // variant recursion: type T = variant { 0 : T; 1 : null }
        let t = vec![0x01, 0x6b, 0x02, 0x00, 0x00, 0x01, 0x7f, 0x01, 0x00];
        let mut v = vec![0x00u8; d];
        v.push(0x01);
        out.push((format!("nest:recursive-variant value depth={d}"), didl(&[&t[..], &v[..]].concat())));
    }
    out
}

#[derive(Clone, Copy, Debug, PartialEq)]
enum Family {
    AllBytes(usize),
    Alphabet(usize),
    Mutants,
    Hostile,
    /// two (or three) deep values of type T = opt T in one message, consumed in different ways
    TwoDeep,
}

fn family_size(f: Family, ctxd: &FamilyData) -> u64 {
    match f {
        Family::AllBytes(l) => 256u64.pow(l as u32),
        Family::Alphabet(l) => 24u64.pow(l as u32),
        Family::Mutants => ctxd.mutants.len() as u64,
        Family::Hostile => ctxd.hostile.len() as u64,
        Family::TwoDeep => ctxd.two_deep.len() as u64,
    }
}

struct FamilyData {
    mutants: Vec<Vec<u8>>,
    hostile: Vec<(String, Vec<u8>)>,
    two_deep: Vec<(String, Vec<u8>)>,
}

fn family_data(tier: Tier) -> FamilyData {
    // valid messages of a small scope and all their 1-byte deviations
    let mut seeds: Vec<Vec<u8>> = vec![];
    let dom = ValDomain::tiny();
    for (env, t) in mclib::scopes::recursive_envs("w") {
        for v in gen::values(&env, &t, &dom, 3).into_iter().take(3) {
            if let Ok(b) = wire::encode(&env, &[t.clone()], &[v], true) {
                seeds.push(b);
            }
        }
    }
    let empty = Env::new();
    for t in [
        Ty::vec(Ty::Prim(P::Nat)),
        Ty::vec(Ty::Prim(P::Nat8)),
        Ty::Prim(P::Text),
        Ty::Prim(P::Principal),
        Ty::record(vec![(0, Ty::Prim(P::Text)), (1, Ty::opt(Ty::Prim(P::Int)))]),
        Ty::variant(vec![(0, Ty::Prim(P::Null)), (1, Ty::vec(Ty::Prim(P::Bool)))]),
        Ty::func(vec![Ty::Prim(P::Nat)], vec![], vec![]),
        Ty::service(vec![("m".into(), Ty::func(vec![], vec![], vec![]))]),
        Ty::vec(Ty::record(vec![(0, Ty::Prim(P::Text)), (1, Ty::Prim(P::Nat))])),
    ] {
        for v in gen::values(&empty, &t, &dom, 3).into_iter().rev().take(2) {
            if let Ok(b) = wire::encode(&empty, &[t.clone()], &[v], true) {
                seeds.push(b);
            }
        }
    }
    let mut mutants = vec![];
    for s in seeds.iter().step_by(tier.pick(3, 1)) {
        mutants.extend(byte_mutants(s, &[0x00, 0x7f, 0x80, 0xff]));
    }
    FamilyData { mutants, hostile: hostile_messages(tier), two_deep: two_deep_messages(tier) }
}

fn family_input(f: Family, i: u64, d: &FamilyData) -> (String, Vec<u8>) {
    match f {
        Family::AllBytes(l) => {
            let mut s = vec![0u8; l];
            let mut x = i;
            for k in (0..l).rev() {
                s[k] = (x % 256) as u8;
                x /= 256;
            }
            (String::new(), didl(&s))
        }
        Family::Alphabet(l) => {
            let mut s = vec![0u8; l];
            let mut x = i;
            for k in (0..l).rev() {
                s[k] = ALPHA[(x % 24) as usize];
                x /= 24;
            }
            (String::new(), didl(&s))
        }
        Family::Mutants => (String::new(), d.mutants[i as usize].clone()),
        Family::Hostile => d.hostile[i as usize].clone(),
        Family::TwoDeep => d.two_deep[i as usize].clone(),
    }
}

fn families(tier: Tier) -> Vec<Family> {
    // the structured families first: if a wall cap stops the run, what was not reached is the tail of the
    // plain byte-string sweeps
    match tier {
        Tier::Quick => vec![Family::Hostile, Family::TwoDeep, Family::Mutants, Family::AllBytes(0), Family::AllBytes(1), Family::AllBytes(2), Family::Alphabet(3), Family::Alphabet(4)],
        Tier::Thorough => vec![
            Family::Hostile,
            Family::TwoDeep,
            Family::Mutants,
            Family::AllBytes(0),
            Family::AllBytes(1),
            Family::AllBytes(2),
            Family::AllBytes(3),
            Family::Alphabet(4),
            Family::Alphabet(5),
        ],
    }
}

// ---------------------------------------------------------------------------------------
// worker process

fn targets_for(f: Family, tier: Tier, nt: usize) -> Vec<usize> {
    // exhaustive small families see every target; the big ones a reduced set
    match f {
        Family::AllBytes(3) | Family::Alphabet(5) => vec![0, 5, 11, nt, nt + 3],
        Family::Alphabet(4) if tier == Tier::Quick => vec![6, 9, nt, nt + 2],
        // the deep pairs go to the untyped targets and two recursive native ones
        Family::TwoDeep => vec![8, 13, nt, nt + 1, nt + 4, nt + 5],
        _ => (0..nt + UNTYPED_TARGETS).collect(),
    }
}

/// `mc C06 --worker <tier> <family-index> <share> <nshares> <stack-kib> <progress-file>`
pub fn worker(args: &[String]) -> i32 {
    COUNTING.store(true, Ordering::Relaxed);
    let tier = if args[0] == "thorough" { Tier::Thorough } else { Tier::Quick };
    let fi: usize = args[1].parse().unwrap();
    let share: u64 = args[2].parse().unwrap();
    let nshares: u64 = args[3].parse().unwrap();
    let stack_kib: usize = args[4].parse().unwrap();
    let progress_path = args[5].clone();
    let skip_until: u64 = args.get(6).and_then(|s| s.parse().ok()).unwrap_or(0);
    let only: Option<u64> = args.get(7).and_then(|s| s.parse().ok());
    let h = std::thread::Builder::new()
        .stack_size(stack_kib * 1024)
        .spawn(move || {
            let data = family_data(tier);
            let f = families(tier)[fi];
            let all = corpus_all::entries();
            let es: Vec<Entry> = {
                let mut v = vec![];
                let mut all = all;
                for n in NATIVE_TARGETS {
                    let i = all.iter().position(|e| e.name == n).expect("target");
                    v.push(all.swap_remove(i));
                }
                v
            };
            let cfgs = configs(tier);
            let tg = targets_for(f, tier, es.len());
            let n = family_size(f, &data);
            let mut prog = std::fs::OpenOptions::new().create(true).write(true).truncate(true).open(&progress_path).unwrap();
            let mut rep = Report::new();
            let mut digest: u64 = 0xcbf29ce484222325;
            let mut i = share;
            while i < n {
                if i < skip_until || only.map_or(false, |o| o != i) {
                    i += nshares;
                    continue;
                }
                let (label, bytes) = family_input(f, i, &data);
                // progress: index of the case about to run
                use std::io::Seek;
                let _ = prog.seek(std::io::SeekFrom::Start(0));
                let _ = prog.write_all(format!("{i:020}").as_bytes());
                rep.states += 1;
                // does the message denote more than 10^6 value nodes? (then only metered runs)
                // (the reference decoder recurses too: keep it off the small subject stack)
                let huge = {
                    let probe = |b: &[u8]| matches!(wire::decode(b, &wire::Limits { max_nodes: 1_000_000, ..Default::default() }), Err(wire::WireErr::Budget));
                    if f == Family::Hostile || f == Family::TwoDeep {
                        let b = bytes.clone();
                        std::thread::Builder::new().stack_size(256 << 20).spawn(move || probe(&b)).unwrap().join().unwrap_or(true)
                    } else {
                        probe(&bytes)
                    }
                };
                for (ti, t) in tg.iter().enumerate() {
                    for (ci, c) in cfgs.iter().enumerate() {
                        // unmetered runs of explicit bombs are out of scope (DESIGN.md C06, L)
                        if c.dq.is_none() && huge {
                            continue;
                        }
                        let before = alloc_reset();
                        let (code, msg) = run_one(&bytes, *t, &es, c);
                        let peak = PEAK.load(Ordering::Relaxed).saturating_sub(before);
                        rep.evaluations += 1;
                        rep.transitions += 1;
                        digest = (digest ^ (code as u64 + 3 * (ti as u64) + 7 * (ci as u64))).wrapping_mul(0x100000001b3);
                        if code == 0 {
                            rep.nontrivial += 1;
                        }
                        rep.outcome(match code {
                            0 => "ok",
                            1 => "err",
                            _ => "panic",
                        });
                        let case = json!({"bytes": hex(&bytes), "target": target_name(*t, &es), "config": format!("{c:?}"), "family": format!("{f:?}"), "index": i, "label": label, "stack_kib": stack_kib});
                        if code == 2 {
                            let site = msg.rsplit('@').next().unwrap_or("").trim().to_string();
                            rep.violation(&format!("panic|{}|{}", target_name(*t, &es), site), format!("{} panics on {} ({label}): {msg}", target_name(*t, &es), hex(&bytes)), case.clone());
                        }
                        if let Some(q) = c.dq {
                            let bound = alloc_bound(bytes.len(), q);
                            if peak > bound {
                                rep.violation(
                                    &format!("allocation|{}|{}|dq={q}", target_name(*t, &es), if label.is_empty() { hex(&bytes) } else { label.clone() }),
                                    format!("peak allocation {peak} bytes exceeds {bound} = 4MiB + 64*|input| + 64*quota ({q}) on {} bytes", bytes.len()),
                                    case.clone(),
                                );
                            }
                            let cur = rep.counters.get("max_peak_alloc_under_quota").copied().unwrap_or(0);
                            if peak as u64 > cur {
                                rep.counters.insert("max_peak_alloc_under_quota".into(), peak as u64);
                            }
                        }
                    }
                }
                i += nshares;
            }
            let _ = std::fs::remove_file(&progress_path);
            let out = json!({
                "evaluations": rep.evaluations, "states": rep.states, "nontrivial": rep.nontrivial, "outcomes": rep.outcomes,
                "digest": format!("{digest:016x}"), "max_peak": rep.counters.get("max_peak_alloc_under_quota").copied().unwrap_or(0),
                "violations": rep.violations.iter().map(|v| json!({"key": v.key, "msg": v.msg, "case": v.case})).collect::<Vec<_>>(),
            });
            println!("WORKER-REPORT {}", out);
        })
        .unwrap();
    match h.join() {
        Ok(()) => 0,
        Err(_) => 3,
    }
}

// ---------------------------------------------------------------------------------------
// parent

struct WorkerResult {
    report: Option<serde_json::Value>,
    died_on: Option<u64>,
    status: String,
}

/// user + system CPU seconds consumed so far by process `pid` (Linux /proc; 100 ticks per second)
fn child_cpu_seconds(pid: u32) -> f64 {
    let Ok(stat) = std::fs::read_to_string(format!("/proc/{pid}/stat")) else { return 0.0 };
    // fields after the parenthesised command name
    let Some(rest) = stat.rsplit(')').next() else { return 0.0 };
    let f: Vec<&str> = rest.split_whitespace().collect();
    let ticks = |i: usize| f.get(i).and_then(|x| x.parse::<u64>().ok()).unwrap_or(0);
    // rest starts at field 3 (state): utime is field 14, stime field 15
    (ticks(11) + ticks(12)) as f64 / 100.0
}

fn spawn_worker(exe: &std::path::Path, tier: Tier, fi: usize, share: u64, nshares: u64, stack_kib: usize, skip_until: u64, only: Option<u64>, watchdog_s: u64) -> WorkerResult {
    let _ = std::fs::create_dir_all(format!("{}/mc/target", mclib::engine::verif_dir()));
    let progress = format!("{}/mc/target/c06-progress-{}-{fi}-{share}-{stack_kib}-{}", mclib::engine::verif_dir(), std::process::id(), exe.to_string_lossy().contains("release"));
    let mut cmd = std::process::Command::new(exe);
    cmd.args(["C06", "--worker", tier.name(), &fi.to_string(), &share.to_string(), &nshares.to_string(), &stack_kib.to_string(), &progress, &skip_until.to_string()]);
    if let Some(o) = only {
        cmd.arg(o.to_string());
    }
    cmd.env("RUST_BACKTRACE", "0").stdout(std::process::Stdio::piped()).stderr(std::process::Stdio::null());
    let mut child = cmd.spawn().expect("spawn worker");
    let start = std::time::Instant::now();
    let mut last_progress = String::new();
    let mut last_change = std::time::Instant::now();
    let mut cpu_at_change = 0.0f64;
    let status = loop {
        match child.try_wait() {
            Ok(Some(st)) => break format!("{st}"),
            Ok(None) => {}
            Err(e) => break format!("wait error {e}"),
        }
        std::thread::sleep(std::time::Duration::from_millis(50));
        let p = std::fs::read_to_string(&progress).unwrap_or_default();
        // the watchdog counts the worker's own CPU time (independent of machine load); a worker
        // that neither advances nor burns CPU is stopped after 30 x that much wall time
        let cpu = child_cpu_seconds(child.id());
        if p != last_progress {
            last_progress = p;
            last_change = std::time::Instant::now();
            cpu_at_change = cpu;
        } else if start.elapsed().as_secs() > watchdog_s && ((cpu - cpu_at_change) > watchdog_s as f64 || last_change.elapsed().as_secs() > 30 * watchdog_s) {
            let _ = child.kill();
            let _ = child.wait();
            break "watchdog: no progress".to_string();
        }
    };
    let mut out = String::new();
    if let Some(mut so) = child.stdout.take() {
        use std::io::Read;
        let _ = so.read_to_string(&mut out);
    }
    let report = out.lines().find_map(|l| l.strip_prefix("WORKER-REPORT ")).and_then(|j| serde_json::from_str(j).ok());
    let died_on = if report.is_none() { std::fs::read_to_string(&progress).ok().and_then(|s| s.trim().parse().ok()) } else { None };
    let _ = std::fs::remove_file(&progress);
    WorkerResult { report, died_on, status }
}

fn merge_worker(rep: &mut Report, r: &serde_json::Value, prefix: &str) {
    rep.evaluations += r["evaluations"].as_u64().unwrap_or(0);
    rep.transitions += r["evaluations"].as_u64().unwrap_or(0);
    rep.traces_validated += r["evaluations"].as_u64().unwrap_or(0);
    rep.states += r["states"].as_u64().unwrap_or(0);
    rep.nontrivial += r["nontrivial"].as_u64().unwrap_or(0);
    if let Some(o) = r["outcomes"].as_object() {
        for (k, v) in o {
            *rep.outcomes.entry(format!("{prefix}{k}")).or_insert(0) += v.as_u64().unwrap_or(0);
        }
    }
    let mp = r["max_peak"].as_u64().unwrap_or(0);
    let cur = rep.counters.get("max_peak_alloc_under_quota_bytes").copied().unwrap_or(0);
    rep.counters.insert("max_peak_alloc_under_quota_bytes".into(), cur.max(mp));
    if let Some(vs) = r["violations"].as_array() {
        for v in vs {
            rep.violation(&format!("{prefix}{}", v["key"].as_str().unwrap_or("")), v["msg"].as_str().unwrap_or("").to_string(), v["case"].clone());
        }
    }
}

pub fn run(tier: Tier, replay: Option<&str>, rest: &[String]) -> i32 {
    if rest.first().map(|s| s.as_str()) == Some("--worker") {
        return worker(&rest[1..]);
    }
    let exe = std::env::current_exe().expect("exe");
    if let Some(path) = replay {
        let s = std::fs::read_to_string(path).expect("replay file");
        let v: serde_json::Value = serde_json::from_str(&s).expect("json");
        let c = &v["case"];
        println!("re-running family {} index {} on a {} KiB stack in a worker process", c["family"], c["index"], c["stack_kib"]);
        let fams = families(tier);
        let fi = fams.iter().position(|f| format!("{f:?}") == c["family"].as_str().unwrap_or("")).unwrap_or(0);
        let r = spawn_worker(&exe, tier, fi, 0, 1, c["stack_kib"].as_u64().unwrap_or(8192) as usize, 0, c["index"].as_u64(), 30);
        println!("worker status: {}; report: {}", r.status, r.report.as_ref().map(|x| x["violations"].to_string()).unwrap_or("none (died)".into()));
        let bad = r.report.as_ref().map(|x| x["violations"].as_array().map(|a| !a.is_empty()).unwrap_or(false)).unwrap_or(true);
        if bad {
            println!("REPRODUCED");
            return 1;
        }
        println!("not reproduced");
        return 0;
    }
    let ctx = Ctx::new("C06", tier, tier.pick(300, 1500));
    let mut rep = Report::new();
    let fams = families(tier);
    let nshares = ctx.threads as u64;
    let release = std::env::var("MC_RELEASE_DIR").ok().map(|d| std::path::PathBuf::from(d).join("mc")).filter(|p| p.exists());
    if release.is_none() {
        rep.notes.push("release-profile binary not found (MC_RELEASE_DIR): release level not run".into());
        rep.level("release-profile", 0, false);
    }
    let data = family_data(tier);
    for (fi, f) in fams.iter().enumerate() {
        // nesting and bombs additionally on small stacks
        let stacks: Vec<usize> = if *f == Family::Hostile || *f == Family::TwoDeep { vec![256, 1024, 8192] } else { vec![8192] };
        let total = family_size(*f, &data);
        for stack in stacks {
            let mut profiles: Vec<(&str, std::path::PathBuf)> = vec![("checked", exe.clone())];
            if let Some(r) = &release {
                profiles.push(("release", r.clone()));
            }
            let mut digests: Vec<Vec<String>> = vec![];
            for (pname, pexe) in &profiles {
                let prefix = if *pname == "release" { "release:" } else { "" };
                let results: Vec<(u64, WorkerResult)> = std::thread::scope(|sc| {
                    let hs: Vec<_> = (0..nshares)
                        .map(|share| {
                            let pexe = pexe.clone();
                            sc.spawn(move || {
                                // a worker that dies is restarted after the fatal input
                                let mut out = vec![];
                                let mut skip = 0u64;
                                loop {
                                    let r = spawn_worker(&pexe, tier, fi, share, nshares, stack, skip, None, 20);
                                    let died = r.died_on;
                                    out.push(r);
                                    match died {
                                        Some(i) if out.len() < 50 => skip = i + 1,
                                        _ => break,
                                    }
                                }
                                (share, out)
                            })
                        })
                        .collect();
                    hs.into_iter().flat_map(|h| { let (s, v) = h.join().unwrap(); v.into_iter().map(move |r| (s, r)) }).collect()
                });
                let mut ds = vec![];
                for (share, r) in &results {
                    if let Some(j) = &r.report {
                        merge_worker(&mut rep, j, prefix);
                        ds.push(format!("{share}:{}", j["digest"].as_str().unwrap_or("")));
                    }
                    if let Some(i) = r.died_on {
                        let (label, bytes) = family_input(*f, i, &data);
                        rep.violation(
                            &format!("{prefix}worker-death|{}|stack={stack}KiB|{}", if label.is_empty() { hex(&bytes) } else { label.clone() }, r.status.replace(' ', "_")),
                            format!("the decoding process died ({}) while decoding {} ({label}) on a {stack} KiB stack", r.status, if bytes.len() > 64 { format!("{}.. ({} bytes)", hex(&bytes[..64]), bytes.len()) } else { hex(&bytes) }),
                            json!({"bytes": if bytes.len() > 4096 { "(long; regenerate from family/index)".to_string() } else { hex(&bytes) }, "family": format!("{f:?}"), "index": i, "label": label, "stack_kib": stack, "profile": pname}),
                        );
                        rep.outcome(&format!("{prefix}worker-death"));
                    }
                }
                ds.sort();
                digests.push(ds);
            }
            // (not for TwoDeep: whether a value near the stack limit is decoded or refused with "recursion limit"
            // depends on the frame sizes of the build; the property asks for a result, not for the same result)
            if digests.len() == 2 && digests[0] != digests[1] && *f != Family::TwoDeep {
                // outcomes (ok/err/panic per target and config) differ between the profiles
                rep.violation(
                    &format!("profiles-disagree|{f:?}|stack={stack}KiB"),
                    "checked and release builds disagree on Ok/Err/panic for at least one (input, target, config) of this family".into(),
                    json!({"family": format!("{f:?}"), "checked": digests[0], "release": digests[1]}),
                );
            }
            rep.level(&format!("{f:?} stack={stack}KiB ({} inputs)", total), total, !ctx.timed_out());
        }
        if ctx.timed_out() {
            rep.notes.push(format!("wall cap hit after family {f:?}"));
            break;
        }
    }
    rep.sample(json!({"family": "Hostile", "example": data.hostile[0].0, "bytes": hex(&data.hostile[0].1)}));
    rep.sample(json!({"family": "Mutants", "bytes": hex(&data.mutants[data.mutants.len() / 2])}));
    rep.notes.push(format!("targets: {} native ({}) + {} untyped; configurations: {}", NATIVE_TARGETS.len(), NATIVE_TARGETS.join(", "), UNTYPED_TARGETS, configs(tier).len()));
    finish(
        &ctx,
        rep,
        "inputs: all byte strings DIDL+s with |s|<=2 (thorough 3) over all 256 bytes and |s|<=4 (thorough 5) over a 24-byte alphabet of opcodes/counts/flags; every 1-byte deviation of valid messages of a small scope; hostile families (huge and over-long LEB128 counts at every count position of header and values, zero-sized element bombs up to 2^32-1 elements, vectors of every fixed-width element type and texts whose byte size count x width lies within 32 bytes of 2^63 and 2^64, recursive tables without progress, future-typed values with every small byte count against every shortfall of the remaining input, nesting depth 1..20000 of opt/vec/record/variant chains in the table and of recursive values; wire-supplied strings that diagnostics quote - service method names (valid, typed by a non-function, duplicated, unsorted), method names of function values and text values - with a 2-, 3- or 4-byte character straddling round byte offsets 8..1024 (quick: nine of them; thorough: 24) at every alignment, also cut inside the character; two and three values of type T = opt T nested d1, d2 deep in one message, d1 sweeping 20..4200 (quick: steps 3 / 10 / 60 per stack region and d2 = d1 - {0,2,8,32}; thorough: steps 1 / 2 / 10 and d2 = d1 - {0,1,2,4,8,16,32}), consumed as decode/decode, skip/decode, decode/skip) on 256 KiB / 1 MiB / 8 MiB stacks; each input x 20 native targets (incl. Vec of 2-, 4- and 8-byte numbers) + 6 untyped targets x 8-10 decoder configurations (quotas none/0/1/10/100/10000, skipping quota, full_error_message, max_type_len), in checked and release builds. Oracle: every call returns Ok or Err (a panic or a dead worker process is a violation, bisected to the input); under a decoding quota q peak allocation <= 4 MiB + 64*|input| + 64*q (counting global allocator); no progress while the worker consumes 20 s of CPU time is non-termination; checked and release agree on the outcome digest. Non-trivial = calls that returned Ok.",
        &["work proportional to the quota is decided through allocation and termination, not timing", "unmetered runs of explicit element bombs are restricted to 1000 elements"],
        json!({}),
    )
}
