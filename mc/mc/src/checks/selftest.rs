//! Oracle self-tests run by `./check --setup`: internal consistency of the reference
//! models and sanity of the generators. A failure here is a machinery error (exit 2).
use mclib::bridge;
use mclib::progs;
use refmodel::gen::{self, ValDomain};
use refmodel::ty::Env;
use refmodel::{coerce, sub, val, wire};

pub fn run() -> i32 {
    let mut bad = 0;
    // R2 decode . encode = id ; R4 reflexive ; R3 reflexive; R3 sound wrt R4 on scope values
    let t1 = gen::terms(&mclib::scopes::alphabet_data(&mclib::scopes::LEAVES_WIDE), 1);
    let env = Env::new();
    let dom = ValDomain::tiny();
    let mut n = 0u64;
    for t in &t1 {
        if !sub::subtype(&env, t, t) || !sub::equal(&env, t, t) {
            eprintln!("selftest: R3 not reflexive on {t}");
            bad += 1;
        }
        for v in gen::values(&env, t, &dom, 2) {
            n += 1;
            if !val::has_type(&env, &v, t) {
                eprintln!("selftest: generated value {v} not of type {t}");
                bad += 1;
            }
            let b = wire::encode(&env, &[t.clone()], &[v.clone()], true).unwrap();
            match wire::decode(&b, &wire::Limits::default()) {
                Ok(d) if d.vals == vec![v.clone()] => {}
                other => {
                    eprintln!("selftest: R2 roundtrip failed for {v} : {t}: {:?}", other.map(|d| d.vals));
                    bad += 1;
                }
            }
            if coerce::coerce(&env, &v, t, t) != Some(v.clone()) {
                eprintln!("selftest: R4 not reflexive on {v} : {t}");
                bad += 1;
            }
        }
    }
    let mut pairs = 0u64;
    for s in t1.iter().step_by(3) {
        for t in t1.iter().step_by(2) {
            if sub::subtype(&env, s, t) {
                pairs += 1;
                for v in gen::values(&env, s, &dom, 2) {
                    match coerce::coerce(&env, &v, s, t) {
                        Some(w) => {
                            if !val::has_type(&env, &w, t) {
                                eprintln!("selftest: R4 result {w} not of type {t}");
                                bad += 1;
                            }
                        }
                        None => {
                            eprintln!("selftest: R3 says {s} <: {t} but R4 undefined on {v}");
                            bad += 1;
                        }
                    }
                }
            }
        }
    }
    // generated programs: printer output parses and checks with the real front end, and
    // denotes what the model says (through the bridge)
    let progs = progs::default_programs(100000);
    let mut rejected = 0;
    for p in &progs {
        let src = p.to_did();
        let r: Result<(), String> = (|| {
            let ast: candid_parser::IDLProg = src.parse().map_err(|e| format!("parse: {e}"))?;
            let mut te = candid::TypeEnv::new();
            let actor = candid_parser::check_prog(&mut te, &ast).map_err(|e| format!("check: {e}"))?;
            let (menv, mactor) = p.to_model();
            let renv = bridge::from_real_env(&te)?;
            for (k, t) in &menv.0 {
                let rt = renv.0.get(k).ok_or(format!("missing def {k}"))?;
                let merged = menv.rename(&|s| format!("m.{s}")).merge_disjoint(&renv);
                if !sub::equal(&merged, &t.rename(&|s| format!("m.{s}")), rt) {
                    return Err(format!("definition {k} denotes a different type"));
                }
            }
            if mactor.is_some() != actor.is_some() {
                return Err("actor presence differs".into());
            }
            Ok(())
        })();
        if let Err(e) = r {
            rejected += 1;
            if rejected <= 10 {
                eprintln!("selftest: generated program not accepted as generated: {e}\n{src}");
            }
        }
    }
    println!("selftest: {} values, {} subtype pairs, {} programs ({} not accepted), {} model inconsistencies", n, pairs, progs.len(), rejected, bad);
    // (the reference decoder recurses on the value: deep messages of the suite need a big stack)
    bad += std::thread::Builder::new().stack_size(1 << 30).spawn(spec_suite).unwrap().join().unwrap_or(1);
    if bad > 0 {
        2
    } else {
        0
    }
}


/// The reference decoder (R2) and coercion (R4) against the specification's own test data
/// (`/repo/test/*.test.did`): every binary assertion is decided by the models alone and must come
/// out as the suite says. Text inputs are read by the real parser (they only supply the expected
/// value of `==` / `!=` assertions). Returns the number of disagreements.
fn spec_suite() -> u64 {
    use super::common::{model_decode_at, ModelOutcome};
    use candid_parser::test::{Input, Test};
    let repo = std::env::var("CANDID_REPO").unwrap_or_else(|_| "/repo".to_string());
    let lim = wire::Limits::default();
    let (mut agree, mut disagree, mut no_verdict, mut skipped) = (0u64, 0u64, 0u64, 0u64);
    let mut files = 0;
    let Ok(rd) = std::fs::read_dir(format!("{repo}/test")) else {
        println!("selftest: spec suite not found under {repo}/test (skipped)");
        return 0;
    };
    let mut paths: Vec<_> = rd.filter_map(|e| e.ok()).map(|e| e.path()).filter(|p| p.to_string_lossy().ends_with(".test.did")).collect();
    paths.sort();
    for path in paths {
        let Ok(src) = std::fs::read_to_string(&path) else { continue };
        let Ok(test) = src.parse::<Test>() else {
            eprintln!("selftest: spec suite file {} does not parse", path.display());
            continue;
        };
        files += 1;
        let mut te = candid::TypeEnv::new();
        let prog = candid_parser::IDLProg { decs: test.defs, actor: None };
        if candid_parser::check_prog(&mut te, &prog).is_err() {
            eprintln!("selftest: definitions of {} do not check", path.display());
            continue;
        }
        let Ok(menv) = bridge::from_real_env(&te) else { continue };
        for a in &test.asserts {
            let rtys: Result<Vec<candid::types::Type>, _> = a.typ.iter().map(|t| candid_parser::typing::ast_to_type(&te, &t.typ)).collect();
            let Ok(rtys) = rtys else {
                skipped += 1;
                continue;
            };
            let mut knots = Env::new();
            let mtys: Result<Vec<refmodel::ty::Ty>, String> = rtys.iter().map(|t| bridge::from_real_ty(t, &mut knots)).collect();
            let Ok(mtys) = mtys else {
                skipped += 1;
                continue;
            };
            let env = menv.merge_disjoint(&knots);
            // Some(Ok(values)) / Some(Err) = verdict of the models; None = no verdict (text input that
            // does not parse, or outside the models' budget)
            let eval = |i: &Input| -> Option<Result<Vec<val::Val>, String>> {
                match i {
                    Input::Blob(b) => match model_decode_at(b, &env, &mtys, &lim).0 {
                        ModelOutcome::Ok(vs) => Some(Ok(vs)),
                        ModelOutcome::Malformed(e) => Some(Err(e)),
                        ModelOutcome::NoCoercion => Some(Err("no coercion".into())),
                        ModelOutcome::OutOfScope(_) => None,
                    },
                    Input::Text(_) => match i.parse(&te, &rtys) {
                        Ok(args) => bridge::from_idl_args(&args).ok().map(Ok),
                        Err(_) => None,
                    },
                }
            };
            if std::env::var("SELFTEST_TRACE").is_ok() {
                eprintln!("trace: {} {:?}", path.display(), a.desc());
            }
            let blob_involved = matches!(a.left, Input::Blob(_)) || matches!(a.right, Some(Input::Blob(_)));
            if !blob_involved {
                skipped += 1;
                continue;
            }
            let l = eval(&a.left);
            let verdict: Option<bool> = match &a.right {
                None => l.map(|r| r.is_ok()),
                Some(r) => match (l, eval(r)) {
                    // `==` / `!=` : both decode, values equal / different
                    (Some(Ok(x)), Some(Ok(y))) => Some(if a.pass { x == y || x.iter().zip(&y).all(|(p, q)| val::sim(p, q)) && x.len() == y.len() } else { x == y }).map(|eq| if a.pass { eq } else { !eq }),
                    (Some(Err(_)), _) | (_, Some(Err(_))) => Some(false),
                    _ => None,
                },
            };
            let expected = if a.right.is_some() { true } else { a.pass };
            match verdict {
                None => no_verdict += 1,
                Some(v) if v == expected => agree += 1,
                Some(v) => {
                    disagree += 1;
                    eprintln!(
                        "selftest: spec suite {}: assertion {:?} expects {} but the models say {} (types {})",
                        path.file_name().unwrap().to_string_lossy(),
                        a.desc(),
                        expected,
                        v,
                        mtys.iter().map(|t| t.to_string()).collect::<Vec<_>>().join(", ")
                    );
                }
            }
        }
    }
    println!("selftest: spec suite: {files} files, {agree} binary assertions decided by R2/R4 as the suite says, {disagree} disagreements, {no_verdict} without verdict (budget / text side unparsable), {skipped} text-only assertions skipped");
    disagree
}
