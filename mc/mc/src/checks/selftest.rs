//! Oracle self-tests run by `./check --setup`: internal consistency of the reference
//! models and sanity of the generators. A failure here is a machinery error (exit 2).
use mclib::bridge;
use mclib::progs;
use refmodel::gen::{self, ValDomain};
use refmodel::ty::Env;
use refmodel::{coerce, sub, val, wire};

pub fn run() -> i32 {
    let mut bad = 0;
    // R2 decode . encode = id ; R4 reflexive ; R3 reflexive; R3 sound wrt R4 on scope values
    let t1 = gen::terms(&mclib::scopes::alphabet_data(&mclib::scopes::LEAVES_WIDE), 1);
    let env = Env::new();
    let dom = ValDomain::tiny();
    let mut n = 0u64;
    for t in &t1 {
        if !sub::subtype(&env, t, t) || !sub::equal(&env, t, t) {
            eprintln!("selftest: R3 not reflexive on {t}");
            bad += 1;
        }
        for v in gen::values(&env, t, &dom, 2) {
            n += 1;
            if !val::has_type(&env, &v, t) {
                eprintln!("selftest: generated value {v} not of type {t}");
                bad += 1;
            }
            let b = wire::encode(&env, &[t.clone()], &[v.clone()], true).unwrap();
            match wire::decode(&b, &wire::Limits::default()) {
                Ok(d) if d.vals == vec![v.clone()] => {}
                other => {
                    eprintln!("selftest: R2 roundtrip failed for {v} : {t}: {:?}", other.map(|d| d.vals));
                    bad += 1;
                }
            }
            if coerce::coerce(&env, &v, t, t) != Some(v.clone()) {
                eprintln!("selftest: R4 not reflexive on {v} : {t}");
                bad += 1;
            }
        }
    }
    let mut pairs = 0u64;
    for s in t1.iter().step_by(3) {
        for t in t1.iter().step_by(2) {
            if sub::subtype(&env, s, t) {
                pairs += 1;
                for v in gen::values(&env, s, &dom, 2) {
                    match coerce::coerce(&env, &v, s, t) {
                        Some(w) => {
                            if !val::has_type(&env, &w, t) {
                                eprintln!("selftest: R4 result {w} not of type {t}");
                                bad += 1;
                            }
                        }
                        None => {
                            eprintln!("selftest: R3 says {s} <: {t} but R4 undefined on {v}");
                            bad += 1;
                        }
                    }
                }
            }
        }
    }
    // generated programs: printer output parses and checks with the real front end, and
    // denotes what the model says (through the bridge)
    let progs = progs::default_programs(100000);
    let mut rejected = 0;
    for p in &progs {
        let src = p.to_did();
        let r: Result<(), String> = (|| {
            let ast: candid_parser::IDLProg = src.parse().map_err(|e| format!("parse: {e}"))?;
            let mut te = candid::TypeEnv::new();
            let actor = candid_parser::check_prog(&mut te, &ast).map_err(|e| format!("check: {e}"))?;
            let (menv, mactor) = p.to_model();
            let renv = bridge::from_real_env(&te)?;
            for (k, t) in &menv.0 {
                let rt = renv.0.get(k).ok_or(format!("missing def {k}"))?;
                let merged = menv.rename(&|s| format!("m.{s}")).merge_disjoint(&renv);
                if !sub::equal(&merged, &t.rename(&|s| format!("m.{s}")), rt) {
                    return Err(format!("definition {k} denotes a different type"));
                }
            }
            if mactor.is_some() != actor.is_some() {
                return Err("actor presence differs".into());
            }
            Ok(())
        })();
        if let Err(e) = r {
            rejected += 1;
            if rejected <= 10 {
                eprintln!("selftest: generated program not accepted as generated: {e}\n{src}");
            }
        }
    }
    println!("selftest: {} values, {} subtype pairs, {} programs ({} not accepted), {} model inconsistencies", n, pairs, progs.len(), rejected, bad);
    if bad > 0 {
        2
    } else {
        0
    }
}
