//! C07 — decoding quotas bound the work and never change the result (E1 + E4).
//! For every message of the scope the cost is measured with generous quotas; then EVERY
//! budget value 0..=cost+2 is replayed (each is a distinct abort point of the decoder).
use super::c02;
use super::common::*;
use super::corpus_all;
use candid::types::{Type, TypeEnv};
use candid::DecoderConfig;
use corpus::Native;
use mclib::bridge;
use mclib::engine::{catch, finish, Ctx, Report, Tier};
use refmodel::cost;
use refmodel::ty::{Env, Prim, Ty};
use refmodel::val::Val;
use refmodel::wire::{self, Limits};
use serde_json::json;

const GENEROUS: usize = 1_000_000_000;

#[derive(Clone, Debug, PartialEq)]
enum Out {
    Ok(Vec<Val>),
    Quota,
    Other(String),
    Panic(String),
}

fn is_quota(msg: &str) -> bool {
    msg.contains("exceeds the limit")
}

type Run<'a> = &'a dyn Fn(Option<usize>, Option<usize>) -> (Out, Option<usize>, Option<usize>);

fn untyped_run(bytes: &[u8], renv: &TypeEnv, rtys: &[Type], dq: Option<usize>, sq: Option<usize>) -> (Out, Option<usize>, Option<usize>) {
    let mut cfg = DecoderConfig::new();
    if let Some(q) = dq {
        cfg.set_decoding_quota(q);
    }
    if let Some(q) = sq {
        cfg.set_skipping_quota(q);
    }
    let r = catch(|| -> Result<(Vec<candid::IDLValue>, DecoderConfig), String> {
        let mut de = candid::de::IDLDeserialize::new_with_config(bytes, &cfg).map_err(|e| format!("{e:?}"))?;
        let mut out = vec![];
        for t in rtys {
            out.push(de.get_value_with_type(renv, t).map_err(|e| format!("{e:?}"))?);
        }
        de.done().map_err(|e| format!("{e:?}"))?;
        Ok((out, de.get_config().compute_cost(&cfg)))
    });
    match r {
        Err(p) => (Out::Panic(p), None, None),
        Ok(Err(e)) => (if is_quota(&e) { Out::Quota } else { Out::Other(first_line(&e)) }, None, None),
        Ok(Ok((vals, cost))) => {
            let vs: Result<Vec<Val>, String> = vals.iter().map(bridge::from_idl).collect();
            match vs {
                Ok(vs) => (Out::Ok(vs), cost.decoding_quota, cost.skipping_quota),
                Err(e) => (Out::Other(e), None, None),
            }
        }
    }
}

struct Msg {
    label: String,
    bytes: Vec<u8>,
    /// model view for the cost oracle
    model: Option<cost::Cost>,
    untyped: bool,
}

/// The E4 sweep on one message.
fn sweep(m: &Msg, run: Run, tier: Tier, rep: &mut Report) {
    rep.states += 1;
    let case = |extra: serde_json::Value| json!({"message": m.label, "bytes": hex(&m.bytes), "detail": extra});
    let key = |c: &str| format!("{c}|{}|{}", m.label, hex(&m.bytes));
    // unmetered run and measured cost
    let (base, _, _) = run(None, None);
    let Out::Ok(base_vals) = base.clone() else {
        rep.outcome("unmetered:not-ok");
        return;
    };
    let (g, cd, cs) = run(Some(GENEROUS), Some(GENEROUS));
    rep.transitions += 2;
    if g != base {
        rep.violation(&key("generous-quota-changes-result"), format!("unmetered {base:?}, with generous quotas {g:?}"), case(json!({})));
        return;
    }
    let (Some(cd), Some(cs)) = (cd, cs) else {
        rep.violation(&key("no-cost-reported"), "compute_cost returned no cost although quotas were set".into(), case(json!({})));
        return;
    };
    rep.count("sum_measured_decoding_cost", cd as u64);
    rep.outcome(if cs > 0 { "cost:with-skipping" } else { "cost:no-skipping" });
    // cost oracle
    if let Some(mc) = &m.model {
        rep.traces_validated += 1;
        if (cd as u64) < mc.nodes {
            rep.violation(&key("cost-below-node-count"), format!("decoding cost {cd} is below the {} value nodes materialised or skipped", mc.nodes), case(json!({"nodes": mc.nodes})));
        }
        if (cs as u64) < mc.skipped_nodes {
            rep.violation(&key("skipping-cost-below-skipped-nodes"), format!("skipping cost {cs} is below the {} skipped value nodes", mc.skipped_nodes), case(json!({"skipped_nodes": mc.skipped_nodes})));
        }
        // upper bound: a small constant multiple of the documented model
        // (a message whose whole model cost is at most TINY_MODEL is dominated by fixed per-attempt charges - a failed
        // attempt below an option keeps what it spent, at the 50x rate of untyped decoding - which the documented
        // formula, "roughly defined" by its own words, does not itemise: those get an additive allowance)
        let bound = UPPER_K * mc.decoding.max(1) + if mc.decoding <= TINY_MODEL { TINY_SLACK } else { 0 };
        if cd as u64 > bound {
            rep.violation(&key("cost-above-model"), format!("decoding cost {cd} exceeds {UPPER_K} x the documented model cost {}", mc.decoding), case(json!({"model": mc.decoding})));
        }
        // skipped data is charged to the skipping quota, and not more than the documented model says
        let sbound = UPPER_K * mc.skipping + SKIP_SLACK + if mc.decoding <= TINY_MODEL { TINY_SKIP_SLACK } else { 0 };
        if cs as u64 > sbound {
            rep.violation(
                &key("skipping-cost-above-model"),
                format!("skipping cost {cs} exceeds {UPPER_K} x the documented cost {} of the skipped values (+{SKIP_SLACK})", mc.skipping),
                case(json!({"model_skipping": mc.skipping})),
            );
        }
        if mc.skipping > 0 {
            let r = (cs as u64 * 100) / mc.skipping;
            let lo = r / 50 * 50;
            rep.outcome(&format!("skipping/model:{:04}-{:04}%", lo, lo + 49));
        } else {
            rep.outcome(&format!("skipping-with-nothing-skipped:{cs}"));
        }
        // distribution of measured cost / documented model (buckets of 50%)
        let ratio_pct = (cd as u64 * 100) / mc.decoding.max(1);
        let lo = ratio_pct / 50 * 50;
        rep.outcome(&format!("cost/model:{:04}-{:04}%", lo, lo + 49));
    }
    let cap = tier.pick(8_000, 60_000);
    if cd > cap || cs > cap {
        rep.count("messages_beyond_sweep_cap", 1);
        return;
    }
    rep.nontrivial += 1;
    // decoding quota sweep
    for (which, c) in [("decoding", cd), ("skipping", cs)] {
        let mut first_ok: Option<usize> = None;
        for q in 0..=c + 2 {
            let (o, d2, s2) = if which == "decoding" { run(Some(q), None) } else { run(None, Some(q)) };
            rep.evaluations += 1;
            rep.transitions += 1;
            rep.traces_validated += 1;
            match o {
                Out::Quota => {
                    if let Some(f) = first_ok {
                        rep.violation(&key(&format!("{which}-not-monotone")), format!("{which} quota {f} succeeds but the larger quota {q} fails"), case(json!({"quota": q})));
                        break;
                    }
                }
                Out::Ok(vals) => {
                    if vals != base_vals {
                        rep.violation(&key(&format!("{which}-quota-changes-result")), format!("with {which} quota {q} the result is {} instead of {}", vals_text(&vals), vals_text(&base_vals)), case(json!({"quota": q})));
                        break;
                    }
                    if first_ok.is_none() {
                        first_ok = Some(q);
                        rep.outcome(if q == c { "threshold:equals-measured-cost" } else { "threshold:below-measured-cost" });
                    }
                    let rc = if which == "decoding" { d2 } else { s2 };
                    if rc != Some(c) {
                        rep.violation(&key(&format!("{which}-cost-depends-on-quota")), format!("reported {which} cost is {rc:?} with quota {q}, {c} with a generous quota"), case(json!({"quota": q})));
                        break;
                    }
                }
                Out::Other(e) => {
                    rep.violation(&key(&format!("{which}-quota-other-error")), format!("{which} quota {q}: neither a quota error nor the unmetered result: {e}"), case(json!({"quota": q})));
                    break;
                }
                Out::Panic(p) => {
                    rep.violation(&key(&format!("{which}-quota-panic")), format!("{which} quota {q}: {p}"), case(json!({"quota": q})));
                    break;
                }
            }
        }
        match first_ok {
            None => rep.violation(&key(&format!("{which}-never-succeeds")), format!("no {which} quota up to measured cost + 2 = {} succeeds", c + 2), case(json!({}))),
            Some(f) if f > c => rep.violation(&key(&format!("{which}-threshold-above-cost")), format!("a {which} quota equal to the reported cost {c} is rejected (first success at {f})"), case(json!({}))),
            _ => {}
        }
    }
    // pairs around the thresholds
    for dq in [cd.saturating_sub(1), cd, cd + 1] {
        for sq in [cs.saturating_sub(1), cs, cs + 1] {
            let (o, _, _) = run(Some(dq), Some(sq));
            rep.evaluations += 1;
            rep.transitions += 1;
            let should_ok = dq >= cd && sq >= cs;
            match o {
                Out::Ok(v) if v == base_vals && should_ok => {}
                Out::Quota if !should_ok => {}
                other => rep.violation(&key("quota-pair"), format!("quotas ({dq}, {sq}) around costs ({cd}, {cs}) give {other:?}"), case(json!({"dq": dq, "sq": sq}))),
            }
        }
    }
}

/// chosen after measuring the unchanged tree (max observed ratio is reported in the
/// evidence as max_cost_over_model_percent); see DESIGN.md C07
const UPPER_K: u64 = 4;
/// slack of the skipping-cost bound (fixed per-message charges)
const SKIP_SLACK: u64 = 16;
/// model cost up to which a message counts as tiny, and the additive allowance such messages get on the upper bound
const TINY_MODEL: u64 = 256;
const TINY_SLACK: u64 = 2048;
/// the same for the skipping cost (a failed attempt below an option charges its probes to the skipping quota as well)
const TINY_SKIP_SLACK: u64 = 48;

pub fn run(tier: Tier, replay: Option<&str>) -> i32 {
    let lim = Limits::default();
    if replay.is_some() {
        println!("C07 cases carry the message bytes and label; re-run the quick tier to re-check them");
        return 2;
    }
    let ctx = Ctx::new("C07", tier, tier.pick(300, 1500));
    // ---- untyped family: the successful cases of C02's families B..F (every k-th)
    let (scope, _) = c02::build_scope(tier);
    let mut picked: Vec<&c02::Case> = vec![];
    let mut seen = std::collections::HashSet::new();
    for c in &scope.cases {
        // the every-quota sweep is quadratic in the message size: the longest length-boundary messages stay with C02
        if c.family.starts_with('A') || c.family.starts_with('H') || c.bytes.len() > 700 {
            continue;
        }
        if seen.insert((c.bytes.clone(), c.etys.clone())) {
            picked.push(c);
        }
    }
    let picked: Vec<&c02::Case> = picked.into_iter().step_by(tier.pick(29, 5)).collect();
    let mut rep = ctx.par_range("untyped API: messages x every quota", picked.len() as u64, 4, || (), |_, i, rep| {
        let c = picked[i as usize];
        let (mo, d) = model_decode_at(&c.bytes, &c.eenv, &c.etys, &lim);
        let (ModelOutcome::Ok(_), Some(d)) = (mo, d) else { return };
        let env = d.env.merge_disjoint(&c.eenv);
        let mc = cost::message(&env, d.header_len as u64, &d.vals, &d.tys, &c.etys, d.header.table.len() as u64, true);
        if !c.names.is_empty() || c.family.starts_with('T') {
            return;
        }
        let renv = bridge::to_real_env(&c.eenv);
        let rtys: Vec<Type> = c.etys.iter().map(bridge::to_real_ty).collect();
        let m = Msg { label: format!("untyped:{}:{}", c.family, tys_text(&c.etys)), bytes: c.bytes.clone(), model: Some(mc), untyped: true };
        let run = |dq: Option<usize>, sq: Option<usize>| untyped_run(&m.bytes, &renv, &rtys, dq, sq);
        sweep(&m, &run, tier, rep);
        if rep.samples.len() < 3 {
            rep.sample(json!({"message": m.label, "bytes": hex(&m.bytes), "model_cost": mc.decoding, "nodes": mc.nodes}));
        }
        let _ = m.untyped;
    });
    // ---- native family: every corpus type, own values; plus zero-sized element vectors
    let n = corpus_all::entries().len() as u64;
    let step = tier.pick(3, 1);
    let r2 = ctx.par_range("native targets: own values x every quota", n, 2, corpus_all::entries, |es, i, rep| {
        if i % step != 0 {
            return;
        }
        let e = &es[i as usize];
        let (menv, mty) = (e.model_ty)();
        for vi in 0..(e.nvals)() {
            let Ok((bytes, val)) = (e.encode)(vi) else { continue };
            let Ok(d) = wire::decode(&bytes, &lim) else { continue };
            let env = d.env.merge_disjoint(&menv);
            let mc = cost::message(&env, d.header_len as u64, &d.vals, &d.tys, &[mty.clone()], d.header.table.len() as u64, false);
            let m = Msg { label: format!("native:{}#{}", e.name, vi), bytes, model: Some(mc), untyped: false };
            let unordered = e.unordered;
            let run = |dq: Option<usize>, sq: Option<usize>| {
                let (o, a, b) = (e.decode_cfg)(&m.bytes, dq, sq);
                let o = match o {
                    Native::Ok { val, .. } => Out::Ok(vec![if unordered { corpus::canon(&val) } else { val }]),
                    Native::Err(s) => {
                        if is_quota(&s) {
                            Out::Quota
                        } else {
                            Out::Other(s)
                        }
                    }
                    Native::Panic(p) => Out::Panic(p),
                };
                (o, a, b)
            };
            sweep(&m, &run, tier, rep);
            let _ = &val;
        }
    });
    rep.merge(r2);
    // ---- native targets fed by a newer sender: every record of the wire type carries one surplus
    //      field (before, between, after the wanted fields; map entries included); small values and
    //      one large value per type, so that the wanted payload dominates the cost of the skipped field
    let extras = mclib::scopes::widen_extras();
    let n_extras = tier.pick(3, extras.len());
    let wstep = tier.pick(2, 1);
    let r3 = ctx.par_range("native targets: wire records with a surplus field x every quota", n, 2, corpus_all::entries, |es, i, rep| {
        if i % wstep != 0 {
            return;
        }
        let e = &es[i as usize];
        let (menv, mty) = (e.model_ty)();
        // values: the first and last small value, and a large one
        let mut vals: Vec<(String, Val)> = vec![];
        let nv = (e.nvals)();
        for vi in [0, nv.saturating_sub(1)] {
            if let Ok((_, v)) = (e.encode)(vi) {
                if !vals.iter().any(|x| x.1 == v) {
                    vals.push((format!("#{vi}"), v));
                }
            }
        }
        let mut ctr = 0u64;
        if let Some(v) = mclib::scopes::big_val(&menv, &mty, &mut ctr, 6, 4) {
            vals.push(("big".into(), v));
        }
        for (vname, v) in &vals {
            // the unchanged message decoded natively is the expected result of every widened one
            let Ok(orig) = wire::encode(&menv, &[mty.clone()], &[v.clone()], true) else { continue };
            let Native::Ok { val: expect, .. } = (e.decode)(&orig) else {
                rep.outcome("wide:base-value-not-decodable-natively");
                continue;
            };
            for pos in mclib::scopes::WIDEN_POSITIONS {
                for (xname, xt, xv) in extras.iter().take(n_extras) {
                    let wty = mclib::scopes::widen_ty(&mty, pos, xt);
                    let wenv = mclib::scopes::widen_env(&menv, pos, xt);
                    let wv = mclib::scopes::widen_val(v, pos, xv);
                    if wv == *v {
                        continue; // no record in this value
                    }
                    let Ok(bytes) = wire::encode(&wenv, &[wty.clone()], &[wv], true) else { continue };
                    let Ok(d) = wire::decode(&bytes, &lim) else { continue };
                    let env = d.env.merge_disjoint(&menv);
                    let mc = cost::message(&env, d.header_len as u64, &d.vals, &d.tys, &[mty.clone()], d.header.table.len() as u64, false);
                    let m = Msg { label: format!("native-wide:{}:{vname}:{pos:?}:{xname}", e.name), bytes, model: Some(mc), untyped: false };
                    let unordered = e.unordered;
                    let cv = |val: Val| if unordered { corpus::canon(&val) } else { val };
                    let run = |dq: Option<usize>, sq: Option<usize>| {
                        let (o, a, b) = (e.decode_cfg)(&m.bytes, dq, sq);
                        let o = match o {
                            Native::Ok { val, .. } => Out::Ok(vec![cv(val)]),
                            Native::Err(s) => {
                                if is_quota(&s) {
                                    Out::Quota
                                } else {
                                    Out::Other(s)
                                }
                            }
                            Native::Panic(p) => Out::Panic(p),
                        };
                        (o, a, b)
                    };
                    // (what the surplus field does to the decoded value is C02/C08's question; counted here)
                    match run(None, None).0 {
                        Out::Ok(got) if got == vec![cv(expect.clone())] => rep.outcome("wide:same-value-as-without-surplus-field"),
                        Out::Ok(_) => rep.outcome("wide:DIFFERENT-value-than-without-surplus-field"),
                        _ => rep.outcome("wide:not-decodable"),
                    }
                    sweep(&m, &run, tier, rep);
                }
            }
        }
    });
    rep.merge(r3);
    // ---- zero-sized element bombs and surplus data at native targets
    let zs = ctx.par_range("native targets: zero-sized elements and surplus arguments", 1, 1, corpus_all::entries, |es, _, rep| {
        let find = |n: &str| es.iter().find(|e| e.name == n).expect("type");
        let empty = Env::new();
        for (target, wt, len) in [("Vec<unit>", Ty::vec(Ty::Prim(Prim::Null)), 500usize), ("Vec<Reserved>", Ty::vec(Ty::Prim(Prim::Reserved)), 500)] {
            let e = find(target);
            let elem = match target {
                "Vec<unit>" => Val::Null,
                "Vec<Reserved>" => Val::Reserved,
                _ => Val::Record(vec![]),
            };
            for n in [0usize, 1, 17, len] {
                let v = Val::Vec(vec![elem.clone(); n]);
                let bytes = wire::encode(&empty, &[wt.clone()], &[v.clone()], true).unwrap();
                let d = wire::decode(&bytes, &lim).unwrap();
                let mc = cost::message(&d.env, d.header_len as u64, &d.vals, &d.tys, &[wt.clone()], d.header.table.len() as u64, false);
                let m = Msg { label: format!("native:{target}:zero-sized x{n}"), bytes, model: Some(mc), untyped: false };
                let run = |dq: Option<usize>, sq: Option<usize>| {
                    let (o, a, b) = (e.decode_cfg)(&m.bytes, dq, sq);
                    let o = match o {
                        Native::Ok { val, .. } => Out::Ok(vec![val]),
                        Native::Err(s) => {
                            if is_quota(&s) {
                                Out::Quota
                            } else {
                                Out::Other(s)
                            }
                        }
                        Native::Panic(p) => Out::Panic(p),
                    };
                    (o, a, b)
                };
                sweep(&m, &run, tier, rep);
            }
        }
        // surplus arguments after a u8: skipped values are charged to the skipping quota
        let e = find("u8");
        for extra in [Val::Vec(vec![Val::Null; 40]), Val::Text("surplus text".into()), Val::Vec(vec![Val::nat(300); 9])] {
            let et = match &extra {
                Val::Text(_) => Ty::Prim(Prim::Text),
                Val::Vec(xs) if xs.first() == Some(&Val::Null) => Ty::vec(Ty::Prim(Prim::Null)),
                _ => Ty::vec(Ty::Prim(Prim::Nat)),
            };
            let tys = vec![Ty::Prim(Prim::Nat8), et];
            let vals = vec![Val::NatN(8, 7), extra];
            let bytes = wire::encode(&empty, &tys, &vals, true).unwrap();
            let d = wire::decode(&bytes, &lim).unwrap();
            let mc = cost::message(&d.env, d.header_len as u64, &d.vals, &d.tys, &[Ty::Prim(Prim::Nat8)], d.header.table.len() as u64, false);
            let m = Msg { label: format!("native:u8 + surplus {}", tys[1]), bytes, model: Some(mc), untyped: false };
            let run = |dq: Option<usize>, sq: Option<usize>| {
                let (o, a, b) = (e.decode_cfg)(&m.bytes, dq, sq);
                let o = match o {
                    Native::Ok { val, .. } => Out::Ok(vec![val]),
                    Native::Err(s) => {
                        if is_quota(&s) {
                            Out::Quota
                        } else {
                            Out::Other(s)
                        }
                    }
                    Native::Panic(p) => Out::Panic(p),
                };
                (o, a, b)
            };
            sweep(&m, &run, tier, rep);
        }
    });
    rep.merge(zs);
    finish(
        &ctx,
        rep,
        "messages: successful (wire, expected) cases of the C02 scope families B-F through the untyped API (every k-th), every small value of every corpus Rust type through native decoding, vectors of 0/1/17/500 zero-sized elements, surplus arguments, and every corpus type fed by a widened wire type (each record, map entries included, carries one surplus field of type nat32 / text / opt record / vec text / float64 / int placed before, between or after the wanted fields; small values and one large value per type); for each message the cost (decoding, skipping) is measured with generous quotas, then EVERY decoding quota 0..=cost+2, every skipping quota 0..=cost+2 and the 9 quota pairs around the thresholds are replayed: each run is a quota error or exactly the unmetered result, success is monotone with threshold <= reported cost, reported cost is the same under every quota; cost >= value nodes materialised or skipped, skipping cost >= skipped nodes, cost <= 4 x documented model (4 x header bytes + C(v:t), 50x on skipped / untyped), skipping cost <= 4 x documented cost of the skipped values + 16. Non-trivial = messages whose sweeps ran.",
        &["R5 cost model as documented with set_decoding_quota; R2 node counts; R4 decides which parts are skipped", "upper-bound constant K=4 chosen from the measured maximum ratio on the unchanged tree (reported as max_cost_over_model_percent)"],
        json!({"upper_bound_K": UPPER_K}),
    )
}
