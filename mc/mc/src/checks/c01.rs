//! C01 — native encode/decode round trip is the identity, whatever ran before.
//! Part a (E1): every small value of every corpus type through four API pairs, and
//! two-argument messages over all ordered pairs of a reduced corpus.
//! Part b (E2): BFS over histories of type-derivation / builder / encode / decode
//! operations on memo-sensitive types; each history replayed on a fresh OS thread; states
//! merged on (memo snapshot, builder logs, decoder cursor).
use super::common::*;
use super::corpus_all;
use corpus::{Api, Entry, APIS};
use mclib::engine::{catch, finish, Ctx, Report, Tier};
use refmodel::val::Val;
use refmodel::wire::{self, Limits};
use serde_json::json;
use std::collections::HashSet;

fn fail_class(e: &str) -> String {
    for c in ["panic", "encode error", "decode error", "unread input", "value differs"] {
        if e.starts_with(c) {
            return c.replace(' ', "-");
        }
    }
    "other".into()
}

fn part_a(ctx: &Ctx, tier: Tier) -> Report {
    let names: Vec<String> = corpus_all::entries().iter().map(|e| e.name.clone()).collect();
    let n = names.len() as u64;
    let mut rep = ctx.par_range("a1:corpus-types x small-values x 4 APIs", n, 4, corpus_all::entries, |es, i, rep| {
        let e = &es[i as usize];
        rep.states += 1;
        let nv = (e.nvals)();
        let mut first_fail: std::collections::BTreeMap<String, (usize, String)> = Default::default();
        for vi in 0..nv {
            for api in APIS {
                rep.evaluations += 1;
                rep.transitions += 2;
                rep.traces_validated += 1;
                match (e.roundtrip)(vi, api) {
                    Ok(()) => {
                        rep.nontrivial += 1;
                        rep.outcome("roundtrip:identity");
                    }
                    Err(msg) => {
                        let cls = fail_class(&msg);
                        rep.outcome(&format!("roundtrip:{cls}"));
                        rep.violation_count += 1;
                        first_fail.entry(format!("{api:?}|{cls}")).or_insert((vi, msg));
                    }
                }
            }
        }
        for (k, (vi, msg)) in first_fail {
            // one key per (type, api, failure class); the first failing value is the case
            rep.violation_count -= 1;
            rep.violation(
                &format!("roundtrip|{}|{}", e.name, k),
                format!("{} value #{vi}: {msg}", e.name),
                json!({"part": "a1", "type": e.name, "value_index": vi, "api": k.split('|').next().unwrap()}),
            );
        }
        if i % 97 == 0 {
            rep.sample(json!({"type": e.name, "values": nv, "apis": 4}));
        }
    });
    // two-argument messages: all ordered pairs of a reduced corpus (every 9th type and all
    // derived/recursive ones), first and last small value of each
    let es0 = corpus_all::entries();
    let reduced: Vec<usize> = (0..es0.len())
        .filter(|i| i % tier.pick(23, 7) == 0 || ["MA", "MB", "List<u8>", "WrapList", "E1", "Tree", "S5", "S7", "BTreeMap<Int,Nat>", "BTreeMap<String,Nat>", "Vec<u8>", "Vec<Nat>", "Twin#1", "Twin#2", "G<Twin#1>", "G<Twin#2>"].contains(&es0[*i].name.as_str()))
        .collect();
    drop(es0);
    let m = reduced.len() as u64;
    let r2 = ctx.par_range("a2:two-argument messages over ordered pairs", m * m, 16, corpus_all::entries, |es, idx, rep| {
        let (a, b) = (&es[reduced[(idx / m) as usize]], &es[reduced[(idx % m) as usize]]);
        for (va, vb) in [(0usize, 0usize), ((a.nvals)() - 1, (b.nvals)() - 1)] {
            rep.evaluations += 1;
            rep.transitions += 5;
            rep.traces_validated += 1;
            let r: Result<(), String> = (|| {
                let mut bld = candid::ser::IDLBuilder::new();
                (a.arg_into)(&mut bld, va)?;
                (b.arg_into)(&mut bld, vb)?;
                let bytes = catch(|| bld.serialize_to_vec()).map_err(|p| format!("panic: {p}"))?.map_err(|e| format!("encode error: {e}"))?;
                let mut de = candid::de::IDLDeserialize::new(&bytes).map_err(|e| format!("decode error: {e}"))?;
                (a.get_from)(&mut de, va)?;
                (b.get_from)(&mut de, vb)?;
                de.done().map_err(|e| format!("unread input: {e}"))?;
                Ok(())
            })();
            match r {
                Ok(()) => {
                    rep.nontrivial += 1;
                    rep.outcome("pair:identity");
                }
                Err(msg) => {
                    let cls = fail_class(&msg);
                    rep.outcome(&format!("pair:{cls}"));
                    rep.violation(
                        &format!("pair|{}|{}|{cls}", a.name, b.name),
                        format!("({}, {}) values #({va},{vb}): {}", a.name, b.name, first_line(&msg)),
                        json!({"part": "a2", "types": [a.name, b.name], "value_indices": [va, vb]}),
                    );
                }
            }
        }
    });
    rep.merge(r2);
    rep.notes.push(format!("corpus: {} Rust types; two-argument messages over {} x {} ordered pairs", n, m, m));
    rep
}

// ---------------------------------------------------------------------------------------
// part b: histories

const HTYPES: [&str; 4] = ["MA", "MB", "List<u8>", "WrapList"];

#[derive(Clone, Copy, Debug, PartialEq, Eq, Hash)]
enum Op {
    Ty(usize),
    EnvClear,
    New(usize),
    Default(usize),
    Arg(usize, usize),
    Finish(usize),
    RoundTrip(usize),
    Open(usize),
    Get(usize),
    Done,
    Export(usize),
}

fn alphabet() -> Vec<Op> {
    let mut v = vec![];
    for t in 0..4 {
        v.push(Op::Ty(t));
    }
    v.push(Op::EnvClear);
    v.push(Op::New(0));
    v.push(Op::Default(0));
    v.push(Op::New(1));
    for b in 0..2 {
        for t in [0, 2, 3] {
            v.push(Op::Arg(b, t));
        }
    }
    v.push(Op::Finish(0));
    v.push(Op::Finish(1));
    for t in 0..4 {
        v.push(Op::RoundTrip(t));
    }
    v.push(Op::Open(0));
    v.push(Op::Open(2));
    v.push(Op::Get(0));
    v.push(Op::Get(2));
    v.push(Op::Done);
    v.push(Op::Export(1));
    v
}

struct Builder {
    b: candid::ser::IDLBuilder,
    how: &'static str,
    pushed: Vec<(usize, Val)>,
    finishes: usize,
}

struct Outcome {
    digest: String,
    /// observation of the last operation; Err = property violated
    last: Result<String, String>,
    /// whether the last op was enabled (guard held)
    enabled: bool,
}

/// Replay a history on the current (fresh) thread.
fn replay(hist: &[Op], es: &[Entry], msgs: &'static [Vec<u8>]) -> Outcome {
    let lim = Limits::default();
    let mut builders: [Option<Builder>; 2] = [None, None];
    let mut decoder: Option<(candid::de::IDLDeserialize<'static>, usize, usize)> = None; // (de, type, taken)
    let mut last: Result<String, String> = Ok(String::new());
    let mut enabled = true;
    for (k, op) in hist.iter().enumerate() {
        let is_last = k + 1 == hist.len();
        let mut obs: Result<String, String> = Ok(String::new());
        let mut en = true;
        match *op {
            Op::Ty(t) => {
                obs = Ok((es[t].touch_ty)());
            }
            Op::EnvClear => candid::types::internal::env_clear(),
            Op::New(b) => {
                builders[b] = Some(Builder { b: candid::ser::IDLBuilder::new(), how: "new", pushed: vec![], finishes: 0 })
            }
            Op::Default(b) => {
                builders[b] = Some(Builder { b: candid::ser::IDLBuilder::default(), how: "default", pushed: vec![], finishes: 0 })
            }
            Op::Arg(b, t) => match &mut builders[b] {
                Some(bl) if bl.pushed.len() < 2 && bl.finishes == 0 => match (es[t].arg_into)(&mut bl.b, 0) {
                    Ok(v) => bl.pushed.push((t, v)),
                    Err(e) => obs = Err(format!("arg({}) on builder created by {}: {e}", es[t].name, bl.how)),
                },
                _ => en = false,
            },
            Op::Finish(b) => match &mut builders[b] {
                Some(bl) if bl.finishes < 2 => {
                    bl.finishes += 1;
                    match catch(|| bl.b.serialize_to_vec()) {
                        Err(p) => obs = Err(format!("serialize panics: {p}")),
                        Ok(Err(e)) => obs = Err(format!("serialize fails on builder created by {}: {e}", bl.how)),
                        Ok(Ok(bytes)) => {
                            // the message must be well-formed and carry exactly the pushed values
                            match wire::decode(&bytes, &lim) {
                                Err(e) => obs = Err(format!("finish #{} produced a malformed message ({e:?}): {}", bl.finishes, hex(&bytes))),
                                Ok(d) => {
                                    let want: Vec<Val> = bl.pushed.iter().map(|p| p.1.clone()).collect();
                                    if d.vals != want {
                                        obs = Err(format!("message carries {} instead of {}", vals_text(&d.vals), vals_text(&want)));
                                    } else {
                                        // and the real decoder reads it back at the same Rust types
                                        let r: Result<(), String> = (|| {
                                            let mut de = candid::de::IDLDeserialize::new(&bytes).map_err(|e| format!("{e}"))?;
                                            for (t, _) in &bl.pushed {
                                                (es[*t].get_from)(&mut de, 0)?;
                                            }
                                            de.done().map_err(|e| format!("{e}"))
                                        })();
                                        match r {
                                            Ok(()) => obs = Ok(hex(&bytes)),
                                            Err(e) => obs = Err(format!("own decoder rejects the message: {}", first_line(&e))),
                                        }
                                    }
                                }
                            }
                        }
                    }
                }
                _ => en = false,
            },
            Op::RoundTrip(t) => match (es[t].roundtrip)(0, Api::Macros) {
                Ok(()) => obs = Ok("identity".into()),
                Err(e) => obs = Err(format!("Encode!/Decode! of {}: {e}", es[t].name)),
            },
            Op::Open(t) => match candid::de::IDLDeserialize::new(&msgs[t]) {
                Ok(de) => decoder = Some((de, t, 0)),
                Err(e) => obs = Err(format!("cannot open own message: {e}")),
            },
            Op::Get(t) => match &mut decoder {
                Some((de, mt, taken)) if *mt == t && *taken == 0 => {
                    *taken += 1;
                    match (es[t].get_from)(de, 0) {
                        Ok(()) => obs = Ok("value".into()),
                        Err(e) => obs = Err(format!("get_value::<{}>: {e}", es[t].name)),
                    }
                }
                _ => en = false,
            },
            Op::Done => match &mut decoder {
                Some((de, _, taken)) if *taken == 1 => {
                    match de.done() {
                        Ok(()) => obs = Ok("done".into()),
                        Err(e) => obs = Err(format!("done: {e}")),
                    }
                    decoder = None;
                }
                _ => en = false,
            },
            Op::Export(t) => match (es[t].export)() {
                Ok(s) => obs = Ok(s),
                Err(p) => obs = Err(format!("TypeContainer::add panics: {p}")),
            },
        }
        if is_last {
            last = obs;
            enabled = en;
        }
    }
    // digest: memo restricted to the alphabet's types + builders + decoder
    let mut d = String::new();
    for e in es.iter().take(HTYPES.len()) {
        d.push_str(&(e.memo_probe)());
        d.push('|');
    }
    for b in &builders {
        match b {
            None => d.push_str("-;"),
            Some(bl) => {
                d.push_str(&format!("{}:{:?}:{};", bl.how, bl.pushed.iter().map(|p| p.0).collect::<Vec<_>>(), bl.finishes));
            }
        }
    }
    match &decoder {
        None => d.push('-'),
        Some((_, t, k)) => d.push_str(&format!("dec{t}:{k}")),
    }
    Outcome { digest: d, last, enabled }
}

fn run_on_fresh_thread<T: Send + 'static>(f: impl FnOnce() -> T + Send + 'static) -> T {
    std::thread::Builder::new().stack_size(4 << 20).spawn(f).unwrap().join().unwrap()
}

fn history_entries() -> Vec<Entry> {
    let mut all = corpus_all::entries();
    let mut out = vec![];
    for n in HTYPES {
        let i = all.iter().position(|e| e.name == n).expect("history type in corpus");
        out.push(all.swap_remove(i));
    }
    out
}

fn part_b(ctx: &Ctx, tier: Tier) -> Report {
    let depth = tier.pick(4, 5);
    let alpha = alphabet();
    // reference messages (leaked: decoders borrow them for 'static)
    let msgs: &'static [Vec<u8>] = {
        let v: Vec<Vec<u8>> = run_on_fresh_thread(|| history_entries().iter().map(|e| (e.encode)(0).map(|x| x.0).unwrap_or_default()).collect());
        Box::leak(v.into_boxed_slice())
    };
    let mut rep = Report::new();
    let mut seen: HashSet<String> = HashSet::new();
    let init = run_on_fresh_thread(move || replay(&[], &history_entries(), msgs));
    seen.insert(init.digest);
    rep.states += 1;
    let mut frontier: Vec<Vec<Op>> = vec![vec![]];
    for d in 1..=depth {
        // expand the whole level in parallel: (history, op) pairs
        let work: Vec<(usize, usize)> = (0..frontier.len()).flat_map(|h| (0..alpha.len()).map(move |o| (h, o))).collect();
        let results: std::sync::Mutex<Vec<(usize, usize, String, Result<String, String>, bool)>> = std::sync::Mutex::new(vec![]);
        let fr = &frontier;
        let al = &alpha;
        let lr = ctx.par_range(&format!("b:history depth {d}"), work.len() as u64, 8, || (), |_, i, _rep| {
            let (h, o) = work[i as usize];
            let mut hist = fr[h].clone();
            hist.push(al[o]);
            let out = run_on_fresh_thread(move || replay(&hist, &history_entries(), msgs));
            results.lock().unwrap().push((h, o, out.digest, out.last, out.enabled));
        });
        let completed = lr.exhaustive;
        rep.merge(lr);
        let mut res = results.into_inner().unwrap();
        res.sort_by_key(|r| (r.0, r.1));
        let mut next: Vec<Vec<Op>> = vec![];
        for (h, o, digest, last, enabled) in res {
            if !enabled {
                continue;
            }
            rep.transitions += 1;
            rep.evaluations += 1;
            rep.traces_validated += 1;
            let mut hist = frontier[h].clone();
            hist.push(alpha[o]);
            match last {
                Ok(_) => {
                    rep.nontrivial += 1;
                    rep.outcome(&format!("history-op-ok:{}", opname(&alpha[o])));
                    if seen.insert(digest) {
                        rep.states += 1;
                        next.push(hist);
                    }
                }
                Err(msg) => {
                    rep.outcome(&format!("history-op-fails:{}", opname(&alpha[o])));
                    // minimal key: the failing op and the shortest history class
                    let hs: Vec<String> = hist.iter().map(|x| format!("{x:?}")).collect();
                    rep.violation(
                        &format!("history|{}", hs.join(",")),
                        format!("after [{}]: {}", hs[..hs.len() - 1].join(", "), first_line(&msg)),
                        json!({"part": "b", "history": hs}),
                    );
                    // failed states are not extended
                }
            }
        }
        if !completed {
            break;
        }
        if rep.samples.len() < 6 && !next.is_empty() {
            rep.sample(json!({"history": next[next.len() / 2].iter().map(|x| format!("{x:?}")).collect::<Vec<_>>()}));
        }
        rep.notes.push(format!("b: depth {d}: {} new states, {} total", next.len(), seen.len()));
        frontier = next;
        if frontier.is_empty() {
            break;
        }
    }
    rep
}

fn opname(o: &Op) -> &'static str {
    match o {
        Op::Ty(_) => "ty",
        Op::EnvClear => "env_clear",
        Op::New(_) => "new",
        Op::Default(_) => "default",
        Op::Arg(..) => "arg",
        Op::Finish(_) => "finish",
        Op::RoundTrip(_) => "roundtrip",
        Op::Open(_) => "open",
        Op::Get(_) => "get",
        Op::Done => "done",
        Op::Export(_) => "export",
    }
}

fn parse_op(s: &str) -> Op {
    let nums: Vec<usize> = s.chars().filter(|c| c.is_ascii_digit()).map(|c| c.to_digit(10).unwrap() as usize).collect();
    if s.starts_with("Ty") {
        Op::Ty(nums[0])
    } else if s.starts_with("EnvClear") {
        Op::EnvClear
    } else if s.starts_with("New") {
        Op::New(nums[0])
    } else if s.starts_with("Default") {
        Op::Default(nums[0])
    } else if s.starts_with("Arg") {
        Op::Arg(nums[0], nums[1])
    } else if s.starts_with("Finish") {
        Op::Finish(nums[0])
    } else if s.starts_with("RoundTrip") {
        Op::RoundTrip(nums[0])
    } else if s.starts_with("Open") {
        Op::Open(nums[0])
    } else if s.starts_with("Get") {
        Op::Get(nums[0])
    } else if s.starts_with("Export") {
        Op::Export(nums[0])
    } else {
        Op::Done
    }
}

pub fn run(tier: Tier, replay_path: Option<&str>) -> i32 {
    if let Some(path) = replay_path {
        return replay_case(path);
    }
    let ctx = Ctx::new("C01", tier, tier.pick(300, 1500));
    let mut rep = part_a(&ctx, tier);
    rep.merge(part_b(&ctx, tier));
    finish(
        &ctx,
        rep,
        "part a: every corpus Rust type (cross product of 21 element types under Option/Vec/VecDeque/LinkedList/[T;2]/Box/nested/tuple/Result/generic struct/recursive List/maps, 8 key types x 21 value types under BTreeMap, HashMap and nested maps, sets and heaps, derived structs/enums incl. renames, raw identifiers, serde_bytes, rc/arc, recursive and mutually recursive types, function/service references) x every small value x {Encode!/Decode!, encode_args/decode_args, encode_one/decode_one, IDLBuilder+IDLDeserialize+done}; two-argument messages over all ordered pairs of a reduced corpus. part b: BFS over operation histories (Ty, env_clear, IDLBuilder::new/default on two slots, arg, serialize (twice), Encode!/Decode!, open/get_value/done, TypeContainer::add) on the memo-sensitive types MA/MB (mutually recursive), List<u8>, WrapList; each history replayed on a fresh OS thread; states merged on (memo snapshot, builder logs, decoder cursor); every produced message decoded by R2 and by the real decoder. Non-trivial = identity round trips / successful history operations.",
        &["Cor::to_val / to_ty (corpus crate) are the specified Rust->Candid mapping", "R2 strict decoder"],
        json!({}),
    )
}

fn replay_case(path: &str) -> i32 {
    let s = std::fs::read_to_string(path).expect("replay file");
    let v: serde_json::Value = serde_json::from_str(&s).expect("json");
    let c = &v["case"];
    match c["part"].as_str() {
        Some("b") => {
            let hist: Vec<Op> = c["history"].as_array().unwrap().iter().map(|x| parse_op(x.as_str().unwrap())).collect();
            let msgs: &'static [Vec<u8>] = {
                let v: Vec<Vec<u8>> = run_on_fresh_thread(|| history_entries().iter().map(|e| (e.encode)(0).map(|x| x.0).unwrap_or_default()).collect());
                Box::leak(v.into_boxed_slice())
            };
            let h2 = hist.clone();
            let out = run_on_fresh_thread(move || replay(&h2, &history_entries(), msgs));
            println!("history {:?}\nlast op: {:?}", hist, out.last);
            println!("// plain test: run the listed calls in order on a fresh thread; types: 0=MA 1=MB 2=List<u8> 3=WrapList (see mc/corpus/src/types.rs)");
            if out.last.is_err() {
                println!("REPRODUCED");
                1
            } else {
                println!("not reproduced");
                0
            }
        }
        Some("a1") => {
            let name = c["type"].as_str().unwrap();
            let vi = c["value_index"].as_u64().unwrap() as usize;
            let es = corpus_all::entries();
            let e = es.iter().find(|e| e.name == name).expect("type");
            let mut bad = 0;
            for api in APIS {
                let r = (e.roundtrip)(vi, api);
                println!("{name} value #{vi} via {api:?}: {r:?}");
                if r.is_err() {
                    bad += 1;
                }
            }
            if bad > 0 {
                println!("REPRODUCED");
                1
            } else {
                println!("not reproduced");
                0
            }
        }
        _ => {
            println!("pair cases: re-run the quick tier");
            2
        }
    }
}
