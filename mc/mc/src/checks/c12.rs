//! C12 — printing an interface as .did text and re-checking it yields an equal
//! interface (E1 over U_P and over the Rust corpus exports).
use super::common::*;
use super::corpus_all;
use candid::types::subtype::{equal, Gamma};
use candid::types::{Type, TypeEnv};
use candid_parser::utils::{get_metadata, instantiate_candid, service_equal, CandidSource};
use mclib::bridge;
use mclib::engine::{catch, finish, Ctx, Report, Tier};
use mclib::progs::{self, Prog};
use refmodel::sub;
use refmodel::ty::{Env, Ty};
use serde_json::json;

fn front_end(src: &str) -> Result<(TypeEnv, Option<Type>, candid_parser::syntax::IDLMergedProg), String> {
    let ast: candid_parser::IDLProg = src.parse().map_err(|e| format!("parse: {e}"))?;
    let mut te = TypeEnv::new();
    let actor = candid_parser::check_prog(&mut te, &ast).map_err(|e| format!("check: {e}"))?;
    Ok((te, actor, candid_parser::syntax::IDLMergedProg::new(ast)))
}

/// compare a re-checked (env2, actor2) with the model of the original program
fn same_interface(menv: &Env, mactor: &Option<Ty>, env2: &TypeEnv, actor2: &Option<Type>, only_reachable: bool) -> Result<(), String> {
    let renv = bridge::from_real_env(env2)?;
    let m = menv.rename(&|s| format!("m.{s}"));
    let merged = m.merge_disjoint(&renv);
    for (k, t) in &menv.0 {
        match renv.0.get(k) {
            Some(rt) => {
                if !sub::equal(&merged, &t.rename(&|s| format!("m.{s}")), rt) {
                    return Err(format!("definition {k} differs: original {t}, re-checked {rt}"));
                }
            }
            None => {
                if !only_reachable {
                    return Err(format!("definition {k} is missing after printing"));
                }
            }
        }
    }
    match (mactor, actor2) {
        (None, None) => Ok(()),
        (Some(a), Some(b)) => {
            let mut knots = Env::new();
            let b = bridge::from_real_ty(b, &mut knots)?;
            if sub::equal(&merged, &a.rename(&|s| format!("m.{s}")), &b) {
                Ok(())
            } else {
                Err(format!("service differs: original {a}, re-checked {b}"))
            }
        }
        _ => Err("actor presence differs".into()),
    }
}

/// `\u{X}` with X >= 0x80 replaced by the character itself (generated programs have escapes in string literals only)
fn unescape_non_ascii(src: &str) -> String {
    let mut out = String::new();
    let mut rest = src;
    while let Some(i) = rest.find("\\u{") {
        // an escaped backslash before `u{` is not an escape: count the backslashes that precede
        let bs = rest[..i].chars().rev().take_while(|c| *c == '\\').count();
        let after = &rest[i + 3..];
        let end = after.find('}');
        let cp = end.and_then(|e| u32::from_str_radix(&after[..e], 16).ok());
        match (bs % 2 == 0, end, cp.and_then(char::from_u32)) {
            (true, Some(e), Some(c)) if (c as u32) >= 0x80 => {
                out.push_str(&rest[..i]);
                out.push(c);
                rest = &after[e + 1..];
            }
            _ => {
                out.push_str(&rest[..i + 3]);
                rest = after;
            }
        }
    }
    out.push_str(rest);
    out
}

fn check_prog(p: &Prog, rep: &mut Report) {
    let src = p.to_did();
    rep.states += 1;
    let key = |c: &str| format!("{c}|{}", src.replace('\n', " "));
    let case = |extra: &str| json!({"program": src, "printed": extra});
    let (menv, mactor) = p.to_model();
    // the generated text spells every non-ASCII character as `\u{..}`; if the front end does not take that spelling,
    // the same program with the characters written literally is the subject (the printers choose their own spelling)
    let first = catch(|| front_end(&src));
    let first = match first {
        Ok(Err(e)) => {
            let raw = unescape_non_ascii(&src);
            match (raw != src).then(|| catch(|| front_end(&raw))) {
                Some(Ok(Ok(x))) => {
                    rep.count("front_end_takes_the_literal_spelling_only", 1);
                    Ok(Ok(x))
                }
                _ => Ok(Err(e)),
            }
        }
        other => other,
    };
    let (te, actor, ast) = match first {
        Ok(Ok(x)) => x,
        Ok(Err(e)) => {
            // the generator only produces well-formed programs; C14 decides acceptance
            rep.count("front_end_rejects_generated_program", 1);
            rep.notes.push(format!("front end rejects a generated program: {e}: {}", src.replace('\n', " ")));
            return;
        }
        Err(pn) => {
            rep.violation(&key("front-end-panic"), pn, case(""));
            return;
        }
    };
    // the two printers
    let printers: Vec<(&str, Box<dyn Fn() -> String>)> = vec![
        ("pretty::candid::compile", Box::new(|| candid::pretty::candid::compile(&te, &actor))),
        ("syntax::pretty_print", Box::new(|| candid_parser::syntax::pretty_print(&ast))),
    ];
    for (name, pr) in &printers {
        rep.evaluations += 1;
        rep.transitions += 3;
        let out = match catch(|| pr()) {
            Ok(s) => s,
            Err(pn) => {
                rep.violation(&key(&format!("{name}-panic")), pn, case(""));
                continue;
            }
        };
        if catch(|| pr()).ok().as_ref() != Some(&out) {
            rep.violation(&key(&format!("{name}-nondeterministic")), "two runs print different text".into(), case(&out));
        }
        rep.traces_validated += 1;
        match catch(|| front_end(&out)) {
            Err(pn) => rep.violation(&key(&format!("{name}-reparse-panic")), pn, case(&out)),
            Ok(Err(e)) => {
                rep.outcome(&format!("{name}:does-not-recheck"));
                rep.violation(&key(&format!("{name}-does-not-recheck")), format!("printed text does not parse/check: {}", first_line(&e)), case(&out));
            }
            Ok(Ok((te2, actor2, _))) => {
                // the type-level printer prints only what is reachable? it prints the whole env
                match same_interface(&menv, &mactor, &te2, &actor2, false) {
                    Ok(()) => {
                        rep.nontrivial += 1;
                        rep.outcome(&format!("{name}:equal"));
                    }
                    Err(e) => {
                        rep.outcome(&format!("{name}:differs"));
                        rep.violation(&key(&format!("{name}-differs")), e, case(&out));
                    }
                }
                // the implementation's own equality must agree (every definition, both envs merged)
                let mut ok_real = true;
                for k in te2.0.keys() {
                    if te.0.contains_key(k) {
                        let mut merged = te.clone();
                        let v: Type = candid::types::TypeInner::Var(k.clone()).into();
                        let v2 = merged.merge_type(te2.clone(), v.clone());
                        if catch(|| equal(&mut Gamma::new(), &merged, &v, &v2).is_ok()) != Ok(true) {
                            ok_real = false;
                        }
                    }
                }
                if !ok_real {
                    rep.violation(&key(&format!("{name}-real-equal-differs")), "candid's own `equal` does not relate a definition to its re-checked print".into(), case(&out));
                }
                if actor.is_some() {
                    rep.transitions += 3;
                    if catch(|| service_equal(CandidSource::Text(&src), CandidSource::Text(&out)).is_ok()) != Ok(true) {
                        rep.violation(&key(&format!("{name}-service_equal")), "service_equal(original, printed) fails".into(), case(&out));
                    }
                    match catch(|| instantiate_candid(CandidSource::Text(&out)).map(|_| ())) {
                        Ok(Ok(())) => {}
                        other => rep.violation(&key(&format!("{name}-instantiate_candid")), format!("instantiate_candid on the printed text: {other:?}"), case(&out)),
                    }
                }
            }
        }
    }
    // get_metadata prints the service for the canister metadata section
    if actor.is_some() {
        rep.transitions += 1;
        match catch(|| get_metadata(&te, &actor)) {
            Err(pn) => rep.violation(&key("get_metadata-panic"), pn, case("")),
            Ok(None) => rep.violation(&key("get_metadata-none"), "get_metadata returns None for a program with a service".into(), case("")),
            Ok(Some(md)) => match catch(|| front_end(&md)) {
                Ok(Ok((te2, actor2, _))) => {
                    // metadata has no init args: compare the service part only
                    let ma = mactor.clone().map(|a| if let Ty::Class(_, s) = a { *s } else { a });
                    if let Err(e) = same_interface(&menv, &ma, &te2, &actor2, true) {
                        rep.violation(&key("get_metadata-differs"), e, case(&md));
                    }
                }
                other => rep.violation(&key("get_metadata-does-not-recheck"), format!("{:?}", other.map(|r| r.map(|_| ()))), case(&md)),
            },
        }
    }
    if rep.samples.len() < 3 {
        rep.sample(json!({"program": src}));
    }
}

pub fn run(tier: Tier, replay: Option<&str>) -> i32 {
    if let Some(path) = replay {
        let s = std::fs::read_to_string(path).expect("replay file");
        let v: serde_json::Value = serde_json::from_str(&s).expect("json");
        let src = v["case"]["program"].as_str().unwrap_or("");
        println!("program:\n{src}");
        match front_end(src) {
            Ok((te, actor, ast)) => {
                for (n, out) in [("pretty::candid::compile", candid::pretty::candid::compile(&te, &actor)), ("syntax::pretty_print", candid_parser::syntax::pretty_print(&ast))] {
                    println!("--- {n}:\n{out}\n--- re-check: {:?}", front_end(&out).map(|_| ()));
                }
                return 1;
            }
            Err(e) => {
                println!("front end: {e}");
                return 1;
            }
        }
    }
    let ctx = Ctx::new("C12", tier, tier.pick(240, 1200));
    let mut progs = progs::default_programs(200_000);
    progs.extend(progs::plain_programs(200_000));
    progs.extend(progs::escape_programs());
    progs.extend(progs::id_programs());
    progs.extend(progs::alias_method_programs());
    progs.extend(progs::shape_programs());
    progs.dedup();
    let n = progs.len() as u64;
    let mut rep = ctx.par_range("U_P programs x two printers", n, 16, || (), |_, i, rep| {
        check_prog(&progs[i as usize], rep);
    });
    // Rust side: TypeContainer exports of the corpus
    let m = corpus_all::entries().len() as u64;
    let r2 = ctx.par_range("Rust corpus: TypeContainer export, printed and re-checked", m, 8, corpus_all::entries, |es, i, rep| {
        // every export runs on a fresh thread: the name tables are thread-local
        let name = es[i as usize].name.clone();
        let idx = i as usize;
        let out = std::thread::spawn(move || {
            let es = corpus_all::entries();
            let e = &es[idx];
            ((e.export)(), (e.model_ty)())
        })
        .join();
        rep.evaluations += 1;
        rep.transitions += 2;
        rep.states += 1;
        let Ok((exp, (menv, mty))) = out else {
            rep.violation(&format!("export-thread-died|{name}"), "export thread died".into(), json!({"type": name}));
            return;
        };
        match exp {
            Err(p) => rep.violation(&format!("export-panic|{name}"), p, json!({"type": name})),
            Ok(text) => {
                let (envs, ty) = text.split_once("\n=> ").unwrap_or((text.as_str(), ""));
                // `type X = ...` lines printed by Display of TypeEnv lack the `;`
                let mut env_src = String::new();
                for l in envs.lines().filter(|l| !l.trim().is_empty()) {
                    if l.starts_with("type ") && !env_src.is_empty() {
                        env_src.push_str(";\n");
                    }
                    env_src.push_str(l);
                    env_src.push('\n');
                }
                if !env_src.is_empty() {
                    env_src.push_str(";\n");
                }
                rep.traces_validated += 1;
                match catch(|| parse_env_and_types(&env_src, &format!("({ty})"))) {
                    Ok(Ok((renv, rtys))) => {
                        let merged = menv.rename(&|s| format!("m.{s}")).merge_disjoint(&renv);
                        if rtys.len() == 1 && sub::equal(&merged, &mty.rename(&|s| format!("m.{s}")), &rtys[0]) {
                            rep.nontrivial += 1;
                            rep.outcome("export:equal");
                        } else {
                            rep.outcome("export:differs");
                            rep.violation(&format!("export-differs|{name}"), format!("exported text denotes a different type than {mty}: {}", text.replace('\n', " ")), json!({"type": name, "exported": text}));
                        }
                    }
                    other => {
                        rep.outcome("export:does-not-recheck");
                        rep.violation(
                            &format!("export-does-not-recheck|{name}"),
                            format!("exported environment does not parse/check: {:?}: {}", other.map(|r| r.map(|_| ())), text.replace('\n', " ")),
                            json!({"type": name, "exported": text}),
                        );
                    }
                }
            }
        }
    });
    rep.merge(r2);
    rep.notes.push(format!("{n} programs (default_programs + plain_programs), {m} Rust corpus types"));
    finish(
        &ctx,
        rep,
        "programs = U_P (well-formed by construction: every type constructor; numeric, named, quoted, keyword, target-language-keyword and hostile labels and method names in every position; every one- and two-character name over 17 escape-relevant characters as field label, variant tag and method name; numeric ids of every decimal length (1..10 digits, at the digit-group boundaries); service definitions whose methods go through alias chains to a function definition, under all 24 assignments of ordered names to the roles, in dependency order and reversed; recursive and mutually recursive definitions; service constructors with init args; definitions aliasing functions and services; named-service actors). Each is parsed and checked by the real front end, printed by pretty::candid::compile and by syntax::pretty_print, re-parsed and re-checked; every definition and the service must be structurally equal (R3 bisimulation through the bridge, and candid's own equal / service_equal) to the program's denotation; printing twice gives identical text; instantiate_candid and get_metadata work on the result. Rust side: TypeContainer::add of every corpus type on a fresh thread, printed, re-parsed, compared with the specified type. Non-trivial = prints that re-check to an equal interface.",
        &["Prog::to_did / to_model (trusted printer and denotation of generated programs)", "R3 structural equality"],
        json!({}),
    )
}
