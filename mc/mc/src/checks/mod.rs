use mclib::engine::Tier;

pub mod common;
pub mod c01;
pub mod c02;
pub mod corpus_all;
pub mod c03;
pub mod c04;
pub mod c05;
pub mod c06;
pub mod c07;
pub mod c08;
pub mod c10;
pub mod c12;
pub mod selftest;

pub fn dispatch(id: &str, tier: Tier, replay: Option<&str>, rest: &[String]) -> i32 {
    match id {
        "C01" => c01::run(tier, replay),
        "C02" => c02::run(tier, replay),
        "C03" => c03::run(tier, replay),
        "C04" => c04::run(tier, replay),
        "C05" => c05::run(tier, replay),
        "C06" => c06::run(tier, replay, rest),
        "C07" => c07::run(tier, replay),
        "C08" => c08::run(tier, replay),
        "C10" => c10::run(tier, replay),
        "C12" => c12::run(tier, replay),
        "selftest" => selftest::run(),
        _ => {
            eprintln!("unknown property {id}");
            2
        }
    }
}
