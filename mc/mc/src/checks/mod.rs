use mclib::engine::Tier;

pub mod common;
pub mod c02;
pub mod c05;
pub mod selftest;

pub fn dispatch(id: &str, tier: Tier, replay: Option<&str>, rest: &[String]) -> i32 {
    let _ = rest;
    match id {
        "C02" => c02::run(tier, replay),
        "C05" => c05::run(tier, replay),
        "selftest" => selftest::run(),
        _ => {
            eprintln!("unknown property {id}");
            2
        }
    }
}
