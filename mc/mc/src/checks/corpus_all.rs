//! The assembled corpus registry (shares are separate crates so they compile in parallel).
use corpus::Entry;

pub fn entries() -> Vec<Entry> {
    let mut v = vec![];
    corpus1::register(&mut v);
    corpus2::register(&mut v);
    corpus3::register(&mut v);
    corpus4::register(&mut v);
    corpus5::register(&mut v);
    corpus6::register(&mut v);
    // names are unique
    let mut seen = std::collections::HashSet::new();
    v.retain(|e| seen.insert(e.name.clone()));
    v
}
