//! C10 — untyped values survive annotate, encode and decode at their type; near-miss
//! values are rejected by annotation and typed encoding. (E1 + E3)
use super::common::*;
use super::corpus_all;
use candid::types::value::IDLValue;
use candid::types::{Type, TypeEnv};
use candid::IDLArgs;
use mclib::bridge;
use mclib::engine::{catch, finish, Ctx, Report, Tier};
use mclib::scopes::*;
use refmodel::gen::{self, ValDomain};
use refmodel::ty::{Env, Prim, Ty, P};
use refmodel::val::{has_type, has_type_liberal, has_type_liberal_ext, liberal_norm, Val};
use refmodel::wire::{self, Limits};
use refmodel::{hash, sub};
use serde_json::json;

#[derive(Clone)]
pub struct Triple {
    pub env: Env,
    pub t: Ty,
    pub v: Val,
    pub family: &'static str,
}

fn key_of(tr: &Triple, clause: &str) -> String {
    format!("{clause}|env={}|t={}|v={}", tr.env.to_string().replace('\n', " "), tr.t, tr.v)
}
fn case_of(tr: &Triple) -> serde_json::Value {
    json!({"env": tr.env.to_string(), "type": tr.t.to_string(), "value": tr.v.to_string(), "family": tr.family})
}

/// position of each variant tag must be the index in the (sorted) type
fn check_variant_indices(env: &Env, t: &Ty, v: &IDLValue) -> Result<(), String> {
    let t = env.unf(t).map_err(|e| format!("{e:?}"))?;
    match (v, t) {
        (IDLValue::Variant(vv), Ty::Variant(fs)) => {
            let id = vv.0.id.get_id();
            let pos = fs.iter().position(|f| f.0 == id).ok_or("tag not in type")?;
            if vv.1 != pos as u64 {
                return Err(format!("variant index {} for tag {} at position {}", vv.1, id, pos));
            }
            check_variant_indices(env, &fs[pos].1, &vv.0.val)
        }
        (IDLValue::Opt(x), Ty::Opt(t)) => check_variant_indices(env, t, x),
        (IDLValue::Vec(xs), Ty::Vec(t)) => xs.iter().try_for_each(|x| check_variant_indices(env, t, x)),
        (IDLValue::Record(fs), Ty::Record(ts)) => {
            for f in fs {
                if let Some((_, t)) = ts.iter().find(|x| x.0 == f.id.get_id()) {
                    check_variant_indices(env, t, &f.val)?;
                }
            }
            Ok(())
        }
        _ => Ok(()),
    }
}

pub fn check_triple(tr: &Triple, rep: &mut Report, lim: &Limits) {
    let renv: TypeEnv = bridge::to_real_env(&tr.env);
    let rt: Type = bridge::to_real_ty(&tr.t);
    rep.states += 1;
    for blob in [false, true] {
        let iv = match bridge::to_idl(&tr.v, blob) {
            Ok(x) => x,
            Err(_) => return,
        };
        if blob && bridge::to_idl(&tr.v, false).ok().map(|x| x == iv).unwrap_or(false) {
            continue; // no blob in this value: same case
        }
        rep.evaluations += 1;
        // 1. annotate, both modes
        for from_parser in [false, true] {
            rep.transitions += 1;
            rep.traces_validated += 1;
            match catch(|| iv.annotate_type(from_parser, &renv, &rt)) {
                Err(p) => rep.violation(&key_of(tr, &format!("annotate({from_parser})-panic")), p, case_of(tr)),
                Ok(Err(e)) => rep.violation(
                    &key_of(tr, &format!("annotate({from_parser})-rejects")),
                    format!("annotate_type({from_parser}) rejects a value of the type: {}", first_line(&e.to_string())),
                    case_of(tr),
                ),
                Ok(Ok(av)) => match bridge::from_idl(&av) {
                    Ok(m) if m == tr.v => {
                        if let Err(e) = check_variant_indices(&tr.env, &tr.t, &av) {
                            rep.violation(&key_of(tr, "annotate-variant-index"), e, case_of(tr));
                        }
                    }
                    Ok(m) => rep.violation(
                        &key_of(tr, &format!("annotate({from_parser})-changes-meaning")),
                        format!("annotate_type({from_parser}) returns {m}"),
                        case_of(tr),
                    ),
                    Err(e) => rep.violation(&key_of(tr, "annotate-bridge"), e, case_of(tr)),
                },
            }
        }
        // 2. typed encoding, well-formedness, decoding back (typed and untyped)
        rep.transitions += 3;
        let args = IDLArgs::new(&[iv.clone()]);
        match catch(|| args.to_bytes_with_types(&renv, &[rt.clone()])) {
            Err(p) => rep.violation(&key_of(tr, "encode-panic"), p, case_of(tr)),
            Ok(Err(e)) => rep.violation(&key_of(tr, "encode-rejects"), format!("to_bytes_with_types rejects: {}", first_line(&e.to_string())), case_of(tr)),
            Ok(Ok(bytes)) => {
                rep.nontrivial += 1;
                rep.outcome(&format!("{}:encoded", tr.family));
                rep.traces_validated += 3;
                // independent decoder reads back the same types and values
                match wire::decode(&bytes, lim) {
                    Err(e) => rep.violation(&key_of(tr, "encode-malformed"), format!("message is not well-formed ({e:?}): {}", hex(&bytes)), case_of(tr)),
                    Ok(d) => {
                        if d.vals != vec![tr.v.clone()] {
                            rep.violation(&key_of(tr, "encode-wrong-value"), format!("message denotes {} : {}", vals_text(&d.vals), tys_text(&d.tys)), case_of(tr));
                        } else {
                            let merged = d.env.merge_disjoint(&tr.env);
                            if d.tys.len() != 1 || !sub::equal(&merged, &d.tys[0], &tr.t) {
                                rep.violation(&key_of(tr, "encode-wrong-type"), format!("message declares type {} in table {}", tys_text(&d.tys), d.env.to_string().replace('\n', " ")), case_of(tr));
                            }
                        }
                    }
                }
                let back = impl_decode_at(&bytes, &renv, &[rt.clone()]);
                if back != ImplOutcome::Ok(vec![tr.v.clone()]) {
                    rep.violation(&key_of(tr, "decode-typed"), format!("from_bytes_with_types gives {back:?}"), case_of(tr));
                }
                let back = impl_decode_untyped(&bytes);
                if back != ImplOutcome::Ok(vec![tr.v.clone()]) {
                    rep.violation(&key_of(tr, "decode-untyped"), format!("from_bytes gives {back:?}"), case_of(tr));
                }
                // encoding twice gives identical bytes
                if let Ok(Ok(b2)) = catch(|| IDLArgs::new(&[iv.clone()]).to_bytes_with_types(&renv, &[rt.clone()])) {
                    if b2 != bytes {
                        rep.violation(&key_of(tr, "encode-nondeterministic"), "two encodings differ".into(), case_of(tr));
                    }
                }
            }
        }
        // 3. untyped encoding with the inferred (principal) type, for values whose vectors
        //    are homogeneous (the documented contract of `to_bytes`): well-formed, and
        //    `from_bytes` returns the value
        if homogeneous(&iv) {
            rep.transitions += 2;
            match catch(|| IDLArgs::new(&[iv.clone()]).to_bytes()) {
                Err(p) => rep.violation(&key_of(tr, "to_bytes-panic"), p, case_of(tr)),
                Ok(Err(e)) => rep.violation(&key_of(tr, "to_bytes-rejects"), first_line(&e.to_string()), case_of(tr)),
                Ok(Ok(bytes)) => {
                    rep.traces_validated += 2;
                    match wire::decode(&bytes, lim) {
                        Err(e) => rep.violation(&key_of(tr, "to_bytes-malformed"), format!("to_bytes message not well-formed ({e:?}): {}", hex(&bytes)), case_of(tr)),
                        Ok(d) => {
                            if d.vals != vec![tr.v.clone()] {
                                rep.violation(&key_of(tr, "to_bytes-wrong-value"), format!("to_bytes message denotes {}", vals_text(&d.vals)), case_of(tr));
                            }
                        }
                    }
                    let back = impl_decode_untyped(&bytes);
                    if back != ImplOutcome::Ok(vec![tr.v.clone()]) {
                        rep.violation(&key_of(tr, "to_bytes-roundtrip"), format!("from_bytes(to_bytes(v)) gives {back:?}"), case_of(tr));
                    }
                }
            }
        }
    }
    if rep.samples.len() < 3 {
        rep.sample(json!({"env": tr.env.to_string(), "type": tr.t.to_string(), "value": tr.v.to_string()}));
    }
}

/// all elements of every vector have the same inferred type (recursively)
fn homogeneous(v: &IDLValue) -> bool {
    match v {
        IDLValue::Vec(xs) => {
            xs.iter().all(homogeneous) && xs.windows(2).all(|w| w[0].value_ty() == w[1].value_ty())
        }
        IDLValue::Opt(x) => homogeneous(x),
        IDLValue::Record(fs) => fs.iter().all(|f| homogeneous(&f.val)),
        IDLValue::Variant(x) => homogeneous(&x.0.val),
        _ => true,
    }
}

/// E3: near-miss values of `v : t` — wrong number width / kind, missing non-optional
/// field, unknown variant tag, wrong reference kind, one wrong element in a vector.
pub fn near_misses(env: &Env, t: &Ty, v: &Val) -> Vec<Val> {
    let mut out: Vec<Val> = vec![];
    let t = match env.unf(t) {
        Ok(t) => t,
        Err(_) => return out,
    };
    let mut root = |m: Val, out: &mut Vec<Val>| {
        if m != *v && !out.contains(&m) {
            out.push(m);
        }
    };
    match (v, t) {
        (Val::Nat(n), _) => {
            root(Val::NatN(8, 7), &mut out);
            root(Val::NatN(64, 7), &mut out);
            root(Val::IntN(32, 7), &mut out);
            root(Val::Text(n.to_string()), &mut out);
            root(Val::Bool(true), &mut out);
        }
        (Val::Int(_), _) => {
            root(Val::IntN(8, -7), &mut out);
            root(Val::IntN(64, -7), &mut out);
            root(Val::NatN(16, 7), &mut out);
            root(Val::F64(0), &mut out);
            root(Val::Null, &mut out);
        }
        (Val::NatN(b, n), _) => {
            for w in [8u8, 16, 32, 64] {
                if w != *b {
                    root(Val::NatN(w, *n & 0x7f), &mut out);
                }
            }
            root(Val::IntN(*b, (*n & 0x7f) as i64), &mut out);
            root(Val::nat(*n & 0x7f), &mut out);
        }
        (Val::IntN(b, n), _) => {
            for w in [8u8, 16, 32, 64] {
                if w != *b {
                    root(Val::IntN(w, *n & 0x3f), &mut out);
                }
            }
            root(Val::NatN(*b, (*n & 0x3f) as u64), &mut out);
            root(Val::int(*n & 0x3f), &mut out);
        }
        // (a float64 literal at float32 is a documented conversion of parser mode, not a near-miss)
        (Val::F32(_), _) => root(Val::nat(1), &mut out),
        (Val::F64(_), _) => root(Val::F32(0x3fc00000), &mut out),
        (Val::Bool(_), _) => {
            root(Val::NatN(8, 1), &mut out);
            root(Val::Null, &mut out);
        }
        (Val::Text(_), _) => {
            root(Val::blob(b"a"), &mut out);
            root(Val::nat(1), &mut out);
        }
        (Val::Null, Ty::Prim(Prim::Null)) => {
            root(Val::Bool(false), &mut out);
            root(Val::Opt(None), &mut out);
        }
        (Val::Principal(p), _) => {
            root(Val::Service(p.clone()), &mut out);
            root(Val::Func(p.clone(), "m".into()), &mut out);
            root(Val::blob(p), &mut out);
        }
        (Val::Service(p), _) => {
            root(Val::Principal(p.clone()), &mut out);
            root(Val::Func(p.clone(), "m".into()), &mut out);
        }
        (Val::Func(p, _), _) => {
            root(Val::Principal(p.clone()), &mut out);
            root(Val::Service(p.clone()), &mut out);
        }
        (Val::Opt(Some(x)), Ty::Opt(tx)) => {
            for m in near_misses(env, tx, x) {
                root(Val::some(m), &mut out);
            }
        }
        (Val::Vec(xs), Ty::Vec(tx)) => {
            for i in 0..xs.len() {
                for m in near_misses(env, tx, &xs[i]) {
                    let mut ys = xs.clone();
                    ys[i] = m;
                    root(Val::Vec(ys), &mut out);
                }
            }
        }
        (Val::Record(fs), Ty::Record(ts)) => {
            for i in 0..fs.len() {
                if !env.nullish(&ts[i].1) {
                    let mut g = fs.clone();
                    g.remove(i);
                    root(Val::Record(g), &mut out);
                }
                for m in near_misses(env, &ts[i].1, &fs[i].1) {
                    let mut g = fs.clone();
                    g[i].1 = m;
                    root(Val::Record(g), &mut out);
                }
            }
            root(Val::Vec(fs.iter().map(|f| f.1.clone()).collect()), &mut out);
        }
        (Val::Variant(l, x), Ty::Variant(ts)) => {
            // undeclared tag
            let mut nl = l.wrapping_add(1);
            while ts.iter().any(|f| f.0 == nl) {
                nl = nl.wrapping_add(1);
            }
            root(Val::Variant(nl, x.clone()), &mut out);
            if let Some((_, tx)) = ts.iter().find(|f| f.0 == *l) {
                for m in near_misses(env, tx, x) {
                    root(Val::Variant(*l, Box::new(m)), &mut out);
                }
            }
            // a declared tag with the payload of another one
            for (l2, t2) in ts {
                if l2 != l && !has_type_liberal(env, x, t2) {
                    root(Val::Variant(*l2, x.clone()), &mut out);
                }
            }
        }
        _ => {}
    }
    out
}

/// E3b: values that are of type `t` only through the stated allowances (a nat where an int is
/// expected — with magnitudes on both sides of every (S)LEB128 group boundary —, anything where
/// reserved is expected, null where an option is expected, an absent field of null/opt/reserved
/// type, a float64 literal at float32), applied at every position of `v`.
pub fn allowance_values(env: &Env, t: &Ty, v: &Val) -> Vec<Val> {
    let mut out: Vec<Val> = vec![];
    let t = match env.unf(t) {
        Ok(t) => t,
        Err(_) => return out,
    };
    let root = |m: Val, out: &mut Vec<Val>| {
        if m != *v && !out.contains(&m) {
            out.push(m);
        }
    };
    match (v, t) {
        (_, Ty::Prim(Prim::Reserved)) => {
            for m in [Val::nat(64), Val::Text("x".into()), Val::Null, Val::some(Val::Bool(true)), Val::record(vec![(0, Val::NatN(8, 1))])] {
                root(m, &mut out);
            }
        }
        (Val::Int(_), Ty::Prim(Prim::Int)) => {
            for n in [0u64, 63, 64, 100, 127, 128, 8191, 8192, 16383, 1 << 20, (1 << 21) - 1, u64::MAX] {
                root(Val::nat(n), &mut out);
            }
        }
        (Val::F32(_), Ty::Prim(Prim::Float32)) => {
            root(Val::F64(1.5f64.to_bits()), &mut out);
            root(Val::F64(0.1f64.to_bits()), &mut out);
        }
        (Val::Opt(o), Ty::Opt(tx)) => {
            root(Val::Null, &mut out);
            root(Val::Reserved, &mut out);
            if let Some(x) = o {
                for m in allowance_values(env, tx, x) {
                    root(Val::some(m), &mut out);
                }
            }
        }
        (Val::Vec(xs), Ty::Vec(tx)) => {
            for i in 0..xs.len().min(2) {
                for m in allowance_values(env, tx, &xs[i]) {
                    let mut ys = xs.clone();
                    ys[i] = m;
                    root(Val::Vec(ys), &mut out);
                }
            }
        }
        (Val::Record(fs), Ty::Record(ts)) if fs.len() == ts.len() => {
            for i in 0..fs.len() {
                if env.nullish(&ts[i].1) {
                    let mut g = fs.clone();
                    g.remove(i);
                    root(Val::Record(g), &mut out);
                }
                for m in allowance_values(env, &ts[i].1, &fs[i].1) {
                    let mut g = fs.clone();
                    g[i].1 = m;
                    root(Val::Record(g), &mut out);
                }
            }
        }
        (Val::Variant(l, x), Ty::Variant(ts)) => {
            if let Some((_, tx)) = ts.iter().find(|f| f.0 == *l) {
                for m in allowance_values(env, tx, x) {
                    root(Val::Variant(*l, Box::new(m)), &mut out);
                }
            }
        }
        _ => {}
    }
    out
}

/// an allowance value must be accepted, and the message must denote its normal form at `t`
fn check_allowance(tr: &Triple, m: &Val, rep: &mut Report, lim: &Limits) {
    let Some(norm) = liberal_norm(&tr.env, m, &tr.t, true) else { return };
    let renv: TypeEnv = bridge::to_real_env(&tr.env);
    let rt: Type = bridge::to_real_ty(&tr.t);
    let Ok(iv) = bridge::to_idl(m, false) else { return };
    rep.evaluations += 1;
    rep.transitions += 3;
    let case = || {
        let mut c = case_of(tr);
        c["allowance_value"] = json!(m.to_string());
        c["denotes"] = json!(norm.to_string());
        c
    };
    let key = |clause: &str| format!("{clause}|env={}|t={}|m={}", tr.env.to_string().replace('\n', " "), tr.t, m);
    match catch(|| IDLArgs::new(&[iv.clone()]).to_bytes_with_types(&renv, &[rt.clone()])) {
        Err(p) => rep.violation(&key("allowance-encode-panic"), p, case()),
        Ok(Err(e)) => rep.violation(&key("allowance-encode-rejects"), format!("to_bytes_with_types rejects a value allowed at the type: {}", first_line(&e.to_string())), case()),
        Ok(Ok(bytes)) => {
            rep.traces_validated += 3;
            rep.outcome("allowance:encoded");
            match wire::decode(&bytes, lim) {
                Err(e) => rep.violation(&key("allowance-encode-malformed"), format!("message is not well-formed ({e:?}): {}", hex(&bytes)), case()),
                Ok(d) => {
                    let merged = d.env.merge_disjoint(&tr.env);
                    if d.vals != vec![norm.clone()] {
                        rep.violation(&key("allowance-encode-wrong-value"), format!("message {} denotes {} : {}", hex(&bytes), vals_text(&d.vals), tys_text(&d.tys)), case());
                    } else if d.tys.len() != 1 || !sub::equal(&merged, &d.tys[0], &tr.t) {
                        rep.violation(&key("allowance-encode-wrong-type"), format!("message declares type {}", tys_text(&d.tys)), case());
                    } else {
                        rep.nontrivial += 1;
                    }
                }
            }
            let back = impl_decode_at(&bytes, &renv, &[rt.clone()]);
            if back != ImplOutcome::Ok(vec![norm.clone()]) {
                rep.violation(&key("decode-typed"), format!("allowance value: from_bytes_with_types gives {back:?}"), case());
            }
        }
    }
    // parser-mode annotation accepts it and returns a value of the type
    match catch(|| iv.annotate_type(true, &renv, &rt)) {
        Err(p) => rep.violation(&key("allowance-annotate-panic"), p, case()),
        Ok(Err(e)) => rep.violation(&key("allowance-annotate-rejects"), first_line(&e.to_string()), case()),
        Ok(Ok(_)) => {}
    }
}

fn check_near_miss(tr: &Triple, m: &Val, rep: &mut Report) {
    let renv: TypeEnv = bridge::to_real_env(&tr.env);
    let rt: Type = bridge::to_real_ty(&tr.t);
    let Ok(iv) = bridge::to_idl(m, false) else { return };
    // typed encoding and parser-mode annotation convert a float64 literal to float32
    let want = has_type_liberal_ext(&tr.env, m, &tr.t, true);
    rep.evaluations += 1;
    rep.transitions += 3;
    rep.traces_validated += 3;
    rep.outcome(if want { "near-miss:still-typed" } else { "near-miss:ill-typed" });
    let case = || {
        let mut c = case_of(tr);
        c["mutant"] = json!(m.to_string());
        c
    };
    let key = |clause: &str| format!("{clause}|env={}|t={}|m={}", tr.env.to_string().replace('\n', " "), tr.t, m);
    // typed encoding and parser-mode annotation: accepted iff typed (with the allowances)
    let enc = catch(|| IDLArgs::new(&[iv.clone()]).to_bytes_with_types(&renv, &[rt.clone()]).is_ok());
    let ann = catch(|| iv.annotate_type(true, &renv, &rt).is_ok());
    for (name, got) in [("to_bytes_with_types", enc), ("annotate_type(true)", ann)] {
        match got {
            Err(p) => rep.violation(&key(&format!("near-miss-panic:{name}")), p, case()),
            Ok(g) if g != want => rep.violation(
                &key(&format!("near-miss:{name}")),
                format!("{name} {} a value that is {} of the type", if g { "accepts" } else { "rejects" }, if want { "" } else { "not" }),
                case(),
            ),
            _ => {}
        }
    }
    // liberal annotation: only type safety of whatever it returns
    match catch(|| iv.annotate_type(false, &renv, &rt)) {
        Err(p) => rep.violation(&key("near-miss-panic:annotate(false)"), p, case()),
        Ok(Ok(av)) => match bridge::from_idl(&av) {
            Ok(r) => {
                if !has_type(&tr.env, &r, &tr.t) {
                    rep.violation(&key("annotate(false)-unsafe"), format!("annotate_type(false) returns {r}, which is not of type {}", tr.t), case());
                }
            }
            Err(e) => rep.violation(&key("annotate(false)-bridge"), e, case()),
        },
        Ok(Err(_)) => {}
    }
}

pub fn build(tier: Tier) -> (Vec<Triple>, Vec<String>) {
    let mut out = vec![];
    let mut notes = vec![];
    let empty = Env::new();
    let dom = ValDomain::boundary();
    let all_prims = [
        P::Null, P::Bool, P::Nat, P::Int, P::Nat8, P::Nat16, P::Nat32, P::Nat64, P::Int8, P::Int16, P::Int32, P::Int64, P::Float32,
        P::Float64, P::Text, P::Reserved, P::Principal,
    ];
    // A: every primitive and depth-1 constructor over every primitive, boundary values
    let t1 = gen::terms(&alphabet_data(&all_prims), 1);
    for t in &t1 {
        for v in gen::values(&empty, t, &dom, 2) {
            out.push(Triple { env: empty.clone(), t: t.clone(), v, family: "A:depth1-boundary" });
        }
    }
    notes.push(format!("A: {} types, {} triples", t1.len(), out.len()));
    // B: depth-2 (wrappers around depth-1 over the narrow leaves), tiny values
    let n0 = out.len();
    let t1n = gen::terms(&alphabet_data(&LEAVES_WIDE), 1);
    let tiny = ValDomain::tiny();
    let wrap: Vec<Box<dyn Fn(Ty) -> Ty>> = vec![
        Box::new(Ty::opt),
        Box::new(Ty::vec),
        Box::new(|t| Ty::record(vec![(1, t), (hash::idl_hash("a"), p(P::Nat))])),
        Box::new(|t| Ty::variant(vec![(0, p(P::Null)), (1, t.clone()), (4294967295, t)])),
    ];
    for w in &wrap {
        for t in t1n.iter().step_by(tier.pick(2, 1)) {
            let ty = w(t.clone());
            for v in gen::values(&empty, &ty, &tiny, 3) {
                out.push(Triple { env: empty.clone(), t: ty.clone(), v, family: "B:depth2-tiny" });
            }
        }
    }
    notes.push(format!("B: {} triples", out.len() - n0));
    // C: recursive environments incl. aliases of primitives and alias chains
    let n0 = out.len();
    for (env, t) in recursive_envs("") {
        for v in gen::values(&env, &t, &tiny, tier.pick(4, 5)) {
            out.push(Triple { env: env.clone(), t: t.clone(), v, family: "C:recursive" });
        }
    }
    // a definition literally called table0 (the decoder's own naming of wire entries)
    let env = Env::from(vec![("table0", Ty::opt(Ty::record(vec![(0, p(P::Nat)), (1, Ty::var("table0"))]))), ("table1", p(P::Text))]);
    for v in gen::values(&env, &Ty::var("table0"), &tiny, 3) {
        out.push(Triple { env: env.clone(), t: Ty::var("table0"), v, family: "C:recursive-named-table0" });
    }
    notes.push(format!("C: {} triples", out.len() - n0));
    // D: references
    let n0 = out.len();
    for t in gen::terms(&alphabet_refs(), 2).into_iter().filter(|t| matches!(t, Ty::Func(_) | Ty::Service(_))).step_by(tier.pick(5, 1)) {
        for v in gen::values(&empty, &t, &dom, 1) {
            out.push(Triple { env: empty.clone(), t: t.clone(), v, family: "D:references" });
        }
    }
    notes.push(format!("D: {} triples", out.len() - n0));
    // E: all depth-2 terms over the narrow leaves (every constructor under every constructor)
    let n0 = out.len();
    let t2 = gen::terms(&alphabet_data(&LEAVES_NARROW), 2);
    let small = ValDomain { cap: 6, ..ValDomain::tiny() };
    for t in t2.iter().skip(t1n.len().min(81)).step_by(tier.pick(7, 1)) {
        let vs = gen::values(&empty, t, &small, 3);
        let n = vs.len();
        for (k, v) in vs.into_iter().enumerate() {
            // first, last and middle value of each type
            if k == 0 || k + 1 == n || k == n / 2 {
                out.push(Triple { env: empty.clone(), t: t.clone(), v, family: "E:depth2-all-terms" });
            }
        }
    }
    notes.push(format!("E: {} depth-2 types, {} triples", t2.len(), out.len() - n0));
    // F: aliases of every primitive (directly and through a chain) at every constructor position
    let n0 = out.len();
    for (env, t) in alias_envs("") {
        for v in gen::values(&env, &t, &tiny, 3) {
            out.push(Triple { env: env.clone(), t: t.clone(), v, family: "F:aliases" });
        }
    }
    notes.push(format!("F: {} triples", out.len() - n0));
    // G: type tables with more than 64 entries (indices from 64 on need two SLEB128 bytes)
    let n0 = out.len();
    {
        let mut deep = p(P::Nat8);
        for _ in 0..70 {
            deep = Ty::opt(deep);
        }
        let some_n = |n: usize, inner: Val| {
            let mut v = inner;
            for _ in 0..n {
                v = Val::some(v);
            }
            v
        };
        for v in [Val::Opt(None), some_n(70, Val::NatN(8, 7)), some_n(35, Val::Opt(None)), some_n(69, Val::Opt(None))] {
            out.push(Triple { env: empty.clone(), t: deep.clone(), v, family: "G:big-table" });
        }
        // 66 fields of pairwise different composite types (132 table entries), referenced directly and through aliases
        let wide = Ty::record((0..66u32).map(|i| (i, Ty::opt(Ty::record(vec![(i, p(P::Nat))])))).collect());
        let wv = |k: u32| Val::record((0..66u32).map(|i| (i, if i % k == 0 { Val::some(Val::record(vec![(i, Val::nat(i as u64))])) } else { Val::Opt(None) })).collect());
        for k in [1u32, 5, 67] {
            out.push(Triple { env: empty.clone(), t: wide.clone(), v: wv(k), family: "G:big-table" });
        }
        let mut env = Env::new();
        for i in 0..66u32 {
            env.0.insert(format!("R{i}"), Ty::record(vec![(i, p(P::Nat))]));
        }
        let wide_named = Ty::record((0..66u32).map(|i| (i, Ty::opt(Ty::var(&format!("R{i}"))))).collect());
        out.push(Triple { env: env.clone(), t: wide_named.clone(), v: wv(1), family: "G:big-table" });
        out.push(Triple { env, t: Ty::vec(wide_named), v: Val::Vec(vec![wv(3), wv(67)]), family: "G:big-table" });
    }
    notes.push(format!("G: {} triples", out.len() - n0));
    // H: length boundaries of text, blobs, vectors, method names and long big numbers (127..65536)
    let n0 = out.len();
    for (env, t, v) in length_boundary_cases() {
        out.push(Triple { env, t, v, family: "H:length-boundaries" });
    }
    notes.push(format!("H: {} triples", out.len() - n0));
    (out, notes)
}

pub fn run(tier: Tier, replay: Option<&str>) -> i32 {
    let lim = Limits::default();
    if let Some(path) = replay {
        return replay_case(path, &lim);
    }
    let ctx = Ctx::new("C10", tier, tier.pick(240, 1200));
    let (triples, notes) = build(tier);
    let mut rep = ctx.par_range("E1:triples", triples.len() as u64, 64, || (), |_, i, rep| {
        check_triple(&triples[i as usize], rep, &lim);
    });
    let r2 = ctx.par_range("E3:near-misses", triples.len() as u64, 64, || (), |_, i, rep| {
        let tr = &triples[i as usize];
        for m in near_misses(&tr.env, &tr.t, &tr.v) {
            check_near_miss(tr, &m, rep);
        }
    });
    rep.merge(r2);
    let r2b = ctx.par_range("E3b:allowance values", triples.len() as u64, 64, || (), |_, i, rep| {
        let tr = &triples[i as usize];
        for m in allowance_values(&tr.env, &tr.t, &tr.v) {
            check_allowance(tr, &m, rep, &lim);
        }
    });
    rep.merge(r2b);
    // try_from_candid_type on the corpus
    let n = corpus_all::entries().len() as u64;
    let r3 = ctx.par_range("E1:try_from_candid_type on the Rust corpus", n, 8, corpus_all::entries, |es, i, rep| {
        let e = &es[i as usize];
        for vi in 0..(e.nvals)() {
            rep.evaluations += 1;
            rep.transitions += 1;
            rep.traces_validated += 1;
            match (e.try_from)(vi) {
                Ok((got, want)) => {
                    let same = if e.unordered { corpus::canon(&got) == corpus::canon(&want) } else { got == want };
                    if !same {
                        rep.violation(&format!("try_from_candid_type|{}|value-differs", e.name), format!("{} value #{vi}: got {got}, value is {want}", e.name), json!({"type": e.name, "value_index": vi}));
                    } else {
                        rep.nontrivial += 1;
                    }
                }
                Err(msg) => rep.violation(&format!("try_from_candid_type|{}|{}", e.name, msg.split(':').next().unwrap_or("")), format!("{} value #{vi}: {}", e.name, first_line(&msg)), json!({"type": e.name, "value_index": vi})),
            }
        }
    });
    rep.merge(r3);
    rep.notes.extend(notes);
    finish(
        &ctx,
        rep,
        "triples (environment, type, value): A every primitive and every depth-1 constructor over all 17 primitives with boundary values; B depth-2 types with tiny values; C recursive environments (list, tree, mutual recursion through vec, alias chains, a definition named table0); D function/service references. Per triple (blob spelled as Vec and as Blob): annotate_type(false/true) keeps the meaning and sets variant indices; to_bytes_with_types output is decoded by the strict reference decoder to the same value at an equal type, and by from_bytes_with_types / from_bytes to the same value; to_bytes of the annotated value round-trips. E3: every near-miss (other number width/kind, missing non-optional field, undeclared tag, payload of another tag, other reference kind, one wrong vector element) is accepted by typed encoding and annotate_type(true) iff it is typed under the three stated allowances; annotate_type(false) must only be type safe. E3b: every value that is of the type only through the allowances (nat at int with magnitudes 0, 63, 64, 100, 127, 128, 8191, 8192, 16383, 2^20, 2^21-1, 2^64-1; null / reserved at opt; anything at reserved; absent null/opt/reserved field; float64 literal at float32), at every position, must be accepted and the message must denote its normal form at the type (strict reference decoder, and from_bytes_with_types). Family G: type tables with more than 64 entries (opt nested 70 deep; records of 66 fields of pairwise different composite types, inline and through 66 definitions). Family H: text, blobs, vectors and method names whose length sits at 127/128, 255/256/257, 300, 16383/16384, 65535/65536 (ASCII and with a multi-byte character across the boundary), big numbers with 130- and 300-byte LEB128 forms, each alone, under opt, in a record, in a vector and as a variant payload. Family F: aliases of every primitive, directly and through a chain, at every constructor position. Plus IDLValue::try_from_candid_type on every small value of the Rust corpus.",
        &["R1 typing judgement, R2 strict decoder, R3 equality", "extra record fields and missing optional fields are not treated as near-misses (annotation documents width subtyping / field defaults)"],
        json!({}),
    )
}

fn replay_case(path: &str, lim: &Limits) -> i32 {
    let s = std::fs::read_to_string(path).expect("replay file");
    let v: serde_json::Value = serde_json::from_str(&s).expect("json");
    let c = &v["case"];
    if c.get("env").is_none() {
        println!("corpus case: re-run the quick tier");
        return 2;
    }
    // rebuild the scope and find the triple by its printed form
    let (triples, _) = build(Tier::Thorough);
    let mut rep = Report::new();
    for tr in &triples {
        if tr.env.to_string() == c["env"].as_str().unwrap() && tr.t.to_string() == c["type"].as_str().unwrap() && tr.v.to_string() == c["value"].as_str().unwrap() {
            check_triple(tr, &mut rep, lim);
            for m in near_misses(&tr.env, &tr.t, &tr.v) {
                if c.get("mutant").and_then(|x| x.as_str()) == Some(&m.to_string()) {
                    check_near_miss(tr, &m, &mut rep);
                }
            }
            for m in allowance_values(&tr.env, &tr.t, &tr.v) {
                if c.get("allowance_value").and_then(|x| x.as_str()) == Some(&m.to_string()) {
                    check_allowance(tr, &m, &mut rep, lim);
                }
            }
            break;
        }
    }
    for v in &rep.violations {
        println!("REPRODUCED {} :: {}", v.key, v.msg);
    }
    if rep.violations.is_empty() {
        println!("not reproduced");
        0
    } else {
        1
    }
}
