//! C08 — native decoding agrees with untyped decoding at the same Candid type (E1).
use super::common::*;
use super::corpus_all;
use corpus::special::{decode_only, DecodeOnly};
use corpus::{canon, Native};
use mclib::bridge;
use mclib::engine::{finish, Ctx, Report, Tier};
use mclib::scopes::mutants;
use num_bigint::BigInt;
use refmodel::gen::{self, ValDomain};
use refmodel::ty::{Env, Prim, Ty};
use refmodel::val::Val;
use refmodel::wire;
use serde_json::json;

/// look-alike types with the same byte layout (in addition to the one-step neighbours)
fn lookalikes(t: &Ty) -> Vec<Ty> {
    fn swap(t: &Ty, from: &Ty, to: &Ty) -> Ty {
        if t == from {
            return to.clone();
        }
        match t {
            Ty::Opt(x) => Ty::opt(swap(x, from, to)),
            Ty::Vec(x) => Ty::vec(swap(x, from, to)),
            Ty::Record(fs) => Ty::Record(fs.iter().map(|(i, x)| (*i, swap(x, from, to))).collect()),
            Ty::Variant(fs) => Ty::Variant(fs.iter().map(|(i, x)| (*i, swap(x, from, to))).collect()),
            o => o.clone(),
        }
    }
    let text = Ty::Prim(Prim::Text);
    let blob = Ty::vec(Ty::Prim(Prim::Nat8));
    let princ = Ty::Prim(Prim::Principal);
    let nat = Ty::Prim(Prim::Nat);
    let int = Ty::Prim(Prim::Int);
    let nat8 = Ty::Prim(Prim::Nat8);
    let nat64 = Ty::Prim(Prim::Nat64);
    let mut out = vec![];
    for (a, b) in [(&text, &blob), (&blob, &text), (&princ, &blob), (&blob, &princ), (&nat, &nat8), (&nat, &nat64), (&nat8, &nat), (&int, &nat), (&nat, &int), (&text, &nat), (&nat64, &int)] {
        let s = swap(t, a, b);
        if s != *t && !out.contains(&s) {
            out.push(s);
        }
    }
    // key/value swap of map-shaped types
    if let Ty::Vec(inner) = t {
        if let Ty::Record(fs) = &**inner {
            if fs.len() == 2 && fs[0].0 == 0 && fs[1].0 == 1 {
                out.push(Ty::vec(Ty::Record(vec![(0, fs[1].1.clone()), (1, fs[0].1.clone())])));
                out.push(Ty::vec(Ty::Record(vec![(0, fs[0].1.clone()), (2, fs[1].1.clone())])));
                out.push(Ty::vec(Ty::Record(vec![(0, fs[0].1.clone()), (1, fs[1].1.clone()), (2, Ty::Prim(Prim::Nat))])));
                out.push(Ty::vec(Ty::Record(vec![(0, fs[0].1.clone())])));
            }
        }
    }
    out
}

fn big(v: &Val) -> bool {
    match v {
        Val::Nat(n) => n.bits() > 64,
        Val::Int(i) => i.bits() > 63 || *i == -(BigInt::from(1) << 63u32),
        Val::Opt(Some(x)) => big(x),
        Val::Vec(xs) => xs.iter().any(big),
        Val::Record(fs) => fs.iter().any(|f| big(&f.1)),
        Val::Variant(_, x) => big(x),
        _ => false,
    }
}

fn has_dups(v: &Val) -> bool {
    match v {
        Val::Vec(xs) => {
            let keys: Vec<&Val> = xs.iter().map(|x| if let Val::Record(fs) = x { fs.first().map(|f| &f.1).unwrap_or(x) } else { x }).collect();
            let mut s = keys.clone();
            s.sort();
            s.dedup();
            s.len() != keys.len() || xs.iter().any(has_dups)
        }
        Val::Opt(Some(x)) => has_dups(x),
        Val::Record(fs) => fs.iter().any(|f| has_dups(&f.1)),
        Val::Variant(_, x) => has_dups(x),
        _ => false,
    }
}

fn wrong_array_len(v: &Val) -> bool {
    match v {
        Val::Vec(xs) => xs.len() != 2 || xs.iter().any(wrong_array_len),
        Val::Opt(Some(x)) => wrong_array_len(x),
        Val::Record(fs) => fs.iter().any(|f| wrong_array_len(&f.1)),
        Val::Variant(_, x) => wrong_array_len(x),
        _ => false,
    }
}

struct Target<'a> {
    name: &'a str,
    menv: Env,
    mty: Ty,
    unordered: bool,
    decode: &'a dyn Fn(&[u8]) -> Native,
    /// decoding at `Option<T>` (corpus targets only)
    decode_opt: Option<&'a dyn Fn(&[u8]) -> Native>,
    accepts: Option<fn(&Val) -> bool>,
}

fn messages(tg: &Target, tier: Tier) -> Vec<(Env, Ty, Val)> {
    let dom = ValDomain::tiny();
    let mut out = vec![];
    let root = tg.menv.unf(&tg.mty).ok().cloned().unwrap_or(tg.mty.clone());
    let mut wire_tys: Vec<Ty> = vec![tg.mty.clone()];
    for m in mutants(&root).into_iter().chain(lookalikes(&root)) {
        if !wire_tys.contains(&m) {
            wire_tys.push(m);
        }
    }
    let per_ty = tier.pick(6, 12);
    let max_tys = tier.pick(160, 400);
    for wt in wire_tys.into_iter().take(max_tys) {
        let vals = gen::values(&tg.menv, &wt, &dom, 3);
        let n = vals.len();
        let pick: Vec<usize> = if n <= per_ty { (0..n).collect() } else { (0..per_ty).map(|k| k * (n - 1) / (per_ty - 1)).collect() };
        for i in pick {
            out.push((tg.menv.clone(), wt.clone(), vals[i].clone()));
        }
    }
    out
}

fn check_target(tg: &Target, tier: Tier, rep: &mut Report) {
    let renv = bridge::to_real_env(&tg.menv);
    let rty = bridge::to_real_ty(&tg.mty);
    rep.states += 1;
    let mut reported: std::collections::BTreeSet<String> = Default::default();
    for (env, wt, v) in messages(tg, tier) {
        let Ok(bytes) = wire::encode(&env, &[wt.clone()], &[v.clone()], true) else { continue };
        rep.evaluations += 1;
        rep.transitions += 2;
        rep.traces_validated += 1;
        let native = (tg.decode)(&bytes);
        let untyped = impl_decode_at(&bytes, &renv, &[rty.clone()]);
        let same_type = wt == tg.mty;
        let mut bad: Option<(String, String)> = None;
        match (&native, &untyped) {
            (Native::Panic(p), _) => bad = Some(("native-panic".into(), p.clone())),
            (_, ImplOutcome::Panic(p)) => bad = Some(("untyped-panic".into(), p.clone())),
            (_, ImplOutcome::Bridge(e)) => bad = Some(("untyped-bridge".into(), e.clone())),
            (Native::Ok { val, .. }, ImplOutcome::Ok(u)) => {
                rep.nontrivial += 1;
                rep.outcome("both-accept");
                let u0 = &u[0];
                // maps, sets and heaps have no wire order of their own: compare as multisets
                let unordered = tg.unordered || tg.name.contains("Map") || tg.name.contains("Set") || tg.name.contains("Heap");
                let eq = if unordered { canon(val) == canon(u0) } else { val == u0 };
                if !eq && !has_dups(u0) {
                    bad = Some(("value-differs".into(), format!("native {val}, untyped {u0}")));
                }
                if let Some(acc) = tg.accepts {
                    if !acc(u0) {
                        bad = Some(("accepts-beyond-limit".into(), format!("native accepts {u0}, which is outside the target's limits")));
                    }
                }
            }
            (Native::Err(e), ImplOutcome::Ok(u)) => {
                let u0 = &u[0];
                let excused = (big(u0) && (tg.name.contains("128") || tg.name.contains("usize")))
                    || (tg.name.contains(";2]") && wrong_array_len(u0))
                    || tg.accepts.map(|a| !a(u0)).unwrap_or(false);
                if excused {
                    rep.outcome("native-rejects:documented-host-limit");
                } else {
                    bad = Some(("native-rejects".into(), format!("native: {e}; untyped accepts as {u0}")));
                }
            }
            (Native::Ok { val, .. }, ImplOutcome::Err(e)) => {
                bad = Some(("native-accepts".into(), format!("native accepts as {val}; untyped: {e}")));
            }
            (Native::Err(_), ImplOutcome::Err(_)) => rep.outcome("both-reject"),
        }
        let _ = same_type;
        // ---- the same message one level down: wire `opt wt` carrying `some v`, target `Option<T>`. A mismatch
        //      below the option must be recoverable (null) for the native target exactly as for the untyped one.
        if bad.is_none() {
            if let Some(dopt) = tg.decode_opt {
                if let Ok(obytes) = wire::encode(&env, &[Ty::opt(wt.clone())], &[Val::some(v.clone())], true) {
                    rep.evaluations += 1;
                    rep.transitions += 2;
                    rep.traces_validated += 1;
                    let onative = dopt(&obytes);
                    let ountyped = impl_decode_at(&obytes, &renv, &[bridge::to_real_ty(&Ty::opt(tg.mty.clone()))]);
                    let unordered = tg.unordered || tg.name.contains("Map") || tg.name.contains("Set") || tg.name.contains("Heap");
                    let obad: Option<(String, String)> = match (&onative, &ountyped) {
                        (Native::Panic(p), _) => Some(("under-opt:native-panic".into(), p.clone())),
                        (_, ImplOutcome::Panic(p)) => Some(("under-opt:untyped-panic".into(), p.clone())),
                        (_, ImplOutcome::Bridge(e)) => Some(("under-opt:untyped-bridge".into(), e.clone())),
                        (Native::Ok { val, .. }, ImplOutcome::Ok(u)) => {
                            let u0 = &u[0];
                            rep.outcome(if matches!(u0, Val::Opt(None)) { "under-opt:both-null" } else { "under-opt:both-some" });
                            let eq = if unordered { canon(val) == canon(u0) } else { val == u0 };
                            // host limits (128-bit range, array length, duplicate keys) make the native side read null
                            let excused = matches!(val, Val::Opt(None))
                                && ((big(u0) && (tg.name.contains("128") || tg.name.contains("usize"))) || (tg.name.contains(";2]") && wrong_array_len(u0)));
                            if !eq && !has_dups(u0) && !excused {
                                Some(("under-opt:value-differs".into(), format!("native {val}, untyped {u0}")))
                            } else {
                                None
                            }
                        }
                        (Native::Err(e), ImplOutcome::Ok(u)) => {
                            // documented host limits surface as hard errors of the host type's own deserializer
                            let u0 = &u[0];
                            let excused = (big(u0) && (tg.name.contains("128") || tg.name.contains("usize"))) || (tg.name.contains(";2]") && wrong_array_len(u0));
                            if excused {
                                rep.outcome("under-opt:native-rejects:documented-host-limit");
                                None
                            } else {
                                Some(("under-opt:native-rejects".into(), format!("native: {e}; untyped accepts as {u0}")))
                            }
                        }
                        (Native::Ok { val, .. }, ImplOutcome::Err(e)) => Some(("under-opt:native-accepts".into(), format!("native accepts as {val}; untyped: {e}"))),
                        (Native::Err(_), ImplOutcome::Err(_)) => {
                            rep.outcome("under-opt:both-reject");
                            None
                        }
                    };
                    if let Some((cls, msg)) = obad {
                        rep.outcome(&format!("disagree:{cls}"));
                        let k = format!("{cls}|{}|wire=opt_{}", tg.name, wt);
                        if reported.insert(k.clone()) && reported.len() <= 6 {
                            rep.violation(
                                &k,
                                format!("Option<{}> <- ?{} : opt {}: {}", tg.name, v, wt, first_line(&msg)),
                                json!({"target": tg.name, "under_opt": true, "wire_type": format!("opt {wt}"), "wire_env": env.to_string(), "value": format!("?{v}"), "bytes": hex(&obytes)}),
                            );
                        } else {
                            rep.violation_count += 1;
                        }
                    }
                }
            }
        }
        if let Some((cls, msg)) = bad {
            rep.outcome(&format!("disagree:{cls}"));
            rep.violation_count += 1;
            // one key per (target, failure class, wire type); first failing value is the case
            let k = format!("{cls}|{}|wire={}", tg.name, wt);
            if reported.insert(k.clone()) && reported.len() <= 6 {
                rep.violation_count -= 1;
                rep.violation(
                    &k,
                    format!("{} <- {} : {}: {}", tg.name, v, wt, first_line(&msg)),
                    json!({"target": tg.name, "wire_type": wt.to_string(), "wire_env": env.to_string(), "value": v.to_string(), "bytes": hex(&bytes)}),
                );
            }
        }
    }
}

pub fn run(tier: Tier, replay: Option<&str>) -> i32 {
    if let Some(path) = replay {
        return replay_case(path);
    }
    let ctx = Ctx::new("C08", tier, tier.pick(300, 1500));
    let n = corpus_all::entries().len() as u64;
    let mut rep = ctx.par_range("corpus targets x (own type, neighbours, look-alikes) x values", n, 2, corpus_all::entries, |es, i, rep| {
        let e = &es[i as usize];
        let (menv, mty) = (e.model_ty)();
        let dec = |b: &[u8]| (e.decode)(b);
        let deco = |b: &[u8]| (e.decode_opt)(b);
        let tg = Target { name: &e.name, menv, mty, unordered: e.unordered, decode: &dec, decode_opt: Some(&deco), accepts: None };
        check_target(&tg, tier, rep);
        if i % 149 == 0 {
            rep.sample(json!({"target": e.name, "type": tg.mty.to_string()}));
        }
    });
    let specials: Vec<DecodeOnly> = decode_only();
    let ns = specials.len() as u64;
    let r2 = ctx.par_range("borrowed and bounded targets", ns, 1, decode_only, |sp, i, rep| {
        let s = &sp[i as usize];
        let (menv, mty) = (s.model_ty)();
        let dec = |b: &[u8]| (s.decode)(b);
        let tg = Target { name: &s.name, menv, mty, unordered: false, decode: &dec, decode_opt: None, accepts: Some(s.accepts) };
        // bounded vectors need longer vectors than the tiny domain gives: add explicit lengths
        check_target(&tg, Tier::Thorough, rep);
        if s.name.starts_with("Bounded") {
            check_bounded_lengths(&tg, rep);
        }
    });
    drop(specials);
    rep.merge(r2);
    finish(
        &ctx,
        rep,
        "targets = every corpus Rust type + borrowed targets (&[u8], &Bytes, &str, Cow<str>, Vec<&str>, BTreeMap<&str,&[u8]>) + BoundedVec with each limit kind; messages = R2-encoded values whose wire type is the target's type, each of its one-step neighbours (mutants: field added/removed/relabelled, opt/vec wrapped/unwrapped, primitive swapped, record<->variant) and look-alikes with the same byte layout (text<->blob, principal<->blob, nat<->nat8/nat64/int, map key/value swapped, tuple arity changed). Oracle: native decoding succeeds iff untyped decoding at the same Candid type succeeds (documented host limits excused: 128-bit/usize range, array length, duplicate map keys, bounded-vector limits computed independently) and both denote the same abstract value (unordered containers as multisets). Non-trivial = messages both accept.",
        &["Cor::to_val as the abstract value of a native result", "R2 encoder produces the messages"],
        json!({}),
    )
}

fn check_bounded_lengths(tg: &Target, rep: &mut Report) {
    let renv = bridge::to_real_env(&tg.menv);
    let rty = bridge::to_real_ty(&tg.mty);
    let Ty::Vec(el) = &tg.mty else { return };
    let elems = gen::values(&tg.menv, el, &ValDomain::boundary(), 2);
    for len in 0..=4usize {
        for e in elems.iter().take(4) {
            let v = Val::Vec(vec![e.clone(); len]);
            let Ok(bytes) = wire::encode(&tg.menv, &[tg.mty.clone()], &[v.clone()], true) else { continue };
            rep.evaluations += 1;
            rep.transitions += 2;
            rep.traces_validated += 1;
            let native = (tg.decode)(&bytes);
            let untyped = impl_decode_at(&bytes, &renv, &[rty.clone()]);
            let want = matches!(untyped, ImplOutcome::Ok(_)) && (tg.accepts.unwrap())(&v);
            let got = matches!(native, Native::Ok { .. });
            rep.outcome(if want { "bounded:within" } else { "bounded:beyond" });
            if got != want {
                rep.violation(
                    &format!("bounded-limit|{}|len={len}|elem={e}", tg.name),
                    format!("{} {} a vector of {len} x {e} ({})", tg.name, if got { "accepts" } else { "rejects" }, if want { "within its limits" } else { "beyond its limits" }),
                    json!({"target": tg.name, "value": v.to_string(), "bytes": hex(&bytes)}),
                );
            }
        }
    }
}

fn replay_case(path: &str) -> i32 {
    let s = std::fs::read_to_string(path).expect("replay file");
    let v: serde_json::Value = serde_json::from_str(&s).expect("json");
    let c = &v["case"];
    let name = c["target"].as_str().unwrap();
    let bytes = unhex(c["bytes"].as_str().unwrap());
    let es = corpus_all::entries();
    let sp = decode_only();
    let (native, menv, mty) = if let Some(e) = es.iter().find(|e| e.name == name) {
        let (a, b) = (e.model_ty)();
        if c["under_opt"].as_bool() == Some(true) {
            ((e.decode_opt)(&bytes), a, Ty::opt(b))
        } else {
            ((e.decode)(&bytes), a, b)
        }
    } else if let Some(s) = sp.iter().find(|s| s.name == name) {
        let (a, b) = (s.model_ty)();
        ((s.decode)(&bytes), a, b)
    } else {
        println!("unknown target");
        return 2;
    };
    let untyped = impl_decode_at(&bytes, &bridge::to_real_env(&menv), &[bridge::to_real_ty(&mty)]);
    println!("native  : {native:?}\nuntyped : {untyped:?}");
    let agree = matches!((&native, &untyped), (Native::Ok { .. }, ImplOutcome::Ok(_)) | (Native::Err(_), ImplOutcome::Err(_)));
    if agree {
        println!("acceptance agrees (compare the values above)");
        0
    } else {
        println!("REPRODUCED");
        1
    }
}
