//! C05 — subtype / upgrade checks decide the spec relation, independent of order,
//! names and memo history. E1 over environment pairs, E2 (BFS) over query histories
//! sharing one memo. Oracle: R3 (greatest fixed point).
use super::common::*;
use candid::types::subtype::{self, Gamma, OptReport};
use candid::types::{Type, TypeEnv};
use candid_parser::utils::{service_compatibility_report, service_compatible, service_equal, CandidSource};
use mclib::bridge;
use mclib::engine::{catch, finish, Ctx, Report, Tier};
use mclib::scopes::*;
use refmodel::gen;
use refmodel::sub;
use refmodel::ty::{Env, Mode, Ty, P};
use serde_json::json;
use std::collections::{BTreeSet, HashSet};

extern "C" {
    fn dup(fd: i32) -> i32;
    fn dup2(a: i32, b: i32) -> i32;
    fn close(fd: i32) -> i32;
}

/// The subject prints a warning to stderr whenever the special opt rule is used;
/// silence fd 2 while the sweeps run.
struct StderrSilencer {
    saved: i32,
}
impl StderrSilencer {
    fn new() -> Self {
        use std::os::unix::io::AsRawFd;
        let null = std::fs::OpenOptions::new().write(true).open("/dev/null").unwrap();
        unsafe {
            let saved = dup(2);
            dup2(null.as_raw_fd(), 2);
            StderrSilencer { saved }
        }
    }
}
impl Drop for StderrSilencer {
    fn drop(&mut self) {
        unsafe {
            dup2(self.saved, 2);
            close(self.saved);
        }
    }
}

#[derive(Clone)]
pub struct Query {
    pub env: Env,
    pub s: Ty,
    pub t: Ty,
    pub family: &'static str,
}

fn env_text(e: &Env) -> String {
    e.to_string().replace('\n', " ")
}

fn real_sub(mode: OptReport, env: &TypeEnv, s: &Type, t: &Type, gamma: &mut Gamma) -> Result<bool, String> {
    catch(|| subtype::subtype_with_config(mode, gamma, env, s, t).is_ok())
}

/// one query, fresh memo, all entry points
pub fn check_query(q: &Query, rep: &mut Report) {
    let renv = bridge::to_real_env(&q.env);
    let rs = bridge::to_real_ty(&q.s);
    let rt = bridge::to_real_ty(&q.t);
    let st = sub::subtype_stats(&q.env, &q.s, &q.t, sub::OptRule::Spec);
    let want = st.holds;
    rep.states += st.pairs as u64;
    rep.count("gfp_premise_edges", st.edges as u64);
    rep.evaluations += 1;
    if want {
        rep.nontrivial += 1;
    }
    rep.outcome(&format!("{}:{}", q.family, if want { "related" } else { "unrelated" }));
    let case = || json!({"env": q.env.to_string(), "s": q.s.to_string(), "t": q.t.to_string(), "family": q.family});
    let keyb = || format!("env={}|{}<:{}", env_text(&q.env), q.s, q.t);
    let mut bad = |clause: &str, msg: String, rep: &mut Report| {
        rep.violation(&format!("{clause}|{}", keyb()), msg, case());
    };
    // subtype, Silence and Warning modes
    for (mode, name) in [(OptReport::Silence, "silence"), (OptReport::Warning, "warning")] {
        rep.transitions += 1;
        match real_sub(mode, &renv, &rs, &rt, &mut Gamma::new()) {
            Err(p) => bad("subtype-panic", format!("subtype ({name}) panics: {p}"), rep),
            Ok(got) => {
                rep.traces_validated += 1;
                if got != want {
                    bad(
                        "subtype",
                        format!("subtype ({name}) answers {got}, greatest fixed point says {want}"),
                        rep,
                    );
                }
            }
        }
    }
    // Error mode: never more permissive than the spec relation
    rep.transitions += 1;
    match real_sub(OptReport::Error, &renv, &rs, &rt, &mut Gamma::new()) {
        Err(p) => bad("subtype-panic", format!("subtype (error mode) panics: {p}"), rep),
        Ok(got) => {
            rep.traces_validated += 1;
            if got && !want {
                bad("subtype-errormode", "OptReport::Error accepts a pair outside the spec relation".into(), rep);
            }
        }
    }
    // collecting variant
    rep.transitions += 1;
    match catch(|| subtype::subtype_check_all(&mut Gamma::new(), &renv, &rs, &rt)) {
        Err(p) => bad("check_all-panic", format!("subtype_check_all panics: {p}"), rep),
        Ok(errs) => {
            rep.traces_validated += 1;
            if errs.is_empty() != want {
                bad(
                    "check_all",
                    format!("subtype_check_all reports {} incompatibilities, gfp says related={want}", errs.len()),
                    rep,
                );
            }
        }
    }
    // equality
    let weq = sub::equal(&q.env, &q.s, &q.t);
    rep.transitions += 1;
    match catch(|| subtype::equal(&mut Gamma::new(), &renv, &rs, &rt).is_ok()) {
        Err(p) => bad("equal-panic", format!("equal panics: {p}"), rep),
        Ok(got) => {
            rep.traces_validated += 1;
            if got != weq {
                bad("equal", format!("equal answers {got}, bisimulation says {weq}"), rep);
            }
            if got {
                // equality implies subtyping both ways
                let a = real_sub(OptReport::Silence, &renv, &rs, &rt, &mut Gamma::new());
                let b = real_sub(OptReport::Silence, &renv, &rt, &rs, &mut Gamma::new());
                rep.transitions += 2;
                if a != Ok(true) || b != Ok(true) {
                    bad("equal-implies-subtype", format!("equal holds but subtype gives {a:?} / {b:?}"), rep);
                }
            }
        }
    }
    // the answer does not depend on the order in which fields and methods are listed: the same query on
    // types whose field / method vectors are reversed and rotated (hand-built types need not be sorted)
    for how in [1u8, 2] {
        let (ps, pt) = (permute(&rs, how), permute(&rt, how));
        let penv = permute_env(&renv, how);
        if ps == rs && pt == rt && penv.0 == renv.0 {
            continue;
        }
        for (a, b, e, side) in [(&ps, &rt, &renv, "left"), (&rs, &pt, &renv, "right"), (&ps, &pt, &penv, "both+definitions")] {
            rep.transitions += 2;
            rep.traces_validated += 2;
            match real_sub(OptReport::Silence, e, a, b, &mut Gamma::new()) {
                Err(p) => bad("subtype-order-panic", format!("subtype panics on reordered ({side}, permutation {how}) types: {p}"), rep),
                Ok(got) if got != want => bad("subtype-order", format!("subtype answers {got} when the fields/methods of the {side} side are listed in another order (permutation {how}); greatest fixed point says {want}"), rep),
                _ => {}
            }
            match catch(|| subtype::subtype_check_all(&mut Gamma::new(), e, a, b).is_empty()) {
                Err(p) => bad("check_all-order-panic", p, rep),
                Ok(got) if got != want => bad("check_all-order", format!("subtype_check_all is empty={got} on reordered ({side}, permutation {how}) types; gfp says related={want}"), rep),
                _ => {}
            }
        }
    }
    if rep.samples.len() < 3 {
        rep.sample(json!({"env": env_text(&q.env), "query": format!("{} <: {}", q.s, q.t), "gfp": want, "pairs": st.pairs}));
    }
}

/// the same type with every field / method vector listed in another order (1: reversed, 2: rotated by one)
fn permute(t: &Type, how: u8) -> Type {
    use candid::types::{Field, Function, TypeInner};
    fn order<T: Clone>(v: Vec<T>, how: u8) -> Vec<T> {
        let mut v = v;
        if v.len() > 1 {
            if how == 1 {
                v.reverse();
            } else {
                v.rotate_left(1);
            }
        }
        v
    }
    let fields = |fs: &Vec<Field>| -> Vec<Field> { order(fs.iter().map(|f| Field { id: f.id.clone(), ty: permute(&f.ty, how) }).collect(), how) };
    match t.as_ref() {
        TypeInner::Opt(x) => TypeInner::Opt(permute(x, how)).into(),
        TypeInner::Vec(x) => TypeInner::Vec(permute(x, how)).into(),
        TypeInner::Record(fs) => TypeInner::Record(fields(fs)).into(),
        TypeInner::Variant(fs) => TypeInner::Variant(fields(fs)).into(),
        TypeInner::Func(f) => TypeInner::Func(Function {
            modes: f.modes.clone(),
            args: f.args.iter().map(|a| permute(a, how)).collect(),
            rets: f.rets.iter().map(|a| permute(a, how)).collect(),
        })
        .into(),
        TypeInner::Service(ms) => TypeInner::Service(order(ms.iter().map(|(n, f)| (n.clone(), permute(f, how))).collect(), how)).into(),
        TypeInner::Class(args, s) => TypeInner::Class(args.iter().map(|a| permute(a, how)).collect(), permute(s, how)).into(),
        _ => t.clone(),
    }
}

fn permute_env(e: &TypeEnv, how: u8) -> TypeEnv {
    let mut out = TypeEnv::new();
    for (k, t) in &e.0 {
        out.0.insert(k.clone(), permute(t, how));
    }
    out
}

fn v(s: &str) -> Ty {
    Ty::var(s)
}

/// right-hand sides for two mutually recursive definitions A, B
fn rhs_alphabet(a: &str, b: &str) -> Vec<Ty> {
    let nat = || p(P::Nat);
    vec![
        nat(),
        p(P::Text),
        Ty::opt(v(a)),
        Ty::opt(v(b)),
        Ty::vec(v(a)),
        Ty::vec(v(b)),
        Ty::record(vec![(0, v(a))]),
        Ty::record(vec![(0, v(b))]),
        Ty::record(vec![(0, nat()), (1, v(a))]),
        Ty::record(vec![(0, v(b)), (1, nat())]),
        Ty::record(vec![(0, Ty::opt(v(a))), (1, nat())]),
        Ty::record(vec![(0, Ty::vec(v(b))), (1, p(P::Text))]),
        Ty::variant(vec![(0, p(P::Null)), (1, v(a))]),
        Ty::variant(vec![(0, v(b))]),
        Ty::func(vec![v(a)], vec![v(b)], vec![]),
        Ty::func(vec![v(b)], vec![], vec![Mode::Query]),
        Ty::service(vec![("m".into(), Ty::func(vec![v(a)], vec![], vec![]))]),
    ]
}

fn tops(a: &str, b: &str, a2: &str, b2: &str) -> Vec<(Ty, Ty)> {
    let mut out = vec![
        (v(a), v(a2)),
        (v(b), v(b2)),
        (v(a), v(b2)),
        (v(b), v(a2)),
        (v(a2), v(a)),
        (Ty::vec(v(a)), Ty::vec(v(a2))),
        // a failed opt probe precedes a second use of the same pair
        (
            Ty::record(vec![(0, Ty::opt(v(a))), (1, v(b))]),
            Ty::record(vec![(0, Ty::opt(v(a2))), (1, v(b2))]),
        ),
        (
            Ty::record(vec![(0, Ty::opt(v(b))), (1, v(a))]),
            Ty::record(vec![(0, Ty::opt(v(b2))), (1, v(a2))]),
        ),
        (Ty::func(vec![v(a2)], vec![v(b)], vec![]), Ty::func(vec![v(a)], vec![v(b2)], vec![])),
    ];
    out.push((
        Ty::service(vec![("m".into(), Ty::func(vec![Ty::opt(v(a2))], vec![v(b)], vec![]))]),
        Ty::service(vec![("m".into(), Ty::func(vec![Ty::opt(v(a))], vec![v(b2)], vec![]))]),
    ));
    out
}

pub fn build_queries(tier: Tier) -> (Vec<Query>, Vec<String>) {
    let mut qs: Vec<Query> = vec![];
    let mut notes = vec![];
    let empty = Env::new();
    // S1: all pairs of depth-<=1 types, and wrapped depth-2 types against their neighbours
    let leaves = [P::Nat, P::Int, P::Text, P::Null, P::Reserved, P::Empty];
    let t1 = gen::terms(&alphabet_data(&leaves), 1);
    for s in &t1 {
        for t in &t1 {
            qs.push(Query { env: empty.clone(), s: s.clone(), t: t.clone(), family: "S1:depth1-pairs" });
        }
    }
    let n1 = qs.len();
    notes.push(format!("S1: {} types, {} pairs", t1.len(), n1));
    let wrap: Vec<Box<dyn Fn(Ty) -> Ty>> = vec![
        Box::new(Ty::opt),
        Box::new(Ty::vec),
        Box::new(|t| Ty::record(vec![(0, t), (1, p(P::Nat))])),
        Box::new(|t| Ty::variant(vec![(0, t), (1, p(P::Null))])),
        Box::new(|t| Ty::func(vec![t.clone()], vec![t], vec![])),
    ];
    for w in &wrap {
        for t in &t1 {
            let s = w(t.clone());
            let mut ns = mutants(&s);
            ns.push(s.clone());
            if tier == Tier::Thorough {
                let extra: Vec<Ty> = mutants(&s).iter().take(30).flat_map(|m| mutants(m)).collect();
                for e in extra {
                    if !ns.contains(&e) {
                        ns.push(e);
                    }
                }
            }
            for n in ns {
                qs.push(Query { env: empty.clone(), s: s.clone(), t: n.clone(), family: "S1b:depth2-neighbours" });
                qs.push(Query { env: empty.clone(), s: n, t: s.clone(), family: "S1b:depth2-neighbours" });
            }
        }
    }
    notes.push(format!("S1b: {} queries", qs.len() - n1));
    let n2 = qs.len();
    // S2: two mutually recursive definitions per side; right side = every <=1-deviation mutant
    // (thorough: <=2) of the left, renamed; all top-level query shapes
    let rhs = rhs_alphabet("A", "B");
    let envs = gen::envs(&["A", "B"], &rhs);
    let step = tier.pick(3, 1);
    let mut npairs = 0;
    for e in envs.iter().step_by(step) {
        let prime = |s: &str| format!("{s}2");
        let e2_0 = e.rename(&prime);
        let mut rights = vec![e2_0.clone()];
        rights.extend(env_mutants(&e2_0));
        if tier == Tier::Thorough {
            let more: Vec<Env> = env_mutants(&e2_0).iter().step_by(5).flat_map(|m| env_mutants(m)).collect();
            for m in more.into_iter().step_by(7) {
                if !rights.contains(&m) {
                    rights.push(m);
                }
            }
        }
        for e2 in rights {
            let merged = e.merge_disjoint(&e2);
            npairs += 1;
            for (s, t) in tops("A", "B", "A2", "B2") {
                qs.push(Query { env: merged.clone(), s, t, family: "S2:recursive-env-vs-mutant" });
            }
        }
    }
    notes.push(format!("S2: {} left environments (step {}), {} environment pairs, {} queries", envs.len(), step, npairs, qs.len() - n2));
    let n3 = qs.len();
    // S4: services over five method names (each with its own function type): every pair of a 5-, 4- or 3-method
    // interface against every sub-interface and against interfaces with one method's type changed
    {
        let n0 = qs.len();
        let names = ["a", "b", "c", "d", "e"];
        let fty = |i: usize, alt: bool| -> Ty {
            let arg = [p(P::Nat), p(P::Text), p(P::Int), p(P::Null), p(P::Reserved)][i].clone();
            if alt {
                Ty::func(vec![p(P::Bool)], vec![arg], vec![])
            } else {
                Ty::func(vec![arg.clone()], vec![Ty::opt(arg)], if i % 2 == 0 { vec![] } else { vec![Mode::Query] })
            }
        };
        let svc = |mask: u32, alt: u32| -> Ty { Ty::service((0..5).filter(|i| mask >> i & 1 == 1).map(|i| (names[i].to_string(), fty(i, alt >> i & 1 == 1))).collect()) };
        for big in [0b11111u32, 0b11110, 0b01111, 0b10101, 0b11100] {
            for small in 0..32u32 {
                qs.push(Query { env: empty.clone(), s: svc(big, 0), t: svc(small, 0), family: "S4:service-method-sets" });
                if small & big == small && small != 0 {
                    // one method of the expected interface has another type
                    let one = 1 << small.trailing_zeros();
                    qs.push(Query { env: empty.clone(), s: svc(big, 0), t: svc(small, one), family: "S4:service-method-sets" });
                    let top = 1 << (31 - small.leading_zeros());
                    qs.push(Query { env: empty.clone(), s: svc(big, 0), t: svc(small, top), family: "S4:service-method-sets" });
                }
            }
        }
        notes.push(format!("S4: {} service queries", qs.len() - n0));
    }
    // S3: the record-pair family of the design prototype: A, B records with <=2 fields over
    // {nat, text, A, B, opt ., vec .}; right side has exactly one leaf flipped nat<->text
    let ft = |a: &str, b: &str| -> Vec<Ty> {
        vec![p(P::Nat), p(P::Text), v(a), v(b), Ty::opt(v(a)), Ty::opt(v(b)), Ty::vec(v(a)), Ty::vec(v(b))]
    };
    let mut recs: Vec<Vec<usize>> = vec![];
    let nf = 8;
    for i in 0..nf {
        recs.push(vec![i]);
        for j in 0..nf {
            recs.push(vec![i, j]);
        }
    }
    let mk = |idx: &Vec<usize>, a: &str, b: &str, flip: Option<usize>| -> Ty {
        let f = ft(a, b);
        Ty::record(
            idx.iter()
                .enumerate()
                .map(|(k, i)| {
                    let mut t = f[*i].clone();
                    if flip == Some(k) {
                        t = match t {
                            Ty::Prim(P::Nat) => p(P::Text),
                            Ty::Prim(P::Text) => p(P::Nat),
                            o => o,
                        };
                    }
                    (k as u32, t)
                })
                .collect(),
        )
    };
    let rstep = tier.pick(5, 1);
    let mut s3 = 0;
    for (ia, ra) in recs.iter().enumerate() {
        for (ib, rb) in recs.iter().enumerate() {
            if (ia * recs.len() + ib) % rstep != 0 {
                continue;
            }
            // positions holding a nat/text leaf
            let mut flips: Vec<(bool, usize)> = vec![];
            for (k, i) in ra.iter().enumerate() {
                if *i < 2 {
                    flips.push((true, k));
                }
            }
            for (k, i) in rb.iter().enumerate() {
                if *i < 2 {
                    flips.push((false, k));
                }
            }
            for (in_a, k) in flips {
                let mut env = Env::new();
                env.0.insert("A".into(), mk(ra, "A", "B", None));
                env.0.insert("B".into(), mk(rb, "A", "B", None));
                env.0.insert("A2".into(), mk(ra, "A2", "B2", if in_a { Some(k) } else { None }));
                env.0.insert("B2".into(), mk(rb, "A2", "B2", if !in_a { Some(k) } else { None }));
                if env.closed().is_err() || !refmodel::wire::infinite_records(&env).is_empty() && false {
                    continue;
                }
                for (s, t) in [
                    (Ty::record(vec![(0, Ty::opt(v("A"))), (1, v("B"))]), Ty::record(vec![(0, Ty::opt(v("A2"))), (1, v("B2"))])),
                    (Ty::record(vec![(0, Ty::opt(v("B"))), (1, v("A"))]), Ty::record(vec![(0, Ty::opt(v("B2"))), (1, v("A2"))])),
                    (v("A"), v("A2")),
                ] {
                    qs.push(Query { env: env.clone(), s, t, family: "S3:record-pairs-one-leaf-flipped" });
                    s3 += 1;
                }
            }
        }
    }
    notes.push(format!("S3: {} record shapes per definition (step {}), {} queries", recs.len(), rstep, s3));
    let _ = n3;
    // S5: the type that decides a side condition sits behind a definition or a chain of definitions
    let n5 = qs.len();
    for (env, s, t) in alias_neighbour_pairs("") {
        qs.push(Query { env, s, t, family: "S5:side-conditions-through-aliases" });
    }
    notes.push(format!("S5: {} queries", qs.len() - n5));
    (qs, notes)
}

// ---------------------------------------------------------------------------------------
// text level: service_compatible / report / service_equal, orbits

fn did_of(env: &Env, names: &[(&str, &str)], order_rev: bool, actor: &Ty) -> String {
    // print the definitions of `env` whose names appear in `names` (model name -> printed name)
    let rn = |s: &str| -> String { names.iter().find(|(a, _)| *a == s).map(|(_, b)| b.to_string()).unwrap_or(s.to_string()) };
    let mut defs: Vec<String> = vec![];
    for (k, t) in &env.0 {
        if names.iter().any(|(a, _)| a == k) {
            defs.push(format!("type {} = {};", rn(k), t.rename(&rn)));
        }
    }
    if order_rev {
        defs.reverse();
    }
    format!("{}\nservice : {}", defs.join("\n"), actor.rename(&rn).to_string().trim_start_matches("service "))
}

fn well_formed_funcs(t: &Ty) -> bool {
    if let Ty::Func(f) = t {
        if f.modes.len() > 1 || (f.modes.contains(&Mode::Oneway) && !f.rets.is_empty()) {
            return false;
        }
    }
    t.children().iter().all(|c| well_formed_funcs(c))
}

fn check_text_level(env: &Env, rep: &mut Report, orbit: bool) {
    // .did programs must be well-formed (oneway functions have no results)
    if !env.0.values().all(well_formed_funcs) {
        rep.count("text_level_skipped_ill_formed", 1);
        return;
    }
    // new interface = (A, B), old interface = (A2, B2); service { m : (A) -> (B) query }
    let new_actor = Ty::service(vec![("m".into(), Ty::func(vec![v("A")], vec![v("B")], vec![Mode::Query]))]);
    let old_actor = Ty::service(vec![("m".into(), Ty::func(vec![v("A2")], vec![v("B2")], vec![Mode::Query]))]);
    let want = sub::subtype(env, &new_actor, &old_actor);
    let weq = sub::equal(env, &new_actor, &old_actor);
    // both sides use the SAME printed names A, B (exercises merge_type renaming)
    let variants: Vec<(Vec<(&str, &str)>, Vec<(&str, &str)>, bool, bool)> = if orbit {
        vec![
            (vec![("A", "A"), ("B", "B")], vec![("A2", "A"), ("B2", "B")], false, false),
            (vec![("A", "A"), ("B", "B")], vec![("A2", "A"), ("B2", "B")], true, false),
            (vec![("A", "A"), ("B", "B")], vec![("A2", "A"), ("B2", "B")], false, true),
            (vec![("A", "x"), ("B", "y")], vec![("A2", "y"), ("B2", "x")], false, false),
            (vec![("A", "B"), ("B", "A")], vec![("A2", "A"), ("B2", "B")], true, true),
            (vec![("A", "table0"), ("B", "table1")], vec![("A2", "table1"), ("B2", "table0")], false, false),
        ]
    } else {
        vec![(vec![("A", "A"), ("B", "B")], vec![("A2", "A"), ("B2", "B")], false, false)]
    };
    // wrapped: the method types go through a definition that exists on ONE side only (its name does not
    // collide) and refers to the colliding names; the other side spells the same type inline
    let mut wenv = env.clone();
    wenv.0.insert("Pold".into(), Ty::vec(v("A2")));
    wenv.0.insert("Qnew".into(), Ty::record(vec![(0, v("B"))]));
    let new_w = Ty::service(vec![("m".into(), Ty::func(vec![Ty::vec(v("A"))], vec![v("Qnew")], vec![Mode::Query]))]);
    let old_w = Ty::service(vec![("m".into(), Ty::func(vec![v("Pold")], vec![Ty::record(vec![(0, v("B2"))])], vec![Mode::Query]))]);
    let want_w = sub::subtype(&wenv, &new_w, &old_w);
    let weq_w = sub::equal(&wenv, &new_w, &old_w);
    let mut scenarios: Vec<(&Env, &Ty, &Ty, bool, bool, Vec<(&str, &str)>, Vec<(&str, &str)>, bool, bool)> = vec![];
    for (nn, on, r1, r2) in variants {
        scenarios.push((env, &new_actor, &old_actor, want, weq, nn, on, r1, r2));
    }
    scenarios.push((&wenv, &new_w, &old_w, want_w, weq_w, vec![("A", "A"), ("B", "B"), ("Qnew", "Qn")], vec![("A2", "A"), ("B2", "B"), ("Pold", "Po")], false, false));
    if orbit {
        scenarios.push((&wenv, &new_w, &old_w, want_w, weq_w, vec![("A", "A"), ("B", "B"), ("Qnew", "Aa")], vec![("A2", "A"), ("B2", "B"), ("Pold", "Aa")], true, false));
        scenarios.push((&wenv, &new_w, &old_w, want_w, weq_w, vec![("A", "M"), ("B", "N"), ("Qnew", "Z")], vec![("A2", "M"), ("B2", "N"), ("Pold", "C")], false, true));
    }
    for (env, new_actor, old_actor, want, weq, nn, on, r1, r2) in scenarios {
        let new_src = did_of(env, &nn, r1, new_actor);
        let old_src = did_of(env, &on, r2, old_actor);
        rep.evaluations += 1;
        rep.transitions += 3;
        let case = json!({"new": new_src, "old": old_src, "text_level": true});
        let key = format!("text|new={}|old={}", new_src.replace('\n', " "), old_src.replace('\n', " "));
        let got = catch(|| service_compatible(CandidSource::Text(&new_src), CandidSource::Text(&old_src)).is_ok());
        let rpt = catch(|| service_compatibility_report(CandidSource::Text(&new_src), CandidSource::Text(&old_src)).map(|v| v.len()));
        let geq = catch(|| service_equal(CandidSource::Text(&new_src), CandidSource::Text(&old_src)).is_ok());
        rep.traces_validated += 3;
        rep.outcome(&format!("text:{}", if want { "compatible" } else { "incompatible" }));
        match got {
            Err(p) => rep.violation(&format!("service_compatible-panic|{key}"), p, case.clone()),
            Ok(g) if g != want => rep.violation(
                &format!("service_compatible|{key}"),
                format!("service_compatible = {g}, gfp says {want}"),
                case.clone(),
            ),
            _ => {}
        }
        match rpt {
            Err(p) => rep.violation(&format!("report-panic|{key}"), p, case.clone()),
            Ok(Err(e)) => rep.violation(&format!("report-error|{key}"), format!("report failed: {e}"), case.clone()),
            Ok(Ok(n)) if (n == 0) != want => rep.violation(
                &format!("report|{key}"),
                format!("service_compatibility_report has {n} entries, gfp says compatible={want}"),
                case.clone(),
            ),
            _ => {}
        }
        match geq {
            Err(p) => rep.violation(&format!("service_equal-panic|{key}"), p, case.clone()),
            Ok(g) if g != weq => {
                rep.violation(&format!("service_equal|{key}"), format!("service_equal = {g}, bisimulation says {weq}"), case.clone())
            }
            _ => {}
        }
    }
}

// ---------------------------------------------------------------------------------------
// E2: histories over one shared memo

fn memo_digest(g: &Gamma) -> Vec<String> {
    let mut v: Vec<String> = g.iter().map(|(a, b)| format!("{a} <: {b}")).collect();
    v.sort();
    v
}

/// BFS over sequences of queries threading one `Gamma`; states merged on memo content.
fn explore_histories(env: &Env, queries: &[(Ty, Ty)], depth: usize, use_equal: bool, rep: &mut Report) {
    let renv = bridge::to_real_env(env);
    let rq: Vec<(Type, Type)> = queries.iter().map(|(s, t)| (bridge::to_real_ty(s), bridge::to_real_ty(t))).collect();
    let want: Vec<bool> = queries.iter().map(|(s, t)| if use_equal { sub::equal(env, s, t) } else { sub::subtype(env, s, t) }).collect();
    // states are represented by the history reaching them (live memo is rebuilt by replay)
    let mut seen: HashSet<Vec<String>> = HashSet::new();
    seen.insert(vec![]);
    let mut frontier: Vec<Vec<usize>> = vec![vec![]];
    rep.states += 1;
    for _d in 0..depth {
        let mut next: Vec<Vec<usize>> = vec![];
        for hist in &frontier {
            // rebuild the memo by replaying the history
            let mut g = Gamma::new();
            for &qi in hist {
                let _ = if use_equal {
                    subtype::equal(&mut g, &renv, &rq[qi].0, &rq[qi].1).is_ok()
                } else {
                    subtype::subtype_with_config(OptReport::Silence, &mut g, &renv, &rq[qi].0, &rq[qi].1).is_ok()
                };
            }
            for qi in 0..queries.len() {
                let mut g2 = g.clone();
                rep.transitions += 1;
                rep.evaluations += 1;
                let got = catch(|| {
                    if use_equal {
                        subtype::equal(&mut g2, &renv, &rq[qi].0, &rq[qi].1).is_ok()
                    } else {
                        subtype::subtype_with_config(OptReport::Silence, &mut g2, &renv, &rq[qi].0, &rq[qi].1).is_ok()
                    }
                });
                rep.traces_validated += 1;
                let hist_txt: Vec<String> = hist.iter().map(|i| format!("{} <: {}", queries[*i].0, queries[*i].1)).collect();
                let case = json!({"env": env.to_string(), "history": hist_txt, "query": format!("{} <: {}", queries[qi].0, queries[qi].1), "equal": use_equal});
                let key = format!(
                    "history|{}|env={}|after={}|q={}<:{}",
                    if use_equal { "equal" } else { "subtype" },
                    env_text(env),
                    hist_txt.join(","),
                    queries[qi].0,
                    queries[qi].1
                );
                match got {
                    Err(p) => rep.violation(&format!("panic|{key}"), p, case),
                    Ok(g) => {
                        if g != want[qi] {
                            rep.violation(
                                &key,
                                format!("answer {g} after history [{}]; with a fresh memo the relation says {}", hist_txt.join("; "), want[qi]),
                                case,
                            );
                            rep.outcome("history:answer-depends-on-memo");
                        } else if g {
                            rep.nontrivial += 1;
                            rep.outcome("history:yes");
                            // state invariant after a successful query: memo within the relation
                            for (a, b) in g2.iter() {
                                let (ma, mb) = (
                                    bridge::from_real_ty(a, &mut Env::new()).unwrap(),
                                    bridge::from_real_ty(b, &mut Env::new()).unwrap(),
                                );
                                let ok = if use_equal { sub::equal(env, &ma, &mb) } else { sub::subtype(env, &ma, &mb) };
                                if !ok {
                                    rep.violation(
                                        &format!("memo-invariant|{}|env={}|after={}|q={}<:{}|stale={}<:{}", if use_equal { "equal" } else { "subtype" }, env_text(env), hist_txt.join(","), queries[qi].0, queries[qi].1, ma, mb),
                                        format!("after the successful query the memo holds ({ma}, {mb}), which is outside the relation (stale assumption of a failed probe)"),
                                        json!({"env": env.to_string(), "history": hist_txt, "query": format!("{} <: {}", queries[qi].0, queries[qi].1), "stale_pair": format!("{ma} <: {mb}"), "equal": use_equal}),
                                    );
                                    rep.outcome("history:stale-memo");
                                    break;
                                }
                            }
                            // extend histories only through successful queries
                            let dg = memo_digest(&g2);
                            if seen.insert(dg) {
                                rep.states += 1;
                                let mut h = hist.clone();
                                h.push(qi);
                                next.push(h);
                            }
                        } else {
                            rep.outcome("history:no");
                        }
                    }
                }
            }
        }
        frontier = next;
        if frontier.is_empty() {
            break;
        }
    }
}

fn history_envs(tier: Tier) -> Vec<Env> {
    // the S3 family restricted to shapes where definitions refer to each other, plus the
    // mutant family of a few recursive environments
    let mut out = vec![];
    let nat = || p(P::Nat);
    let shapes: Vec<(Ty, Ty, Ty, Ty)> = {
        let mut s = vec![];
        let fa = |a: &str, b: &str, leaf: Ty| -> Vec<Ty> {
            vec![
                Ty::record(vec![(0, v(b)), (1, leaf.clone())]),
                Ty::record(vec![(0, Ty::opt(v(b))), (1, leaf.clone())]),
                Ty::record(vec![(0, Ty::vec(v(b))), (1, leaf.clone())]),
                Ty::variant(vec![(0, v(b)), (1, leaf.clone())]),
                Ty::record(vec![(0, v(a)), (1, leaf.clone())]),
                Ty::opt(Ty::record(vec![(0, v(a)), (1, leaf)])),
            ]
        };
        let fb = |a: &str, _b: &str| -> Vec<Ty> {
            vec![
                Ty::record(vec![(0, Ty::vec(v(a)))]),
                Ty::record(vec![(0, v(a)), (1, nat())]),
                Ty::opt(v(a)),
                Ty::func(vec![v(a)], vec![v(a)], vec![]),
                nat(),
            ]
        };
        for (i, a1) in fa("A", "B", nat()).into_iter().enumerate() {
            for (j, b1) in fb("A", "B").into_iter().enumerate() {
                for leaf2 in [nat(), p(P::Text), p(P::Int)] {
                    let a2 = fa("A2", "B2", leaf2)[i].clone();
                    let b2 = fb("A2", "B2")[j].clone();
                    s.push((a1.clone(), b1.clone(), a2, b2));
                }
            }
        }
        s
    };
    for (a1, b1, a2, b2) in shapes {
        let mut e = Env::new();
        e.0.insert("A".into(), a1);
        e.0.insert("B".into(), b1);
        e.0.insert("A2".into(), a2);
        e.0.insert("B2".into(), b2);
        if e.closed().is_ok() {
            out.push(e);
        }
    }
    if tier == Tier::Quick {
        out
    } else {
        let rhs = rhs_alphabet("A", "B");
        for e in gen::envs(&["A", "B"], &rhs).iter().step_by(11) {
            let e2 = e.rename(&|s| format!("{s}2"));
            for m in env_mutants(&e2).into_iter().step_by(9) {
                out.push(e.merge_disjoint(&m));
            }
        }
        out
    }
}

pub fn run(tier: Tier, replay: Option<&str>) -> i32 {
    if let Some(path) = replay {
        return replay_case(path);
    }
    let ctx = Ctx::new("C05", tier, tier.pick(300, 1500));
    let _quiet = StderrSilencer::new();
    let (qs, mut notes) = build_queries(tier);
    let mut rep = ctx.par_range("E1:queries-fresh-memo", qs.len() as u64, 256, || (), |_, i, rep| {
        check_query(&qs[i as usize], rep);
    });
    // reflexivity and transitivity on a reduced scope
    // NB: the spec's relation is itself not transitive through null-typed record fields
    // (record {0:nat} <: record {} <: record {0:null}, but nat </: null), so transitivity is
    // demanded on the null-free fragment only; elsewhere "exactly the spec relation" decides.
    let leaves = [P::Nat, P::Int, P::Text, P::Reserved];
    let tt = gen::terms(&alphabet_data(&leaves), 1);
    let tt: Vec<Ty> = tt.into_iter().step_by(tier.pick(2, 1)).collect();
    let n = tt.len() as u64;
    let r2 = ctx.par_range("E1:transitivity-triples", n * n, 64, || (), |_, idx, rep| {
        let (i, j) = ((idx / n) as usize, (idx % n) as usize);
        let env = TypeEnv::new();
        let (a, b) = (bridge::to_real_ty(&tt[i]), bridge::to_real_ty(&tt[j]));
        let ab = subtype::subtype_with_config(OptReport::Silence, &mut Gamma::new(), &env, &a, &b).is_ok();
        if i == j && !ab {
            rep.violation(&format!("reflexive|{}", tt[i]), "not reflexive".into(), json!({"t": tt[i].to_string()}));
        }
        if !ab {
            return;
        }
        for c in &tt {
            let rc = bridge::to_real_ty(c);
            rep.evaluations += 1;
            rep.transitions += 2;
            let bc = subtype::subtype_with_config(OptReport::Silence, &mut Gamma::new(), &env, &b, &rc).is_ok();
            if bc {
                let ac = subtype::subtype_with_config(OptReport::Silence, &mut Gamma::new(), &env, &a, &rc).is_ok();
                rep.traces_validated += 1;
                rep.nontrivial += 1;
                if !ac {
                    rep.violation(
                        &format!("transitive|{}|{}|{}", tt[i], tt[j], c),
                        format!("{} <: {} and {} <: {} but not {} <: {}", tt[i], tt[j], tt[j], c, tt[i], c),
                        json!({"a": tt[i].to_string(), "b": tt[j].to_string(), "c": c.to_string()}),
                    );
                }
            }
        }
    });
    rep.merge(r2);
    // text level + orbit on the S2 environments
    let rhs = rhs_alphabet("A", "B");
    let envs = gen::envs(&["A", "B"], &rhs);
    let mut text_cases: Vec<Env> = vec![];
    for e in envs.iter().step_by(tier.pick(7, 2)) {
        let e2 = e.rename(&|s| format!("{s}2"));
        text_cases.push(e.merge_disjoint(&e2));
        for m in env_mutants(&e2).into_iter().step_by(tier.pick(6, 2)) {
            text_cases.push(e.merge_disjoint(&m));
        }
    }
    notes.push(format!("text level: {} environment pairs, 6 orbit variants each (field/definition order, renaming incl. names table0/table1 and swapped names)", text_cases.len()));
    let r3 = ctx.par_range("E1:text-level+orbit", text_cases.len() as u64, 16, || (), |_, i, rep| {
        check_text_level(&text_cases[i as usize], rep, true);
    });
    rep.merge(r3);
    // E2 histories
    let henvs = history_envs(tier);
    let depth = tier.pick(3, 4);
    notes.push(format!("E2: {} environments, {} queries each, BFS depth {}", henvs.len(), tops("A", "B", "A2", "B2").len(), depth));
    let r4 = ctx.par_range("E2:memo-histories", henvs.len() as u64 * 2, 2, || (), |_, i, rep| {
        let e = &henvs[(i / 2) as usize];
        let q = tops("A", "B", "A2", "B2");
        explore_histories(e, &q, depth, i % 2 == 1, rep);
    });
    rep.merge(r4);
    rep.notes.extend(notes);
    drop(_quiet);
    finish(
        &ctx,
        rep,
        "queries = (environment, s, t); S1 all pairs of depth<=1 types and depth-2 types vs their 1- (thorough 2-) step neighbours; S2 all environments of two mutually recursive definitions over a 17-element right-hand-side alphabet vs every single-definition mutant (renamed), 10 top-level query shapes incl. opt-probe-then-reuse; S3 record pairs with one leaf flipped; S5 every primitive and five composites behind a definition and behind a chain of two, placed as record field (below / between / above other fields), variant payload, trailing function argument and result, service method component, under opt and vec, against every one-step neighbour of the shape in both directions; S4 services over five method names (5 interfaces x every sub-interface and one-method-changed variants); every query also on types whose field and method vectors are reversed / rotated (left, right, both sides and definitions; subtype and subtype_check_all); each query with a fresh memo through subtype (Silence/Warning/Error), subtype_check_all, equal; transitivity on all triples of a reduced scope; text level (service_compatible / report / service_equal) with 6 order/renaming variants and 1-3 variants in which the method types go through a definition present on one side only that refers to the colliding names; E2 = BFS over sequences of successful queries sharing one memo (states merged on memo content), answer and memo-subset-of-relation invariant checked on every transition. states = reachable type pairs visited by the gfp oracle + memo states; non-trivial = related pairs.",
        &["R3 (greatest fixed point over reachable pairs) is a correct reading of the spec's rules", "OptReport::Error is only required to be no more permissive than the spec"],
        json!({}),
    )
}

fn replay_case(path: &str) -> i32 {
    let s = std::fs::read_to_string(path).expect("replay file");
    let vj: serde_json::Value = serde_json::from_str(&s).expect("json");
    let c = &vj["case"];
    let mut rep = Report::new();
    let _quiet = StderrSilencer::new();
    if c["text_level"].as_bool() == Some(true) {
        let (n, o) = (c["new"].as_str().unwrap(), c["old"].as_str().unwrap());
        let r = service_compatible(CandidSource::Text(n), CandidSource::Text(o));
        let rr = service_compatibility_report(CandidSource::Text(n), CandidSource::Text(o));
        drop(_quiet);
        println!("service_compatible: {:?}\nreport entries: {:?}", r.is_ok(), rr.map(|v| v.len()).map_err(|e| e.to_string()));
        println!("(compare with the gfp verdict recorded in the replay file's message)");
        return 1;
    }
    if let Some(h) = c.get("history") {
        let (env, _) = parse_env_and_types(c["env"].as_str().unwrap(), "()").expect("env");
        let parse_q = |s: &str| -> (Ty, Ty) {
            let (a, b) = s.split_once(" <: ").unwrap();
            let (_, ts) = parse_env_and_types(c["env"].as_str().unwrap(), &format!("({a}, {b})")).unwrap();
            (ts[0].clone(), ts[1].clone())
        };
        let mut qs: Vec<(Ty, Ty)> = h.as_array().unwrap().iter().map(|x| parse_q(x.as_str().unwrap())).collect();
        let hist_len = qs.len();
        qs.push(parse_q(c["query"].as_str().unwrap()));
        let renv = bridge::to_real_env(&env);
        let use_equal = c["equal"].as_bool() == Some(true);
        let mut g = Gamma::new();
        let mut last = false;
        for (s, t) in &qs {
            let (rs, rt) = (bridge::to_real_ty(s), bridge::to_real_ty(t));
            last = if use_equal { subtype::equal(&mut g, &renv, &rs, &rt).is_ok() } else { subtype::subtype_with_config(OptReport::Silence, &mut g, &renv, &rs, &rt).is_ok() };
        }
        let (s, t) = &qs[hist_len];
        let want = if use_equal { sub::equal(&env, s, t) } else { sub::subtype(&env, s, t) };
        drop(_quiet);
        println!("after history: answer {last}; greatest fixed point: {want}; memo = {:?}", memo_digest(&g));
        let stale = g.iter().any(|(a, b)| {
            let (ma, mb) = (bridge::from_real_ty(a, &mut Env::new()).unwrap(), bridge::from_real_ty(b, &mut Env::new()).unwrap());
            !(if use_equal { sub::equal(&env, &ma, &mb) } else { sub::subtype(&env, &ma, &mb) })
        });
        if last != want || stale {
            println!("REPRODUCED (answer differs: {}, stale memo entry: {})", last != want, stale);
            return 1;
        }
        println!("not reproduced");
        return 0;
    }
    let (env, ts) = parse_env_and_types(c["env"].as_str().unwrap(), &format!("({}, {})", c["s"].as_str().unwrap(), c["t"].as_str().unwrap())).expect("types");
    check_query(&Query { env, s: ts[0].clone(), t: ts[1].clone(), family: "replay" }, &mut rep);
    drop(_quiet);
    for v in &rep.violations {
        println!("REPRODUCED {} :: {}", v.key, v.msg);
    }
    if rep.violations.is_empty() {
        println!("not reproduced");
        0
    } else {
        1
    }
}

#[allow(dead_code)]
fn unused(_: BTreeSet<u8>) {}
