//! C02 — decoding at an expected type is exactly the specification's coercion.
//! E1: (wire type, value, expected type) products; E3: <=1-2 byte deviations, table
//! transformations and hostile tables. Oracle: R2 strict decoder followed by R4.
use super::common::*;
use mclib::bridge;
use mclib::engine::{finish, Ctx, Report, Tier};
use mclib::scopes::*;
use refmodel::gen::{self, ValDomain};
use refmodel::ty::{Env, Ty, P};
use refmodel::val::Val;
use refmodel::wire::{self, Entry, Header, Limits};
use serde_json::json;

/// one (message, expected) pair
#[derive(Clone)]
pub struct Case {
    pub bytes: Vec<u8>,
    pub eenv: Env,
    pub etys: Vec<Ty>,
    pub family: &'static str,
    /// also check `from_bytes` (no expected type) against the wire values
    pub untyped: bool,
    /// spell these field ids by name in the expected type handed to the implementation
    pub names: Vec<(u32, String)>,
}

pub fn check_case(c: &Case, rep: &mut Report, lim: &Limits) {
    rep.evaluations += 1;
    rep.transitions += 1;
    let (m, d) = model_decode_at(&c.bytes, &c.eenv, &c.etys, lim);
    let label = |id: u32| match c.names.iter().find(|n| n.0 == id) {
        Some((_, n)) => candid::types::Label::Named(n.clone()),
        None => candid::types::Label::Id(id),
    };
    let renv = bridge::to_real_env_with(&c.eenv, &label);
    let rtys: Vec<_> = c.etys.iter().map(|t| bridge::to_real_ty_with(t, &label)).collect();
    let i = impl_decode_at(&c.bytes, &renv, &rtys);
    rep.traces_validated += 1;
    rep.outcome(&format!("{}:{}", c.family, outcome_class(&m)));
    if matches!(m, ModelOutcome::Ok(_)) {
        rep.nontrivial += 1;
    }
    if let Some(msg) = compare(&m, &i) {
        let key = format!(
            "decode|env={}|tys={}|bytes={}",
            c.eenv.to_string().replace('\n', ""),
            tys_text(&c.etys),
            hex(&c.bytes)
        );
        let mut case = decode_case_json(&c.bytes, &c.eenv, &c.etys);
        if let Some(d) = &d {
            case["wire_types"] = json!(tys_text(&d.tys));
            case["wire_env"] = json!(d.env.to_string());
            case["wire_values"] = json!(vals_text(&d.vals));
        }
        case["family"] = json!(c.family);
        rep.violation(&key, msg, case);
    }
    if c.untyped {
        rep.evaluations += 1;
        rep.transitions += 1;
        let mu = match &d {
            Some(d) => ModelOutcome::Ok(d.vals.clone()),
            None => match &m {
                ModelOutcome::OutOfScope(s) => ModelOutcome::OutOfScope(s.clone()),
                ModelOutcome::Malformed(s) => ModelOutcome::Malformed(s.clone()),
                _ => unreachable!(),
            },
        };
        let iu = impl_decode_untyped(&c.bytes);
        rep.traces_validated += 1;
        if let Some(msg) = compare(&mu, &iu) {
            let key = format!("from_bytes|bytes={}", hex(&c.bytes));
            rep.violation(&key, format!("from_bytes: {msg}"), json!({"bytes": hex(&c.bytes), "untyped": true}));
        }
    }
    if rep.samples.len() < 3 {
        rep.sample(json!({"family": c.family, "bytes": hex(&c.bytes), "expected": tys_text(&c.etys), "spec": format!("{m:?}")}));
    }
}

pub struct Scope {
    pub cases: Vec<Case>,
}

fn enc(env: &Env, tys: &[Ty], vals: &[Val]) -> Option<Vec<u8>> {
    wire::encode(env, tys, vals, true).ok()
}

pub fn build_scope(tier: Tier) -> (Scope, Vec<String>) {
    let mut cases: Vec<Case> = vec![];
    let mut notes = vec![];
    let dom = ValDomain::tiny();
    let empty = Env::new();
    // ---- A: full product of depth-<=1 data types on both sides
    let t1 = gen::terms(&alphabet_data(&LEAVES_WIDE), 1);
    let t1n = gen::terms(&alphabet_data(&LEAVES_NARROW), 1);
    let mut a = 0;
    for w in &t1 {
        for v in gen::values(&empty, w, &dom, 2) {
            let Some(b) = enc(&empty, &[w.clone()], &[v.clone()]) else { continue };
            for e in &t1 {
                cases.push(Case { bytes: b.clone(), eenv: empty.clone(), etys: vec![e.clone()], family: "A:depth1xdepth1", untyped: false, names: vec![] });
                a += 1;
            }
        }
    }
    notes.push(format!("A: {} wire/expected types of depth<=1, {} cases", t1.len(), a));
    // ---- B: depth-2 wire types (one constructor around a depth-1 type) x all one-step neighbours
    let wrap: Vec<Box<dyn Fn(Ty) -> Ty>> = vec![
        Box::new(Ty::opt),
        Box::new(Ty::vec),
        Box::new(|t| Ty::record(vec![(0, t)])),
        Box::new(|t| Ty::record(vec![(0, t), (1, Ty::Prim(P::Nat))])),
        Box::new(|t| Ty::variant(vec![(0, t), (1, Ty::Prim(P::Null))])),
    ];
    let inner = if tier == Tier::Quick { &t1n } else { &t1 };
    let mut bcount = 0;
    for (wi, wf) in wrap.iter().enumerate() {
        for t in inner {
            let w = wf(t.clone());
            let vals = gen::values(&empty, &w, &dom, 3);
            let mut exps = mutants(&w);
            exps.push(w.clone());
            if tier == Tier::Thorough {
                // two-step neighbours
                let mut two = vec![];
                for m in mutants(&w).iter().take(40) {
                    for m2 in mutants(m) {
                        if !exps.contains(&m2) && !two.contains(&m2) {
                            two.push(m2);
                        }
                    }
                }
                exps.extend(two);
            }
            for v in &vals {
                let Some(b) = enc(&empty, &[w.clone()], &[v.clone()]) else { continue };
                for e in &exps {
                    cases.push(Case { bytes: b.clone(), eenv: empty.clone(), etys: vec![e.clone()], family: "B:depth2xneighbours", untyped: wi == 0, names: vec![] });
                    bcount += 1;
                }
            }
        }
    }
    notes.push(format!("B: {} cases", bcount));
    // ---- C: recursive environments on both sides; expected = same family, every
    //         single-definition mutant of it
    let mut ccount = 0;
    for (wenv, wt) in recursive_envs("w") {
        let vals = gen::values(&wenv, &wt, &dom, if tier == Tier::Quick { 4 } else { 5 });
        for (eenv0, et) in recursive_envs("e") {
            let mut eenvs = vec![eenv0.clone()];
            eenvs.extend(env_mutants(&eenv0));
            for eenv in eenvs {
                for v in &vals {
                    let Some(b) = enc(&wenv, &[wt.clone()], &[v.clone()]) else { continue };
                    cases.push(Case { bytes: b, eenv: eenv.clone(), etys: vec![et.clone()], family: "C:recursive", untyped: true, names: vec![] });
                    ccount += 1;
                }
            }
        }
    }
    notes.push(format!("C: {} cases", ccount));
    // ---- D: argument sequences of length 0..3 on both sides
    let argt = vec![Ty::Prim(P::Nat), Ty::opt(Ty::Prim(P::Nat)), Ty::Prim(P::Null), Ty::Prim(P::Reserved), Ty::Prim(P::Text), Ty::opt(Ty::Prim(P::Text))];
    let mut seqs: Vec<Vec<Ty>> = vec![];
    for n in 0..=3 {
        seqs.extend(gen::product(&vec![argt.clone(); n]));
    }
    let mut dcount = 0;
    for ws in &seqs {
        let vs: Vec<Vec<Val>> = ws.iter().map(|t| gen::values(&empty, t, &dom, 1).into_iter().rev().take(1).collect()).collect();
        let vals: Vec<Val> = vs.into_iter().map(|mut x| x.pop().unwrap()).collect();
        let Some(b) = enc(&empty, ws, &vals) else { continue };
        for es in &seqs {
            cases.push(Case { bytes: b.clone(), eenv: empty.clone(), etys: es.clone(), family: "D:argument-sequences", untyped: false, names: vec![] });
            dcount += 1;
        }
    }
    notes.push(format!("D: {} sequences per side, {} cases", seqs.len(), dcount));
    // ---- E: references: every pair of func/service types of the reference alphabet;
    //         two reference values per message, the first under an opt (shared decoder memo)
    let refs: Vec<Ty> = gen::terms(&alphabet_refs(), 2).into_iter().filter(|t| matches!(t, Ty::Func(_) | Ty::Service(_))).collect();
    let refs: Vec<Ty> = if tier == Tier::Quick { refs.into_iter().step_by(3).collect() } else { refs };
    let mut ecount = 0;
    for w in &refs {
        let v = gen::values(&empty, w, &ValDomain::tiny(), 1).pop().unwrap();
        let Some(b1) = enc(&empty, &[w.clone()], &[v.clone()]) else { continue };
        let Some(b2) = enc(&empty, &[Ty::opt(w.clone()), w.clone()], &[Val::some(v.clone()), v.clone()]) else { continue };
        for e in &refs {
            cases.push(Case { bytes: b1.clone(), eenv: empty.clone(), etys: vec![e.clone()], family: "E:references", untyped: false, names: vec![] });
            cases.push(Case { bytes: b2.clone(), eenv: empty.clone(), etys: vec![Ty::opt(e.clone()), e.clone()], family: "E:references-opt-then-plain", untyped: false, names: vec![] });
            ecount += 2;
        }
        for e in [Ty::Prim(P::Principal), Ty::opt(Ty::Prim(P::Principal)), Ty::Prim(P::Reserved), Ty::Prim(P::Text)] {
            cases.push(Case { bytes: b1.clone(), eenv: empty.clone(), etys: vec![e], family: "E:references", untyped: true, names: vec![] });
            ecount += 1;
        }
    }
    notes.push(format!("E: {} reference types, {} cases", refs.len(), ecount));
    // ---- F: legal non-canonical tables: permutations, unused entries, duplicated entries
    let mut fcount = 0;
    let fsrc: Vec<(Env, Ty)> = recursive_envs("w")
        .into_iter()
        .chain(t1n.iter().filter(|t| t.size() >= 3).take(40).map(|t| (Env::new(), Ty::vec(t.clone()))))
        .collect();
    for (wenv, wt) in fsrc {
        let vals = gen::values(&wenv, &wt, &dom, 3);
        for v in vals.iter().take(6) {
            let Ok((h, m)) = wire::encode_parts(&wenv, &[wt.clone()], &[v.clone()], false) else { continue };
            let n = h.table.len();
            let mut variants: Vec<Header> = vec![];
            if n >= 2 {
                let rev: Vec<usize> = (0..n).rev().collect();
                variants.push(h.permute(&rev));
                let mut rot: Vec<usize> = (1..n).collect();
                rot.push(0);
                variants.push(h.permute(&rot));
            }
            variants.push(h.with_unused(Entry::Opt(-1)));
            variants.push(h.with_unused(Entry::Future { op: -30, payload: vec![1, 2, 3] }));
            variants.push(h.with_unused(Entry::Record(vec![(0, n as i64)]))); // self-referential unused record
            if n >= 1 {
                variants.push(h.with_duplicate(0));
            }
            for hv in variants {
                let mut b = hv.to_bytes();
                b.extend(&m);
                // expected: the wire type itself (through a renamed copy of the environment) and reserved
                let eenv = wenv.rename(&|s| format!("x{s}"));
                let et = wt.rename(&|s| format!("x{s}"));
                cases.push(Case { bytes: b.clone(), eenv, etys: vec![et], family: "F:noncanonical-table", untyped: true, names: vec![] });
                cases.push(Case { bytes: b, eenv: Env::new(), etys: vec![Ty::Prim(P::Reserved)], family: "F:noncanonical-table", untyped: false, names: vec![] });
                fcount += 2;
            }
        }
    }
    notes.push(format!("F: {} cases", fcount));
    // ---- L: expected types that spell their labels by name (the decoder hands names to the
    //         value visitor): every hostile name in record, variant and surplus-field position
    let mut lcount = 0;
    for name in ["_", ",", "a,b", ",name,unit", "a", "", "true", "id", "\u{540d}\u{5b57}", "_0_", "0", "a b", "\"", "type"] {
        let id = refmodel::hash::idl_hash(name);
        let names = vec![(id, name.to_string())];
        let shapes: Vec<(Ty, Vec<Val>)> = vec![
            (Ty::record(vec![(id, Ty::Prim(P::Nat))]), vec![Val::record(vec![(id, Val::nat(1))])]),
            (Ty::variant(vec![(id, Ty::Prim(P::Null))]), vec![Val::Variant(id, Box::new(Val::Null))]),
            (Ty::variant(vec![(id, Ty::Prim(P::Nat)), (id.wrapping_add(1), Ty::Prim(P::Null))]), vec![Val::Variant(id, Box::new(Val::nat(7))), Val::Variant(id.wrapping_add(1), Box::new(Val::Null))]),
            (Ty::variant(vec![(id, Ty::record(vec![(id, Ty::Prim(P::Text))]))]), vec![Val::Variant(id, Box::new(Val::record(vec![(id, Val::Text("x".into()))])))]),
            (Ty::vec(Ty::record(vec![(id, Ty::opt(Ty::Prim(P::Nat)))])), vec![Val::Vec(vec![Val::record(vec![(id, Val::some(Val::nat(2)))]), Val::record(vec![(id, Val::none())])])]),
        ];
        for (t, vals) in shapes {
            for v in vals {
                let Some(b) = enc(&empty, &[t.clone()], &[v.clone()]) else { continue };
                // at its own type, at the type with one more (optional) field, and from a wire with a surplus field
                let mut exps = vec![t.clone()];
                if let Ty::Record(fs) = &t {
                    let mut g = fs.clone();
                    g.push((id.wrapping_add(9), Ty::opt(Ty::Prim(P::Nat))));
                    exps.push(Ty::record(g));
                    exps.push(Ty::record(vec![]));
                }
                for e in exps {
                    cases.push(Case { bytes: b.clone(), eenv: empty.clone(), etys: vec![e], family: "L:named-labels", untyped: false, names: names.clone() });
                    lcount += 1;
                }
            }
        }
        // surplus wire fields below and above the named one
        let wt = Ty::record(vec![(id.wrapping_sub(1), Ty::Prim(P::Text)), (id, Ty::Prim(P::Nat)), (id.wrapping_add(1), Ty::Prim(P::Bool))]);
        let wv = Val::record(vec![(id.wrapping_sub(1), Val::Text("s".into())), (id, Val::nat(3)), (id.wrapping_add(1), Val::Bool(true))]);
        if let Some(b) = enc(&empty, &[wt], &[wv]) {
            cases.push(Case { bytes: b, eenv: empty.clone(), etys: vec![Ty::record(vec![(id, Ty::Prim(P::Nat))])], family: "L:named-labels", untyped: false, names: names.clone() });
            lcount += 1;
        }
    }
    notes.push(format!("L: {} cases", lcount));
    // ---- K: length boundaries (text, blob, vectors, method names, long big numbers) at their own type, at
    //         reserved (skipped), under an added opt, and at a mismatching type under opt (skipped after a probe)
    let mut kcount = 0;
    for (wenv, wt, v) in length_boundary_cases() {
        let Some(b) = enc(&wenv, &[wt.clone()], &[v]) else { continue };
        for e in [wt.clone(), Ty::Prim(P::Reserved), Ty::opt(wt.clone()), Ty::opt(Ty::Prim(P::Bool))] {
            cases.push(Case { bytes: b.clone(), eenv: wenv.clone(), etys: vec![e], family: "K:length-boundaries", untyped: true, names: vec![] });
            kcount += 1;
        }
    }
    notes.push(format!("K: {} cases", kcount));
    // ---- M: wire and expected type are one-step neighbours, and the component that decides the coercion rule
    //         (optional? same primitive?) sits behind a definition or a chain of two on one or both sides
    let mut mcount = 0;
    for (env, s, t) in alias_neighbour_pairs("") {
        let vals = gen::values(&env, &s, &dom, 3);
        let n = vals.len();
        for (k, v) in vals.into_iter().enumerate() {
            if !(k == 0 || k + 1 == n || k == n / 2) {
                continue;
            }
            let Some(b) = enc(&env, &[s.clone()], &[v]) else { continue };
            cases.push(Case { bytes: b, eenv: env.clone(), etys: vec![t.clone()], family: "M:alias-neighbours", untyped: false, names: vec![] });
            mcount += 1;
        }
    }
    notes.push(format!("M: {} cases", mcount));
    // ---- T: an expected environment whose definitions are called like the decoder's own
    //         names for wire table entries
    let mut tcount = 0;
    let tenv = Env::from(vec![("table0", Ty::opt(Ty::record(vec![(0, Ty::Prim(P::Nat)), (1, Ty::var("table0"))]))), ("table1", Ty::Prim(P::Text))]);
    for (wenv, wt) in recursive_envs("w").into_iter().take(2) {
        for v in gen::values(&wenv, &wt, &dom, 3).into_iter().take(4) {
            let Some(b) = enc(&wenv, &[wt.clone()], &[v]) else { continue };
            for et in [Ty::var("table0"), Ty::var("table1"), Ty::Prim(P::Reserved)] {
                cases.push(Case { bytes: b.clone(), eenv: tenv.clone(), etys: vec![et], family: "T:env-named-like-wire-table", untyped: false, names: vec![] });
                tcount += 1;
            }
        }
    }
    notes.push(format!("T: {} cases", tcount));
    // ---- H: hostile tables: all tables of <= 2 entries over an entry alphabet
    let ralpha: Vec<i64> = vec![0, 1, 2, -1, -3, -17, -24, -25, -18];
    let mut ealpha: Vec<Entry> = vec![];
    for r in &ralpha {
        ealpha.push(Entry::Opt(*r));
        ealpha.push(Entry::Vec(*r));
    }
    for (a, b) in [(0u64, 1u64), (1, 0), (1, 1), (0, u32::MAX as u64), (0, u32::MAX as u64 + 1)] {
        ealpha.push(Entry::Record(vec![(a, -3), (b, -1)]));
        ealpha.push(Entry::Variant(vec![(a, -3), (b, 0)]));
    }
    ealpha.push(Entry::Record(vec![]));
    ealpha.push(Entry::Variant(vec![]));
    ealpha.push(Entry::Record(vec![(0, 0)]));
    ealpha.push(Entry::Record(vec![(0, 1)]));
    for modes in [vec![], vec![1u8], vec![2], vec![3], vec![0], vec![4], vec![1, 1], vec![1, 2]] {
        ealpha.push(Entry::Func { args: vec![-3], rets: vec![], modes });
    }
    ealpha.push(Entry::Func { args: vec![0], rets: vec![1], modes: vec![] });
    for (m1, m2) in [("a", "b"), ("b", "a"), ("a", "a"), ("", "a")] {
        for r in [0i64, 1, -3] {
            ealpha.push(Entry::Service(vec![(m1.as_bytes().to_vec(), r), (m2.as_bytes().to_vec(), r)]));
        }
    }
    ealpha.push(Entry::Service(vec![(vec![0xff], 1)]));
    ealpha.push(Entry::Service(vec![]));
    ealpha.push(Entry::Future { op: -25, payload: vec![] });
    ealpha.push(Entry::Future { op: -100, payload: vec![0xff; 3] });
    ealpha.push(Entry::Raw(vec![0x7f])); // primitive in the table
    ealpha.push(Entry::Raw(vec![0x68])); // principal in the table
    ealpha.push(Entry::Raw(vec![0x00])); // non-negative opcode
    let hexp: Vec<Vec<Ty>> = vec![vec![Ty::Prim(P::Reserved)], vec![Ty::opt(Ty::Prim(P::Nat))], vec![]];
    let mut tables: Vec<Vec<Entry>> = vec![vec![]];
    for e in &ealpha {
        tables.push(vec![e.clone()]);
    }
    for e in &ealpha {
        for f in &ealpha {
            tables.push(vec![e.clone(), f.clone()]);
        }
    }
    let mut hcount = 0;
    for t in &tables {
        for args in [vec![], vec![0i64], vec![1i64], vec![-3i64], vec![2i64]] {
            let h = Header { table: t.clone(), args: args.clone() };
            let hb = h.to_bytes();
            // value bytes: a few short candidates (most tables admit only the empty or one-byte value)
            for vb in [vec![], vec![0u8], vec![1, 0], vec![1, 1, 0], vec![0, 0]] {
                let mut b = hb.clone();
                b.extend(&vb);
                for es in &hexp {
                    cases.push(Case { bytes: b.clone(), eenv: Env::new(), etys: es.clone(), family: "H:hostile-tables", untyped: es.is_empty(), names: vec![] });
                    hcount += 1;
                }
            }
        }
    }
    notes.push(format!("H: entry alphabet {}, {} tables, {} cases", ealpha.len(), tables.len(), hcount));
    (Scope { cases }, notes)
}

pub fn run(tier: Tier, replay: Option<&str>) -> i32 {
    let lim = Limits::default();
    if let Some(path) = replay {
        return replay_case(path, &lim);
    }
    let ctx = Ctx::new("C02", tier, tier.pick(240, 1500));
    let (scope, notes) = build_scope(tier);
    let base = scope.cases.len() as u64;
    let mut rep = ctx.par_range("0-deviations", base, 512, || (), |_, i, rep| {
        check_case(&scope.cases[i as usize], rep, &lim);
    });
    // ---- G (E3): every <=1-byte deviation of the messages of families B..F (deduplicated messages)
    let mut seen = std::collections::HashSet::new();
    let mut gsrc: Vec<&Case> = vec![];
    for c in &scope.cases {
        if c.family.starts_with("A") || c.family.starts_with("H") || c.family.starts_with("K") || c.family.starts_with("M") {
            continue;
        }
        if seen.insert((c.bytes.clone(), c.etys.clone())) {
            gsrc.push(c);
        }
    }
    // one expected type per distinct message keeps the level affordable: take every k-th
    let stride = tier.pick(37, 5);
    let gsrc: Vec<&Case> = gsrc.into_iter().step_by(stride).collect();
    let r1 = ctx.par_range("1-deviation", gsrc.len() as u64, 4, || (), |_, i, rep| {
        let c = gsrc[i as usize];
        for m in byte_mutants(&c.bytes, &[0x00, 0x01, 0x7f, 0x80]) {
            let mc = Case { bytes: m, eenv: c.eenv.clone(), etys: c.etys.clone(), family: "G:1-byte-deviation", untyped: false, names: c.names.clone() };
            check_case(&mc, rep, &lim);
        }
    });
    rep.merge(r1);
    if tier == Tier::Thorough {
        let g2: Vec<&Case> = gsrc.iter().step_by(40).cloned().collect();
        let r2 = ctx.par_range("2-deviations", g2.len() as u64, 1, || (), |_, i, rep| {
            let c = g2[i as usize];
            for m in byte_mutants(&c.bytes, &[0x00]) {
                for m2 in byte_mutants(&m, &[]) {
                    let mc = Case { bytes: m2, eenv: c.eenv.clone(), etys: c.etys.clone(), family: "G:2-byte-deviation", untyped: false, names: c.names.clone() };
                    check_case(&mc, rep, &lim);
                }
            }
        });
        rep.merge(r2);
    }
    rep.states = rep.evaluations;
    rep.notes.extend(notes);
    finish(
        &ctx,
        rep,
        "cases = (message bytes, expected type sequence); families A (all depth<=1 wire x expected types x tiny values), B (depth-2 wire types x all 1- (thorough: 2-) step type neighbours), C (recursive environments x every single-definition mutant), D (argument sequences of length 0..3 both sides), E (function/service references incl. opt-probe then plain use), F (permuted / padded / duplicated type tables), H (all type tables of <=2 entries over a hostile entry alphabet), M (one-step neighbour pairs whose deciding component is behind an alias or alias chain), K (text / blob / vector / method-name lengths at 127..65536 and long big numbers, read at their type, skipped, and below opt), G (every 1-byte (thorough: 2-byte) deviation of B..F messages). Non-trivial = specification defines a coerced value.",
        &["reference models R2 (binary grammar), R3 (subtyping gfp), R4 (coercion) are correct readings of spec/Candid.md", "documented limits (10000 table entries, 29-byte principals) are parameters of the model"],
        json!({}),
    )
}

fn replay_case(path: &str, lim: &Limits) -> i32 {
    let s = std::fs::read_to_string(path).expect("replay file");
    let v: serde_json::Value = serde_json::from_str(&s).expect("json");
    let case = &v["case"];
    let bytes = unhex(case["bytes"].as_str().unwrap());
    let mut rep = Report::new();
    if case["untyped"].as_bool() == Some(true) {
        let c = Case { bytes, eenv: Env::new(), etys: vec![], family: "replay", untyped: true, names: vec![] };
        check_case(&c, &mut rep, lim);
    } else {
        let (eenv, etys) = parse_env_and_types(case["expected_env"].as_str().unwrap(), case["expected_types"].as_str().unwrap()).expect("types");
        let c = Case { bytes, eenv, etys, family: "replay", untyped: false, names: vec![] };
        check_case(&c, &mut rep, lim);
    }
    for v in &rep.violations {
        println!("REPRODUCED {} :: {}", v.key, v.msg);
    }
    if rep.violations.is_empty() {
        println!("not reproduced: implementation and specification agree on this case");
        0
    } else {
        1
    }
}
