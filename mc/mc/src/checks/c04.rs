//! C04 — accepted subtyping means decoding at the supertype cannot fail (E1).
//! The premise is the checker's own answer; the conclusion is tested on every value of
//! the subtype in scope, through the untyped decoder and through native Rust types.
use super::c05;
use super::common::*;
use super::corpus_all;
use candid::types::subtype::{subtype_with_config, Gamma, OptReport};
use corpus::Native;
use mclib::bridge;
use mclib::engine::{catch, finish, Ctx, Report, Tier};
use mclib::scopes::mutants;
use num_bigint::BigInt;
use refmodel::gen::{self, ValDomain};
use refmodel::ty::{Env, Ty};
use refmodel::val::{has_type, sim, Val};
use refmodel::wire;
use serde_json::json;

fn real_subtype(env: &Env, s: &Ty, t: &Ty) -> bool {
    let renv = bridge::to_real_env(env);
    catch(|| subtype_with_config(OptReport::Silence, &mut Gamma::new(), &renv, &bridge::to_real_ty(s), &bridge::to_real_ty(t)).is_ok()).unwrap_or(false)
}

/// A definition that reaches itself through `opt` only (`type A = opt A`): the spec's
/// coercion at such a type has no finite derivation (the constituent rule regresses for
/// ever), so these environments are outside the scope of the check.
fn opt_cycle(env: &Env) -> bool {
    for start in env.0.keys() {
        let mut cur: &Ty = match env.0.get(start) {
            Some(t) => t,
            None => continue,
        };
        let mut steps = 0;
        loop {
            match cur {
                Ty::Opt(x) => cur = x,
                Ty::Var(v) => {
                    if v == start {
                        return true;
                    }
                    match env.0.get(v) {
                        Some(t) => cur = t,
                        None => break,
                    }
                }
                _ => break,
            }
            steps += 1;
            if steps > 4 * env.0.len() + 8 {
                break;
            }
        }
    }
    false
}

fn check_pair(env: &Env, s: &Ty, t: &Ty, family: &str, tier: Tier, rep: &mut Report) {
    if opt_cycle(env) {
        rep.count("skipped_env_with_opt_only_cycle", 1);
        return;
    }
    // infinitely recursive records have no values; the header parser rewrites them to `empty`
    // on the wire side only, so reference types mentioning them are compared differently by
    // the decoder and by the type-level check: outside the scope (documented in DESIGN.md)
    if !wire::infinite_records(env).is_empty() {
        rep.count("skipped_env_with_uninhabited_record", 1);
        return;
    }
    rep.states += 1;
    if !real_subtype(env, s, t) {
        rep.outcome("premise:not-accepted");
        return;
    }
    rep.outcome("premise:accepted");
    let renv = bridge::to_real_env(env);
    let rt = bridge::to_real_ty(t);
    let dom = ValDomain::tiny();
    let vals = gen::values(env, s, &dom, tier.pick(3, 4) as isize);
    // a further supertype of t for the chain clause: every accepted one-step neighbour of t
    let t_root = env.unf(t).ok().cloned().unwrap_or(t.clone());
    let chain: Vec<Ty> = mutants(&t_root).into_iter().filter(|u| real_subtype(env, t, u)).take(tier.pick(4, 12)).collect();
    for v in vals {
        let Ok(bytes) = wire::encode(env, &[s.clone()], &[v.clone()], true) else { continue };
        rep.evaluations += 1;
        rep.transitions += 1;
        rep.traces_validated += 1;
        let case = || json!({"env": env.to_string(), "sub": s.to_string(), "sup": t.to_string(), "value": v.to_string(), "bytes": hex(&bytes), "family": family});
        let key = |c: &str| format!("{c}|env={}|{}<:{}|v={}", env.to_string().replace('\n', " "), s, t, v);
        let at_t = impl_decode_at(&bytes, &renv, &[rt.clone()]);
        match &at_t {
            ImplOutcome::Ok(x) => {
                rep.nontrivial += 1;
                if x.len() != 1 || !has_type(env, &x[0], t) {
                    rep.violation(&key("result-not-of-supertype"), format!("decoding at the supertype returns {}, which is not a value of {}", vals_text(x), t), case());
                }
            }
            other => {
                rep.violation(&key("decode-at-supertype-fails"), format!("subtype check accepts {s} <: {t}, but decoding {v} at the supertype gives {other:?}"), case());
                continue;
            }
        }
        // chains: via t then u, versus directly at u
        let ImplOutcome::Ok(x) = &at_t else { continue };
        for u in &chain {
            rep.evaluations += 1;
            rep.transitions += 3;
            let ru = bridge::to_real_ty(u);
            let direct = impl_decode_at(&bytes, &renv, &[ru.clone()]);
            // re-encode the intermediate value at t (reference encoder), decode at u
            let Ok(b2) = wire::encode(env, &[t.clone()], &[x[0].clone()], true) else { continue };
            let via = impl_decode_at(&b2, &renv, &[ru.clone()]);
            rep.traces_validated += 1;
            match (&direct, &via) {
                (ImplOutcome::Ok(a), ImplOutcome::Ok(b)) => {
                    if !(a.len() == 1 && b.len() == 1 && sim(&a[0], &b[0])) {
                        rep.violation(
                            &key(&format!("chain-incoherent|via={t}|to={u}")),
                            format!("directly at {u}: {}; via {t}: {} — differ by more than optional values turning null", vals_text(a), vals_text(b)),
                            case(),
                        );
                    }
                }
                (a, b) => {
                    if !real_subtype(env, s, u) {
                        // the checker itself is not transitive here; C05 reports that where the spec demands it
                        rep.outcome("chain:s-not-accepted-at-u");
                        continue;
                    }
                    rep.violation(&key(&format!("chain-fails|to={u}")), format!("direct {a:?}; via {t}: {b:?}"), case());
                }
            }
        }
    }
}

fn big(v: &Val) -> bool {
    match v {
        Val::Nat(n) => n.bits() > 64,
        Val::Int(i) => i.bits() > 63 || *i == -(BigInt::from(1) << 63u32),
        Val::Opt(Some(x)) => big(x),
        Val::Vec(xs) => xs.iter().any(big),
        Val::Record(fs) => fs.iter().any(|f| big(&f.1)),
        Val::Variant(_, x) => big(x),
        _ => false,
    }
}
fn wrong_array_len(v: &Val) -> bool {
    match v {
        Val::Vec(xs) => xs.len() != 2 || xs.iter().any(wrong_array_len),
        Val::Opt(Some(x)) => wrong_array_len(x),
        Val::Record(fs) => fs.iter().any(|f| wrong_array_len(&f.1)),
        Val::Variant(_, x) => wrong_array_len(x),
        _ => false,
    }
}

pub fn run(tier: Tier, replay: Option<&str>) -> i32 {
    if let Some(path) = replay {
        return replay_case(path);
    }
    let ctx = Ctx::new("C04", tier, tier.pick(300, 1500));
    let (qs, notes) = c05::build_queries(tier);
    // untyped half: every C05 query (pairs of small types, neighbours, recursive env pairs)
    let step = tier.pick(2, 1);
    let idx: Vec<usize> = (0..qs.len()).filter(|i| i % step == 0 || qs[*i].family.starts_with("S5")).collect();
    let mut rep = ctx.par_range("untyped: accepted pairs x values of the subtype", idx.len() as u64, 64, || (), |_, i, rep| {
        let q = &qs[idx[i as usize]];
        check_pair(&q.env, &q.s, &q.t, q.family, tier, rep);
    });
    rep.notes.extend(notes);
    rep.notes.push(format!("untyped half uses every {step}-th query of the C05 scope ({} pairs)", idx.len()));
    // native half: all ordered pairs of a reduced corpus
    let all = corpus_all::entries();
    let reduced: Vec<usize> = (0..all.len()).filter(|i| i % tier.pick(5, 2) == 0 || all[*i].name.len() < 10 || all[*i].name.contains("Evt") || all[*i].name.contains("Hold") || all[*i].name.contains("Kind")).collect();
    drop(all);
    let m = reduced.len() as u64;
    let r2 = ctx.par_range("native: ordered pairs of corpus types accepted by the checker", m * m, 256, corpus_all::entries, |es, k, rep| {
        let (a, b) = (&es[reduced[(k / m) as usize]], &es[reduced[(k % m) as usize]]);
        if a.name == b.name {
            return;
        }
        rep.states += 1;
        let (ea, ta) = (a.model_ty)();
        let (eb, tb) = (b.model_ty)();
        let env = ea.merge_disjoint(&eb);
        if !real_subtype(&env, &ta, &tb) {
            return;
        }
        rep.outcome("native-premise:accepted");
        for vi in 0..(a.nvals)() {
            let Ok((bytes, val)) = (a.encode)(vi) else { continue };
            rep.evaluations += 1;
            rep.transitions += 1;
            rep.traces_validated += 1;
            match (b.decode)(&bytes) {
                Native::Ok { .. } => rep.nontrivial += 1,
                Native::Err(e) => {
                    let excused = (big(&val) && (b.name.contains("128") || b.name.contains("usize"))) || (b.name.contains(";2]") && wrong_array_len(&val));
                    if excused {
                        rep.outcome("native:documented-host-limit");
                    } else {
                        rep.violation(
                            &format!("native-decode-at-supertype-fails|{}|{}|{}", a.name, b.name, e.split(':').next().unwrap_or("")),
                            format!("checker accepts {} <: {}, but {} value #{vi} ({val}) does not decode at {}: {}", a.name, b.name, a.name, b.name, first_line(&e)),
                            json!({"sub_type": a.name, "sup_type": b.name, "value_index": vi, "bytes": hex(&bytes)}),
                        );
                        break;
                    }
                }
                Native::Panic(p) => rep.violation(&format!("native-panic|{}|{}", a.name, b.name), p, json!({"sub_type": a.name, "sup_type": b.name, "value_index": vi, "bytes": hex(&bytes)})),
            }
        }
    });
    rep.merge(r2);
    rep.notes.push(format!("native half: {m} x {m} ordered pairs of corpus types"));
    finish(
        &ctx,
        rep,
        "pairs (environment, t, t') from the C05 scope for which the REAL subtype check answers yes; for every tiny-domain value v of t: R2-encode at t, decode at t' with the real untyped decoder: must succeed and R1 must type the result at t'; chains: for accepted one-step neighbours t'' of t': decode at t', re-encode at t', decode at t'' versus decode directly at t'': related by ~ (optional values turning null). Native half: all ordered pairs (T, T') of a reduced Rust corpus accepted by the checker: every small value of T decodes natively at T' (128-bit/usize range and fixed array length excused). Non-trivial = successful decodings under an accepted premise.",
        &["R1 typing and ~, R2 encoder", "premise is the implementation's own subtype answer (pinned to the spec relation by C05)"],
        json!({}),
    )
}

fn replay_case(path: &str) -> i32 {
    let s = std::fs::read_to_string(path).expect("replay file");
    let v: serde_json::Value = serde_json::from_str(&s).expect("json");
    let c = &v["case"];
    if let Some(sup) = c.get("sup_type") {
        let es = corpus_all::entries();
        let b = es.iter().find(|e| e.name == sup.as_str().unwrap()).expect("type");
        let r = (b.decode)(&unhex(c["bytes"].as_str().unwrap()));
        println!("{r:?}");
        return if matches!(r, Native::Ok { .. }) { 0 } else { println!("REPRODUCED"); 1 };
    }
    let (env, ts) = parse_env_and_types(c["env"].as_str().unwrap(), &format!("({}, {})", c["sub"].as_str().unwrap(), c["sup"].as_str().unwrap())).expect("types");
    let bytes = unhex(c["bytes"].as_str().unwrap());
    let r = impl_decode_at(&bytes, &bridge::to_real_env(&env), &[bridge::to_real_ty(&ts[1])]);
    println!("subtype accepted: {}; decode at supertype: {r:?}", real_subtype(&env, &ts[0], &ts[1]));
    if matches!(r, ImplOutcome::Ok(_)) {
        println!("decoding succeeds (compare the value with the message in the replay file)");
        0
    } else {
        println!("REPRODUCED");
        1
    }
}
