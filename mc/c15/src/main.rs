//! C15 — field names and numeric ids are identified consistently by the specification's
//! hash (E1). See /verif/DESIGN.md section 5 and /verif/mc/README-dev.md.
//!
//! Subject: `candid::idl_hash`, `Label::{get_id, eq, cmp, hash}`, `field!/record!/variant!/
//! service!`, `candid::utils::check_unique`, the text parsers (types and values), the binary
//! header parser, `IDLValue::annotate_type`, and `#[derive(CandidType)]` (second copy of the
//! hash, sorting, uniqueness assertion, `#[serde(rename)]`, raw identifiers).
//! Oracle: R7 (`refmodel::hash::idl_hash`) for ids, R2 (`refmodel::wire`, strict) for the
//! wire; expectations are computed from label ids only.
//!
//! `c15 --tier quick|thorough`, `c15 --replay <file>`, `c15 --prepare` (write and pre-build
//! the scratch crates under /verif/work with target dir /verif/mc/target/derive_corpus).
mod checks;
mod derive;
mod labels;
mod macros;

use checks::{CrossCase, LSpec, Shape};
use labels::{h, quote_candid, Collisions};
use mclib::engine::{finish, install_quiet_panic_hook, Ctx, Report, Tier};
use refmodel::wire::Limits;
use serde_json::{json, Value};

fn parse_args() -> (Tier, Option<String>, Vec<String>) {
    let args: Vec<String> = std::env::args().collect();
    let mut tier = match std::env::var("VERIF_TIER").as_deref() {
        Ok("thorough") => Tier::Thorough,
        _ => Tier::Quick,
    };
    let mut replay = None;
    let mut rest = vec![];
    let mut i = 1;
    while i < args.len() {
        match args[i].as_str() {
            "--tier" => {
                i += 1;
                tier = if args.get(i).map(|s| s.as_str()) == Some("thorough") { Tier::Thorough } else { Tier::Quick };
            }
            "--replay" => {
                i += 1;
                replay = args.get(i).cloned();
            }
            o => rest.push(o.to_string()),
        }
        i += 1;
    }
    (tier, replay, rest)
}

fn machinery_failure(msg: &str) -> ! {
    eprintln!("MACHINERY-FAILURE property=C15: {msg}");
    std::process::exit(2);
}

fn phase(notes: &mut Vec<String>, ctx: &Ctx, name: &str) {
    notes.push(format!("timing: {name} finished at {:.1}s", ctx.start.elapsed().as_secs_f64()));
}

fn dedup(v: Vec<String>) -> Vec<String> {
    let mut out: Vec<String> = vec![];
    for s in v {
        if !out.contains(&s) {
            out.push(s);
        }
    }
    out
}

/// Every name used anywhere (part 1 extras; thorough label alphabets).
fn all_names(c: &Collisions) -> Vec<String> {
    let mut v = labels::identifiers();
    v.extend(labels::all_keywords());
    v.extend(labels::unicode_set());
    v.extend(labels::numeric_looking());
    v.extend(labels::quoted_only());
    for (a, b) in c.all_pairs() {
        v.push(a);
        v.push(b);
    }
    for (s, _) in &c.id_preimages {
        v.push(s.clone());
    }
    dedup(v)
}

/// The label alphabet of parts 4 and 5a (quick tier): about 60 names of every class.
fn lambda(c: &Collisions, tier: Tier) -> Vec<String> {
    if tier == Tier::Thorough {
        return all_names(c);
    }
    let mut v: Vec<String> = vec![];
    for s in ["a", "b", "z", "A", "_a", "foo", "bar", "fooBar", "created_at_time", "Ok", "x1", "id"] {
        v.push(s.into());
    }
    for s in ["type", "record", "nat", "service", "null", "true", "opt", "fn", "self", "class", "__proto__", "constructor"] {
        v.push(s.into());
    }
    for s in ["\u{e9}", "e\u{301}", "\u{df}", "\u{540d}\u{524d}", "\u{1f600}", "\u{10ffff}", "\u{5e9}\u{5dc}\u{5d5}\u{5dd}", "\u{202e}abc", "a\u{200b}b", "\0", "a\0b", "\n"] {
        v.push(s.into());
    }
    for s in ["", " ", "a b", "a-b", "a.b", "a,b", "5,id,unit", "_", "\"", "\\", "a\"b", "{", "//", "r#type", "9lives"] {
        v.push(s.into());
    }
    for s in ["0", "1", "01", "42", "4294967295", "4294967296", "0x10", "-1"] {
        v.push(s.into());
    }
    // one member of a colliding pair (its partner is a part 5 matter), names with extreme ids
    if let Some((a, _)) = c.ident_pairs.first() {
        v.push(a.clone());
    }
    if let Some((a, _)) = c.nonident_pairs.first() {
        v.push(a.clone());
    }
    v.push(c.long_pair.0.clone());
    for (s, id) in &c.id_preimages {
        if [0, 1, 0x7fff_ffff, 0x8000_0000, 0xffff_ffff].contains(id) {
            v.push(s.clone());
        }
    }
    dedup(v)
}

/// Reduced label set of part 2.
fn label_set(c: &Collisions, tier: Tier) -> Vec<LSpec> {
    let names: Vec<String> = if tier == Tier::Thorough {
        all_names(c)
    } else {
        let mut v: Vec<String> = vec![];
        for s in ["a", "b", "ab", "ba", "foo", "bar", "id", "Ok", "type", "record", "fn", "class", "true", "", " ", "a b", "\"", "0", "1", "01", "4294967295", "\u{e9}", "e\u{301}", "\u{540d}\u{524d}", "\u{1f600}", "\u{5e9}\u{5dc}\u{5d5}\u{5dd}", "\0", "a\0b"] {
            v.push(s.into());
        }
        for (a, b) in c.all_pairs() {
            v.push(a);
            v.push(b);
        }
        for (s, _) in &c.id_preimages {
            v.push(s.clone());
        }
        dedup(v)
    };
    let mut out: Vec<LSpec> = vec![];
    for (i, n) in names.iter().enumerate() {
        out.push(LSpec::Named(n.clone()));
        out.push(LSpec::Id(h(n)));
        if i % 2 == 0 {
            out.push(LSpec::Unnamed(h(n)));
        }
    }
    for id in [0u32, 1, 2, 0x7fff_ffff, 0x8000_0000, 0xffff_fffe, 0xffff_ffff] {
        out.push(LSpec::Id(id));
        out.push(LSpec::Unnamed(id));
    }
    let mut uniq: Vec<LSpec> = vec![];
    for l in out {
        if !uniq.contains(&l) {
            uniq.push(l);
        }
    }
    uniq
}

/// (a_text, b_text, id_a, id_b) source spellings for part 5a.
fn dup_pairs(c: &Collisions, lam: &[String]) -> Vec<(String, String, u32, u32)> {
    let mut v: Vec<(String, String, u32, u32)> = vec![];
    let q = quote_candid;
    for (a, b) in c.all_pairs() {
        let (ia, ib) = (h(&a), h(&b));
        v.push((q(&a), q(&b), ia, ib));
        v.push((q(&b), q(&a), ib, ia));
        v.push((q(&a), ib.to_string(), ia, ib));
        let unq = |s: &str| labels::is_ascii_ident(s) && !labels::CANDID_KEYWORDS.contains(&s);
        if unq(&a) && unq(&b) {
            v.push((a.clone(), b.clone(), ia, ib));
        }
        if unq(&a) {
            v.push((a.clone(), q(&b), ia, ib));
        }
    }
    for (i, l) in lam.iter().enumerate() {
        let id = h(l);
        v.push((q(l), q(l), id, id));
        v.push((q(l), id.to_string(), id, id));
        v.push((id.to_string(), q(l), id, id));
        v.push((id.to_string(), id.to_string(), id, id));
        v.push((q(l), format!("0x{id:x}"), id, id));
        if labels::is_ascii_ident(l) && !labels::CANDID_KEYWORDS.contains(&l.as_str()) {
            v.push((l.clone(), q(l), id, id));
        }
        // controls: distinct ids must be accepted and come out sorted
        let m = &lam[(i + 1) % lam.len()];
        let im = h(m);
        if im != id {
            v.push((q(l), q(m), id, im));
            v.push((q(l), im.to_string(), id, im));
            v.push((id.to_string(), im.to_string(), id, im));
        }
    }
    v
}

/// Positional record fields vs explicit ids and names; verdicts from the spec's rule
/// (an unlabelled field gets the previous field's id + 1, 0 for the first).
fn shorthand_cases(c: &Collisions) -> Vec<(String, bool, bool)> {
    let pre = |id: u32| c.id_preimages.iter().find(|(_, i)| *i == id).map(|(s, _)| quote_candid(s)).unwrap();
    let (n0, n1, nmax) = (pre(0), pre(1), pre(u32::MAX));
    let tys: Vec<(String, bool)> = vec![
        ("nat; 0 : nat".into(), true),
        ("0 : nat; nat".into(), false),
        ("nat; nat; 1 : nat".into(), true),
        ("1 : nat; nat; 2 : nat".into(), true),
        ("5 : nat; nat; 6 : nat".into(), true),
        ("5 : nat; nat; 7 : nat".into(), false),
        (format!("nat; {n0} : nat"), true),
        (format!("{n0} : nat; nat"), false),
        (format!("{n1} : nat; {n0} : nat; nat"), true),
        (format!("{n0} : nat; {n1} : nat; nat"), false),
        (format!("{nmax} : nat; nat"), true),
        ("4294967295 : nat; nat".into(), true),
        ("4294967294 : nat; nat".into(), false),
        ("4294967294 : nat; nat; 4294967295 : nat".into(), true),
    ];
    let mut out = vec![];
    for (body, reject) in tys {
        out.push((format!("(record {{ {body} }})"), true, reject));
        // the same field list as a value
        let vb = body.split(';').map(|f| {
            let f = f.trim();
            match f.rsplit_once(" : nat") {
                Some((l, _)) => format!("{l} = 1"),
                None => "1".to_string(),
            }
        }).collect::<Vec<_>>().join("; ");
        out.push((format!("(record {{ {vb} }})"), false, reject));
    }
    out
}

fn sequences(alpha: &[u64], maxlen: usize) -> Vec<Vec<u64>> {
    let mut out: Vec<Vec<u64>> = vec![vec![]];
    let mut layer: Vec<Vec<u64>> = vec![vec![]];
    for _ in 0..maxlen {
        let mut next = vec![];
        for s in &layer {
            for a in alpha {
                let mut t = s.clone();
                t.push(*a);
                next.push(t);
            }
        }
        out.extend(next.iter().cloned());
        layer = next;
    }
    out
}

const SERVICE_NAMES: &[&str] = &["a", "b", "ab", "foo", "bar", "type", "", " ", "a b", "\u{e9}", "e\u{301}", "\u{540d}\u{524d}", "0", "1", "4294967295", "get", "set"];

fn main() {
    install_quiet_panic_hook();
    let (tier, replay, rest) = parse_args();
    let coll = labels::find_collisions();
    if let Err(e) = macros::sync_with_search(&coll) {
        machinery_failure(&e);
    }
    if coll.ident_pairs.is_empty() || coll.nonident_pairs.is_empty() || coll.all_pairs().len() < 3 {
        machinery_failure("collision search found fewer pairs than required");
    }
    if rest.iter().any(|a| a == "--prepare") {
        match derive::prepare(&coll) {
            Ok(m) => {
                println!("C15 prepare: {m}");
                std::process::exit(0);
            }
            Err(e) => machinery_failure(&e),
        }
    }
    let lim = Limits::default();
    if let Some(path) = replay {
        std::process::exit(replay_case(&path, &coll, &lim));
    }

    let ctx = Ctx::new("C15", tier, tier.pick(150, 1200));
    let mut rep = Report::new();
    let mut notes: Vec<String> = vec![];

    // ---- part 3 (first: everything else uses the pairs)
    rep.count("collisions:pairs", coll.all_pairs().len() as u64);
    for (a, b) in coll.all_pairs() {
        if a == b || h(&a) != h(&b) {
            machinery_failure("collision search returned a non-colliding pair");
        }
    }
    notes.push(format!(
        "part 3: colliding pairs (all verified with the specification hash): identifiers {:?}; non-identifiers {:?}; meet-in-the-middle (8 lower-case letters vs given name) {:?}; names with given ids {:?}; long ASCII pair {:?}",
        coll.ident_pairs, coll.nonident_pairs, coll.preimage_pairs, coll.id_preimages, coll.long_pair
    ));

    // ---- part 1: idl_hash
    let alpha = labels::alphabet40();
    let maxlen = tier.pick(3, 4);
    let total1 = labels::count_upto(40, maxlen);
    let r = ctx.par_range("1a-idl_hash:all-strings-over-40-chars", total1, 4096, || (), |_, i, rep| {
        let s = labels::nth_string(&alpha, i);
        checks::check_hash(&s, rep);
    });
    rep.merge(r);
    let mut extras: Vec<String> = all_names(&coll);
    for b in 0u8..128 {
        extras.push(std::iter::repeat(b as char).take(200).collect());
    }
    for ch in ['\u{80}', '\u{7ff}', '\u{800}', '\u{ffff}', '\u{10000}', '\u{10ffff}'] {
        // 200-byte strings of one repeated multi-byte character
        extras.push(std::iter::repeat(ch).take(200 / ch.len_utf8()).collect());
    }
    for n in [1usize, 2, 3, 4, 5, 6, 7, 8, 9, 16, 31, 32, 33, 64, 255, 256, 1000, 65536] {
        extras.push("\u{7f}".repeat(n));
        extras.push("\u{10ffff}".repeat(n));
    }
    let extras = dedup(extras);
    let r = ctx.par_range("1b-idl_hash:keywords-unicode-numeric-long", extras.len() as u64, 64, || (), |_, i, rep| {
        checks::check_hash(&extras[i as usize], rep);
    });
    rep.merge(r);

    // wrap-around of the 32-bit sum needs at least 5 bytes: all strings of length <= 6
    // (thorough 7) over 8 characters including 2-, 3- and 4-byte characters and NUL
    let alpha8: Vec<char> = vec!['a', '~', ' ', '0', '\u{e9}', '\u{540d}', '\u{1f600}', '\0'];
    let maxlen8 = tier.pick(6, 7);
    let total1c = labels::count_upto(8, maxlen8);
    let r = ctx.par_range("1c-idl_hash:all-strings-over-8-chars-incl-multibyte", total1c, 4096, || (), |_, i, rep| {
        let s = labels::nth_string(&alpha8, i);
        checks::check_hash(&s, rep);
    });
    rep.merge(r);
    phase(&mut notes, &ctx, "part 1 (hash)");

    // ---- part 2: Label consistency on all ordered pairs
    let ls = label_set(&coll, tier);
    let n2 = ls.len() as u64;
    let r = ctx.par_range("2-Label:all-ordered-pairs", n2 * n2, 512, || (), |_, i, rep| {
        checks::check_label_pair(&ls[(i / n2) as usize], &ls[(i % n2) as usize], rep);
    });
    rep.merge(r);

    phase(&mut notes, &ctx, "part 2 (Label)");

    // ---- part 4: cross decoding
    let lam = lambda(&coll, tier);
    let nl = lam.len() as u64;
    let single_shapes = [Shape::Rec1, Shape::VarNat, Shape::VarUnit];
    let r = ctx.par_range("4a-cross:single-label-shapes", nl * 3, 8, || (), |_, i, rep| {
        let c = CrossCase { shape: single_shapes[(i % 3) as usize], l: &lam[(i / 3) as usize], m: "", extras: true };
        checks::check_cross(&c, rep, &lim);
    });
    rep.merge(r);
    let r = ctx.par_range("4b-cross:record-two-labels-all-ordered-pairs", nl * nl, 16, || (), |_, i, rep| {
        let (a, b) = ((i / nl) as usize, (i % nl) as usize);
        if a == b {
            return;
        }
        let c = CrossCase { shape: Shape::Rec2, l: &lam[a], m: &lam[b], extras: false };
        checks::check_cross(&c, rep, &lim);
    });
    rep.merge(r);

    let r = ctx.par_range("4c-width:extra-field-or-tag-all-ordered-pairs", nl * nl, 16, || (), |_, i, rep| {
        let (a, b) = ((i / nl) as usize, (i % nl) as usize);
        if a != b {
            checks::check_width(&lam[a], &lam[b], rep, &lim);
        }
    });
    rep.merge(r);
    phase(&mut notes, &ctx, "part 4 (cross decoding)");

    // ---- part 5a: duplicates in text
    let dp = dup_pairs(&coll, &lam);
    let nf = checks::DUP_FORMS.len() as u64;
    let r = ctx.par_range("5a-text-parsers:duplicate-and-distinct-pairs", dp.len() as u64 * nf, 64, || (), |_, i, rep| {
        let (a, b, ia, ib) = &dp[(i / nf) as usize];
        checks::check_dup_text(checks::DUP_FORMS[(i % nf) as usize], a, b, *ia, *ib, rep);
    });
    rep.merge(r);
    let sh = shorthand_cases(&coll);
    let r = ctx.par_range("5a-text-parsers:positional-fields", sh.len() as u64, 4, || (), |_, i, rep| {
        let (t, is_type, reject) = &sh[i as usize];
        checks::check_shorthand(t, *is_type, *reject, rep);
    });
    rep.merge(r);
    let shu = {
        let pre = |id: u32| coll.id_preimages.iter().find(|(_, i)| *i == id).map(|(s, _)| (quote_candid(s), id)).unwrap();
        checks::shorthand_universe(&[pre(0), pre(1), ("a".to_string(), 97), ("\"a\"".to_string(), 97), pre(u32::MAX)])
    };
    let r = ctx.par_range("5a-text-parsers:all field lists of <= 3 positional / numeric / named fields", shu.len() as u64, 64, || (), |_, i, rep| {
        let (t, is_type, ids) = &shu[i as usize];
        checks::check_shorthand_ids(t, *is_type, ids, rep);
    });
    rep.merge(r);

    // ---- part 5b: macros
    let pc = macros::pair_cases();
    if pc.len() != macros::MACRO_LABELS.len() * macros::MACRO_LABELS.len() {
        machinery_failure("macro pair table out of sync with MACRO_LABELS");
    }
    let tc = macros::triple_cases();
    let r = ctx.par_range("5b-macros:record!/variant!-all-ordered-pairs", pc.len() as u64, 16, || (), |_, i, rep| {
        macros::check_pair_case(&pc[i as usize], rep);
    });
    rep.merge(r);
    let r = ctx.par_range("5b-macros:record!/variant!-triples+field!", tc.len() as u64 + 1, 64, || (), |_, i, rep| {
        if (i as usize) < tc.len() {
            macros::check_triple_case(&tc[i as usize], rep);
        } else {
            macros::check_field_macro(rep);
        }
    });
    rep.merge(r);
    let mut snames: Vec<String> = SERVICE_NAMES.iter().map(|s| s.to_string()).collect();
    for (a, b) in coll.all_pairs() {
        snames.push(a);
        snames.push(b);
    }
    let snames = dedup(snames);
    let ns = snames.len() as u64;
    let r = ctx.par_range("5b-macros:service!-all-ordered-pairs", ns * ns, 64, || (), |_, i, rep| {
        checks::check_service_macro(&snames[(i / ns) as usize], &snames[(i % ns) as usize], rep);
    });
    rep.merge(r);
    notes.extend(macros::observations());

    // ---- part 5c: binary header
    let ids_a: Vec<u64> = if tier == Tier::Quick { vec![0, 1, 5, 4294967295] } else { vec![0, 1, 5, 1 << 31, 4294967295, 4294967296] };
    let mut seqs = sequences(&ids_a, tier.pick(3, 4));
    let n_in_range = seqs.len();
    for s in sequences(&[0, 4294967295, 4294967296, 4294967301, u64::MAX], 2) {
        if s.iter().any(|i| *i > u32::MAX as u64) && !seqs.contains(&s) {
            seqs.push(s);
        }
    }
    let hk = [("record", "direct"), ("record", "opt"), ("variant", "direct"), ("variant", "opt")];
    let oracle_err = std::sync::Mutex::new(None::<String>);
    let r = ctx.par_range("5c-binary-header:all-id-sequences", seqs.len() as u64 * 4, 16, || (), |_, i, rep| {
        let (kind, mode) = hk[(i % 4) as usize];
        if let Err(e) = checks::check_header(kind, mode, &seqs[(i / 4) as usize], rep, &lim) {
            *oracle_err.lock().unwrap() = Some(e);
        }
    });
    rep.merge(r);
    if let Some(e) = oracle_err.into_inner().unwrap() {
        machinery_failure(&e);
    }

    phase(&mut notes, &ctx, "part 5 (duplicates)");

    // ---- part 6: derive macro
    // (merged first: the number of kept violations is capped and the derive results are few)
    let mut drep = Report::new();
    let dr = derive::run_derive(&coll, &mut drep, &lim, None);
    if let Some(e) = dr.machinery_error {
        machinery_failure(&e);
    }
    drep.merge(rep);
    let mut rep = drep;

    phase(&mut notes, &ctx, "part 6 (derive, incl. cargo)");

    // every violation is re-checked once (same input twice => same observation)
    let mut confirmed = Report::new();
    for v in &rep.violations {
        if v.case["part"].as_str() != Some("derive") {
            run_case(&v.case, &coll, &lim, &mut confirmed);
        }
    }
    for v in &rep.violations {
        if v.case["part"].as_str() != Some("derive") && !confirmed.violations.iter().any(|c| c.key == v.key) {
            notes.push(format!("NOT DETERMINISTIC: violation {} did not reproduce on the immediate re-check", v.key));
        }
    }

    rep.states = rep.evaluations;
    rep.notes.extend(notes);
    let mut extra = json!({
        "scope": {
            "part1_strings_over_40_char_alphabet": {"max_len": maxlen, "count": total1},
            "part1_extra_strings": extras.len(),
            "part1_strings_over_8_char_alphabet": {"max_len": maxlen8, "count": total1c},
            "part2_labels": ls.len(),
            "part2_ordered_pairs": n2 * n2,
            "part3_colliding_pairs": coll.all_pairs().len(),
            "part4_label_alphabet": lam.len(),
            "part4_single_label_cases": nl * 3,
            "part4_two_label_ordered_pairs": nl * nl - nl,
            "part4c_width_ordered_pairs": nl * nl - nl,
            "part5a_label_pairs": dp.len(),
            "part5a_forms": nf,
            "part5a_cases": dp.len() as u64 * nf,
            "part5a_positional_cases": sh.len(),
            "part5b_macro_labels": macros::MACRO_LABELS.len(),
            "part5b_record_variant_pair_cases": pc.len() * 2,
            "part5b_triple_cases": tc.len() * 2,
            "part5b_service_names": snames.len(),
            "part5b_service_pair_cases": ns * ns,
            "part5c_id_alphabet": ids_a,
            "part5c_sequences_in_alphabet": n_in_range,
            "part5c_sequences_total": seqs.len(),
            "part5c_cases": seqs.len() * 4,
        }
    });
    if let (Value::Object(e), Value::Object(d)) = (&mut extra, dr.summary) {
        for (k, v) in d {
            e.insert(k, v);
        }
    }
    let code = finish(
        &ctx,
        rep,
        "E1 scopes: (1) candid::idl_hash and Label::Named(s).get_id() = R7 hash on every string of length <= 3 (thorough 4) over a 40-character alphabet, every string of length <= 6 (thorough 7) over an 8-character alphabet with 1-/2-/3-/4-byte characters and NUL (sums exceed 2^32 from 5 bytes on), plus keywords / Unicode / numeric-looking / 200-byte strings; (2) Label eq, ne, cmp, partial_cmp, <, std::hash, HashMap / BTreeMap / HashSet lookup, check_unique, Field and IDLField equality on all ordered pairs of a label set mixing Named / Id / Unnamed spellings of the same ids; (3) colliding names found deterministically (wrap-count analysis of 5-byte strings, hash-map brute force, meet-in-the-middle preimages); (4) every type spelling x value spelling x source order of record {L:nat}, variant {L:nat}, variant {L}, record {L:nat; M:text} annotate and encode to identical bytes, which the strict reference decoder accepts with ascending ids and the real decoder decodes at every type spelling and untyped; a message with one extra record field (an expected variant type with one extra tag) decodes to the same value at the type written by name and by id; (5) equal ids rejected (distinct ids accepted, sorted) by the type and value text parsers in 11 syntactic positions, by record!/variant!/service! (panic = rejection), and by the header parser on all id sequences of length <= 3 (thorough 4) over the id alphabet in record and variant entries; (6) derived types for every label of the list (direct, raw identifier, serde rename) equal the parser's types (ids, subtype::equal, identical bytes, strict reference decode, round trip), two-field structs over all ordered label pairs, one struct and one enum with all labels, and colliding pairs fail to compile through the derive macro's uniqueness assertion. Non-trivial = hash sums exceeding 2^32 (1), equal ids under different spellings (2), spelling order != id order (4, 6), duplicate-id inputs (5).",
        &[
            "R7 (hash) and R2 (binary grammar, strict) are correct readings of spec/Candid.md",
            "method names of services are identified by name, not by hash (spec): service! and the text parser may accept distinct names with equal hash",
            "record!/variant!/field! read a decimal u32 token as an id and any other token as a name; other numeric-looking tokens and raw identifiers are recorded as observations only",
            "printer defects visible in the Display text of derived types belong to C11/C12 and are recorded as notes",
            "the derive macro is exercised on a finite label list (compile time)",
        ],
        extra,
    );
    std::process::exit(code);
}

/// Re-run one recorded case.
fn run_case(case: &Value, coll: &Collisions, lim: &Limits, rep: &mut Report) -> bool {
    let s = |k: &str| case[k].as_str().unwrap_or("").to_string();
    match case["part"].as_str().unwrap_or("") {
        "hash" => checks::check_hash(&s("s"), rep),
        "label" => match (LSpec::from_json(&case["a"]), LSpec::from_json(&case["b"])) {
            (Some(a), Some(b)) => checks::check_label_pair(&a, &b, rep),
            _ => return false,
        },
        "cross" => match Shape::from_name(&s("shape")) {
            Some(shape) => {
                let (l, m) = (s("l"), s("m"));
                checks::check_cross(&CrossCase { shape, l: &l, m: &m, extras: case["extras"].as_bool().unwrap_or(false) }, rep, lim)
            }
            None => return false,
        },
        "width" => checks::check_width(&s("l"), &s("m"), rep, lim),
        "dup-text" => {
            let form = s("form");
            let Some(f) = checks::DUP_FORMS.iter().find(|x| **x == form) else { return false };
            checks::check_dup_text(f, &s("a"), &s("b"), case["id_a"].as_u64().unwrap_or(0) as u32, case["id_b"].as_u64().unwrap_or(0) as u32, rep)
        }
        "shorthand" => checks::check_shorthand(&s("text"), case["is_type"].as_bool().unwrap_or(true), case["reject"].as_bool().unwrap_or(true), rep),
        "service-macro" => checks::check_service_macro(&s("m1"), &s("m2"), rep),
        "macro" => {
            let labs: Vec<String> = case["labels"].as_array().map(|a| a.iter().map(|x| x.as_str().unwrap_or("").to_string()).collect()).unwrap_or_default();
            match labs.len() {
                1 => macros::check_field_macro(rep),
                2 => match macros::pair_cases().iter().find(|c| c.a == labs[0] && c.b == labs[1]) {
                    Some(c) => macros::check_pair_case(c, rep),
                    None => return false,
                },
                3 => match macros::triple_cases().iter().find(|c| c.labels.iter().zip(labs.iter()).all(|(a, b)| a == b)) {
                    Some(c) => macros::check_triple_case(c, rep),
                    None => return false,
                },
                _ => return false,
            }
        }
        "header" => {
            let ids: Vec<u64> = case["ids"].as_array().map(|a| a.iter().filter_map(|x| x.as_u64()).collect()).unwrap_or_default();
            if let Err(e) = checks::check_header(&s("kind"), &s("mode"), &ids, rep, lim) {
                machinery_failure(&e);
            }
        }
        "derive" => {
            let r = derive::run_derive(coll, rep, lim, None);
            if let Some(e) = r.machinery_error {
                machinery_failure(&e);
            }
        }
        _ => return false,
    }
    true
}

fn replay_case(path: &str, coll: &Collisions, lim: &Limits) -> i32 {
    let text = match std::fs::read_to_string(path) {
        Ok(t) => t,
        Err(e) => machinery_failure(&format!("cannot read {path}: {e}")),
    };
    let v: Value = match serde_json::from_str(&text) {
        Ok(v) => v,
        Err(e) => machinery_failure(&format!("{path} is not JSON: {e}")),
    };
    let mut rep = Report::new();
    if !run_case(&v["case"], coll, lim, &mut rep) {
        machinery_failure(&format!("{path}: unknown case format"));
    }
    // a derive replay re-runs the whole corpus: report only the recorded key
    if v["case"]["part"].as_str() == Some("derive") {
        if let Some(k) = v["key"].as_str() {
            rep.violations.retain(|x| x.key == k);
        }
    }
    for x in &rep.violations {
        println!("REPRODUCED {} :: {}", x.key, x.msg);
    }
    if rep.violations.is_empty() {
        println!("not reproduced: implementation and specification agree on this case");
        0
    } else {
        1
    }
}
