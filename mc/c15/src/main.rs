mod labels;
fn main() {
    let t = std::time::Instant::now();
    let _ = labels::short_ident_collisions(3);
    println!("short {:?}", t.elapsed());
    let t = std::time::Instant::now();
    let r = labels::brute_collisions(b" -.+/!?#abcde012", 1, 5, 3, 1_200_000, &|s| !labels::is_ascii_ident(s));
    println!("brute {:?} {}", t.elapsed(), r.1);
    let t = std::time::Instant::now();
    let m = labels::Mitm::new();
    println!("mitm new {:?}", t.elapsed());
    let t = std::time::Instant::now();
    let _ = m.preimage(0, "");
    println!("mitm pre {:?}", t.elapsed());
}
