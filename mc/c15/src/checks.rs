//! Parts 1-5 of C15: hash function, Label consistency, name/id cross decoding, duplicate
//! rejection by the text parsers, the construction macros and the binary header parser.
use crate::labels::{self, h, quote_candid};
use candid::types::internal::{Field, Label, Type, TypeInner};
use candid::types::value::{IDLField, IDLValue};
use candid::types::TypeEnv;
use candid::types::CandidType;
use candid::{Decode, IDLArgs};
use mclib::bridge;
use mclib::engine::{catch, Report};
use refmodel::ty::{Ty, P};
use refmodel::val::Val;
use refmodel::wire::{self, Entry, Header, Limits};
use serde_json::{json, Value};
use std::collections::{BTreeMap, HashMap, HashSet};

pub fn hexs(b: &[u8]) -> String {
    hex::encode(b)
}

/// Key fragment for a label: readable when harmless, hex otherwise (keys lose whitespace).
pub fn klabel(s: &str) -> String {
    if !s.is_empty() && s.chars().all(|c| c.is_ascii_graphic() && c != '|') {
        s.to_string()
    } else {
        format!("x'{}'", hexs(s.as_bytes()))
    }
}

fn first_line(s: &str) -> String {
    let l = s.lines().next().unwrap_or("");
    l.chars().take(200).collect()
}

/// The oracle's reading of a label value: a name denotes hash(name), an id itself.
pub fn oracle_id(l: &Label) -> u32 {
    match l {
        Label::Named(s) => h(s),
        Label::Id(n) | Label::Unnamed(n) => *n,
    }
}

// ---------------------------------------------------------------------------------------
// part 1: idl_hash
// ---------------------------------------------------------------------------------------

pub fn check_hash(s: &str, rep: &mut Report) {
    rep.evaluations += 1;
    rep.transitions += 2;
    let want = h(s);
    let case = || json!({"part": "hash", "s": s, "utf8": hexs(s.as_bytes())});
    match catch(|| candid::idl_hash(s)) {
        Ok(got) if got == want => {}
        Ok(got) => rep.violation(
            &format!("hash|idl_hash|{}", klabel(s)),
            format!("candid::idl_hash({s:?}) = {got}, specification hash = {want}"),
            case(),
        ),
        Err(p) => rep.violation(&format!("hash|idl_hash|panic|{}", klabel(s)), format!("idl_hash({s:?}) panicked: {p}"), case()),
    }
    match catch(|| Label::Named(s.to_string()).get_id()) {
        Ok(got) if got == want => {}
        Ok(got) => rep.violation(
            &format!("hash|Label::get_id|{}", klabel(s)),
            format!("Label::Named({s:?}).get_id() = {got}, specification hash = {want}"),
            case(),
        ),
        Err(p) => rep.violation(&format!("hash|Label::get_id|panic|{}", klabel(s)), format!("get_id panicked: {p}"), case()),
    }
    rep.traces_validated += 1;
    // non-trivial: the sum exceeds 32 bits, i.e. the reduction mod 2^32 matters
    let mut acc: u128 = 0;
    let mut wraps = false;
    for b in s.as_bytes() {
        acc = acc * 223 + *b as u128;
        if acc >= 1u128 << 32 {
            wraps = true;
            break;
        }
    }
    if wraps {
        rep.nontrivial += 1;
        rep.outcome("hash:wraps-2^32");
    } else {
        rep.outcome("hash:no-wrap");
    }
}

// ---------------------------------------------------------------------------------------
// part 2: Label eq / ord / hash / map lookups
// ---------------------------------------------------------------------------------------

#[derive(Clone, Debug, PartialEq)]
pub enum LSpec {
    Named(String),
    Id(u32),
    Unnamed(u32),
}
impl LSpec {
    pub fn id(&self) -> u32 {
        match self {
            LSpec::Named(s) => h(s),
            LSpec::Id(n) | LSpec::Unnamed(n) => *n,
        }
    }
    pub fn real(&self) -> Label {
        match self {
            LSpec::Named(s) => Label::Named(s.clone()),
            LSpec::Id(n) => Label::Id(*n),
            LSpec::Unnamed(n) => Label::Unnamed(*n),
        }
    }
    pub fn key(&self) -> String {
        match self {
            LSpec::Named(s) => format!("Named({})", klabel(s)),
            LSpec::Id(n) => format!("Id({n})"),
            LSpec::Unnamed(n) => format!("Unnamed({n})"),
        }
    }
    pub fn json(&self) -> Value {
        match self {
            LSpec::Named(s) => json!({"kind": "Named", "s": s}),
            LSpec::Id(n) => json!({"kind": "Id", "n": n}),
            LSpec::Unnamed(n) => json!({"kind": "Unnamed", "n": n}),
        }
    }
    pub fn from_json(v: &Value) -> Option<LSpec> {
        match v["kind"].as_str()? {
            "Named" => Some(LSpec::Named(v["s"].as_str()?.to_string())),
            "Id" => Some(LSpec::Id(v["n"].as_u64()? as u32)),
            "Unnamed" => Some(LSpec::Unnamed(v["n"].as_u64()? as u32)),
            _ => None,
        }
    }
}

fn std_hash<T: std::hash::Hash>(t: &T) -> u64 {
    use std::hash::Hasher;
    let mut s = std::collections::hash_map::DefaultHasher::new();
    t.hash(&mut s);
    s.finish()
}

pub fn check_label_pair(a: &LSpec, b: &LSpec, rep: &mut Report) {
    rep.evaluations += 1;
    let (ia, ib) = (a.id(), b.id());
    let same = ia == ib;
    let ord = ia.cmp(&ib);
    let case = json!({"part": "label", "a": a.json(), "b": b.json(), "id_a": ia, "id_b": ib});
    let mut bad = |rep: &mut Report, clause: &str, msg: String| {
        rep.violation(&format!("label|{clause}|{}|{}", a.key(), b.key()), msg, case.clone());
    };
    let r = catch(|| {
        let (la, lb) = (a.real(), b.real());
        let mut obs: Vec<(&'static str, bool, String)> = vec![];
        obs.push(("get_id", la.get_id() == ia && lb.get_id() == ib, format!("get_id = {}, {}; expected {ia}, {ib}", la.get_id(), lb.get_id())));
        obs.push(("eq", (la == lb) == same, format!("a == b is {}, ids equal is {same}", la == lb)));
        #[allow(clippy::nonminimal_bool)]
        obs.push(("ne", (la != lb) == !same, format!("a != b is {}, ids equal is {same}", la != lb)));
        obs.push(("cmp", la.cmp(&lb) == ord, format!("a.cmp(b) = {:?}, id order = {ord:?}", la.cmp(&lb))));
        obs.push(("partial_cmp", la.partial_cmp(&lb) == Some(ord), format!("a.partial_cmp(b) = {:?}, id order = {ord:?}", la.partial_cmp(&lb))));
        obs.push(("lt", (la < lb) == (ia < ib) && (la <= lb) == (ia <= ib), "a < b / a <= b differ from id order".into()));
        let (ha, hb) = (std_hash(&la), std_hash(&lb));
        obs.push(("hash", !same || ha == hb, format!("ids equal but std::hash differs: {ha:x} vs {hb:x}")));
        let mut hm: HashMap<Label, u8> = HashMap::new();
        hm.insert(la.clone(), 1);
        obs.push(("HashMap::get", hm.contains_key(&lb) == same, format!("HashMap keyed by a: lookup of b found = {}, ids equal = {same}", hm.contains_key(&lb))));
        let mut bm: BTreeMap<Label, u8> = BTreeMap::new();
        bm.insert(la.clone(), 1);
        obs.push(("BTreeMap::get", bm.contains_key(&lb) == same, format!("BTreeMap keyed by a: lookup of b found = {}, ids equal = {same}", bm.contains_key(&lb))));
        let hs: HashSet<Label> = [la.clone(), lb.clone()].into_iter().collect();
        obs.push(("HashSet::len", hs.len() == if same { 1 } else { 2 }, format!("HashSet {{a, b}} has {} elements", hs.len())));
        // check_unique over the id-sorted pair
        let sorted = if ia <= ib { vec![la.clone(), lb.clone()] } else { vec![lb.clone(), la.clone()] };
        let cu = candid::utils::check_unique(sorted.iter());
        obs.push(("check_unique", cu.is_err() == same, format!("check_unique(sorted [a, b]) is_err = {}, ids equal = {same}", cu.is_err())));
        // types and values built from the labels
        let fa = Field { id: la.clone().into(), ty: TypeInner::Nat.into() };
        let fb = Field { id: lb.clone().into(), ty: TypeInner::Nat.into() };
        obs.push(("Field::eq", (fa == fb) == same, format!("Field eq = {}, ids equal = {same}", fa == fb)));
        obs.push(("Field::cmp", fa.cmp(&fb) == ord, format!("Field cmp = {:?}, id order = {ord:?}", fa.cmp(&fb))));
        let ta: Type = TypeInner::Record(vec![fa.clone()]).into();
        let tb: Type = TypeInner::Record(vec![fb.clone()]).into();
        obs.push(("Type::eq", (ta == tb) == same, format!("record type eq = {}, ids equal = {same}", ta == tb)));
        let va = IDLField { id: la.clone(), val: IDLValue::Null };
        let vb = IDLField { id: lb.clone(), val: IDLValue::Null };
        obs.push(("IDLField::eq", (va == vb) == same, format!("IDLField eq = {}, ids equal = {same}", va == vb)));
        obs
    });
    rep.transitions += 16;
    rep.traces_validated += 1;
    match r {
        Err(p) => bad(rep, "panic", format!("panic: {p}")),
        Ok(obs) => {
            for (clause, ok, msg) in obs {
                if !ok {
                    bad(rep, clause, msg);
                }
            }
        }
    }
    // non-trivial: equal ids with different spellings, or different ids
    if same && a != b {
        rep.nontrivial += 1;
        rep.outcome("label:same-id-different-spelling");
    } else if same {
        rep.outcome("label:identical");
    } else {
        rep.outcome(if ia < ib { "label:less" } else { "label:greater" });
    }
}

// ---------------------------------------------------------------------------------------
// part 4: name / id cross decoding
// ---------------------------------------------------------------------------------------

#[derive(Clone, Copy, Debug, PartialEq)]
pub enum Shape {
    Rec1,
    VarNat,
    VarUnit,
    Rec2,
}
impl Shape {
    pub fn name(self) -> &'static str {
        match self {
            Shape::Rec1 => "record{L:nat}",
            Shape::VarNat => "variant{L:nat}",
            Shape::VarUnit => "variant{L}",
            Shape::Rec2 => "record{L:nat;M:text}",
        }
    }
    pub fn from_name(s: &str) -> Option<Shape> {
        [Shape::Rec1, Shape::VarNat, Shape::VarUnit, Shape::Rec2].into_iter().find(|x| x.name() == s)
    }
}

/// Spellings of a label in Candid source: N quoted name, I decimal id; extra spellings
/// U unquoted identifier, H hexadecimal id, D decimal id with `_` separators.
pub fn spellings(l: &str, extras: bool) -> Vec<(char, String)> {
    let id = h(l);
    let mut v = vec![('N', quote_candid(l)), ('I', id.to_string())];
    if extras {
        if labels::is_ascii_ident(l) && !labels::CANDID_KEYWORDS.contains(&l) {
            v.push(('U', l.to_string()));
        }
        v.push(('H', format!("0x{id:X}")));
        let d = id.to_string();
        let mut g = String::new();
        for (i, c) in d.chars().enumerate() {
            if i > 0 && (d.len() - i) % 3 == 0 {
                g.push('_');
            }
            g.push(c);
        }
        v.push(('D', g));
    }
    v
}

pub fn parse_type(text: &str) -> Result<Type, String> {
    use candid_parser::syntax::IDLTypes;
    let src = format!("({text})");
    match catch(|| -> Result<Type, String> {
        let tys: IDLTypes = src.parse::<IDLTypes>().map_err(|e| format!("{e}"))?;
        if tys.args.len() != 1 {
            return Err("expected one type".into());
        }
        candid_parser::typing::ast_to_type(&TypeEnv::new(), &tys.args[0].typ).map_err(|e| format!("{e}"))
    }) {
        Ok(r) => r.map_err(|e| format!("error: {}", first_line(&e))),
        Err(p) => Err(format!("PANIC: {p}")),
    }
}

pub fn parse_args(text: &str) -> Result<IDLArgs, String> {
    match catch(|| candid_parser::parse_idl_args(text)) {
        Ok(Ok(a)) => Ok(a),
        Ok(Err(e)) => Err(format!("error: {}", first_line(&format!("{e}")))),
        Err(p) => Err(format!("PANIC: {p}")),
    }
}

fn type_fields(t: &Type) -> Option<Vec<u32>> {
    match t.as_ref() {
        TypeInner::Record(fs) | TypeInner::Variant(fs) => Some(fs.iter().map(|f| oracle_id(&f.id)).collect()),
        _ => None,
    }
}

pub struct CrossCase<'a> {
    pub shape: Shape,
    pub l: &'a str,
    pub m: &'a str,
    pub extras: bool,
}

pub fn check_cross(c: &CrossCase, rep: &mut Report, lim: &Limits) {
    rep.evaluations += 1;
    let (l, m) = (c.l, c.m);
    let (il, im) = (h(l), h(m));
    let two = c.shape == Shape::Rec2;
    if two && il == im {
        return; // colliding pairs belong to part 5
    }
    let kbase = if two { format!("{}|{}|{}", c.shape.name(), klabel(l), klabel(m)) } else { format!("{}|{}", c.shape.name(), klabel(l)) };
    let case = json!({"part": "cross", "shape": c.shape.name(), "l": l, "m": m, "id_l": il, "id_m": im, "extras": c.extras});
    let sl = spellings(l, c.extras && !two);
    let sm = if two { spellings(m, false) } else { vec![(' ', String::new())] };
    // expected model type / value
    let (ety, eval): (Ty, Val) = match c.shape {
        Shape::Rec1 => (Ty::record(vec![(il, Ty::Prim(P::Nat))]), Val::record(vec![(il, Val::nat(1))])),
        Shape::VarNat => (Ty::variant(vec![(il, Ty::Prim(P::Nat))]), Val::Variant(il, Box::new(Val::nat(1)))),
        Shape::VarUnit => (Ty::variant(vec![(il, Ty::Prim(P::Null))]), Val::Variant(il, Box::new(Val::Null))),
        Shape::Rec2 => (
            Ty::record(vec![(il, Ty::Prim(P::Nat)), (im, Ty::Prim(P::Text))]),
            Val::record(vec![(il, Val::nat(1)), (im, Val::Text("x".into()))]),
        ),
    };
    let eids: Vec<u32> = match &ety {
        Ty::Record(fs) | Ty::Variant(fs) => fs.iter().map(|f| f.0).collect(),
        _ => unreachable!(),
    };
    // all type spellings
    let mut tys: Vec<(String, String, Type)> = vec![];
    for (kl, tl) in &sl {
        for (km, tm) in &sm {
            let text = match c.shape {
                Shape::Rec1 => format!("record {{ {tl} : nat }}"),
                Shape::VarNat => format!("variant {{ {tl} : nat }}"),
                Shape::VarUnit => format!("variant {{ {tl} }}"),
                Shape::Rec2 => format!("record {{ {tl} : nat; {tm} : text }}"),
            };
            let tag = format!("{kl}{km}").trim().to_string();
            rep.transitions += 1;
            match parse_type(&text) {
                Ok(t) => {
                    match type_fields(&t) {
                        Some(ids) if ids == eids => {}
                        other => rep.violation(
                            &format!("cross|type-fields|{kbase}|type={tag}"),
                            format!("type text `{text}` parsed to fields with ids {other:?}; expected ascending ids {eids:?}"),
                            case.clone(),
                        ),
                    }
                    tys.push((tag, text, t));
                }
                Err(e) => rep.violation(
                    &format!("cross|parse-type|{kbase}|type={tag}"),
                    format!("type text `{text}` rejected: {e}"),
                    case.clone(),
                ),
            }
        }
    }
    // all value spellings (for two fields also both source orders)
    let mut vals: Vec<(String, String)> = vec![];
    for (kl, tl) in &sl {
        for (km, tm) in &sm {
            let tag = format!("{kl}{km}").trim().to_string();
            match c.shape {
                Shape::Rec1 => vals.push((tag, format!("(record {{ {tl} = 1 }})"))),
                Shape::VarNat => vals.push((tag, format!("(variant {{ {tl} = 1 }})"))),
                Shape::VarUnit => vals.push((tag, format!("(variant {{ {tl} }})"))),
                Shape::Rec2 => {
                    vals.push((format!("{tag}/lm"), format!("(record {{ {tl} = 1; {tm} = \"x\" }})")));
                    vals.push((format!("{tag}/ml"), format!("(record {{ {tm} = \"x\"; {tl} = 1 }})")));
                }
            }
        }
    }
    let env = TypeEnv::new();
    let mut encodings: Vec<(String, Vec<u8>)> = vec![];
    let mut untyped: Vec<(String, Vec<u8>)> = vec![];
    for (vtag, vtext) in &vals {
        rep.transitions += 1;
        let args = match parse_args(vtext) {
            Ok(a) => a,
            Err(e) => {
                rep.violation(&format!("cross|parse-value|{kbase}|value={vtag}"), format!("value text `{vtext}` rejected: {e}"), case.clone());
                continue;
            }
        };
        // untyped encoding of the parsed value
        rep.transitions += 1;
        match catch(|| args.to_bytes()) {
            Ok(Ok(b)) => untyped.push((vtag.clone(), b)),
            Ok(Err(e)) => rep.violation(&format!("cross|untyped-encode|{kbase}|value={vtag}"), format!("`{vtext}`.to_bytes() failed: {}", first_line(&format!("{e}"))), case.clone()),
            Err(p) => rep.violation(&format!("cross|untyped-encode|panic|{kbase}|value={vtag}"), format!("`{vtext}`.to_bytes() panicked: {p}"), case.clone()),
        }
        for (ttag, ttext, t) in &tys {
            rep.transitions += 2;
            let r = catch(|| -> Result<Vec<u8>, String> {
                let ann = args.clone().annotate_types(true, &env, std::slice::from_ref(t)).map_err(|e| format!("annotate_types: {e}"))?;
                ann.to_bytes_with_types(&env, std::slice::from_ref(t)).map_err(|e| format!("to_bytes_with_types: {e}"))
            });
            match r {
                Ok(Ok(b)) => encodings.push((format!("type={ttag},value={vtag}"), b)),
                Ok(Err(e)) => rep.violation(
                    &format!("cross|annotate-encode|{kbase}|type={ttag}|value={vtag}"),
                    format!("value `{vtext}` at type `{ttext}`: {}", first_line(&e)),
                    case.clone(),
                ),
                Err(p) => rep.violation(
                    &format!("cross|annotate-encode|panic|{kbase}|type={ttag}|value={vtag}"),
                    format!("value `{vtext}` at type `{ttext}` panicked: {p}"),
                    case.clone(),
                ),
            }
        }
    }
    rep.count("cross:type-spellings", tys.len() as u64);
    rep.count("cross:encodings", encodings.len() as u64);
    // identical bytes for all combinations
    if let Some((tag0, b0)) = encodings.first() {
        for (tag, b) in &encodings[1..] {
            if b != b0 {
                rep.violation(
                    &format!("cross|bytes-differ|{kbase}|{tag0}|{tag}"),
                    format!("encodings differ: [{tag0}] {} vs [{tag}] {}", hexs(b0), hexs(b)),
                    case.clone(),
                );
            }
        }
        // strict model decode: ascending ids on the wire, expected type and value
        match wire::decode(b0, lim) {
            Ok(d) => {
                let t = d.tys.first().and_then(|t| d.env.unf(t).ok()).cloned();
                if t.as_ref() != Some(&ety) || d.vals != vec![eval.clone()] {
                    rep.violation(
                        &format!("cross|wire-content|{kbase}"),
                        format!("bytes {} carry type {:?} value {:?}; expected {} / {}", hexs(b0), t.map(|t| t.to_string()), d.vals.iter().map(|v| v.to_string()).collect::<Vec<_>>(), ety, eval),
                        case.clone(),
                    );
                }
                match d.header.table.first() {
                    Some(Entry::Record(fs)) | Some(Entry::Variant(fs)) => {
                        let ids: Vec<u64> = fs.iter().map(|f| f.0).collect();
                        if ids != eids.iter().map(|x| *x as u64).collect::<Vec<_>>() {
                            rep.violation(&format!("cross|wire-order|{kbase}"), format!("wire field ids {ids:?}, expected ascending {eids:?}"), case.clone());
                        }
                    }
                    _ => rep.violation(&format!("cross|wire-table|{kbase}"), "first table entry is not the record/variant".into(), case.clone()),
                }
                match wire::encode(&refmodel::ty::Env::new(), &[ety.clone()], &[eval.clone()], true) {
                    Ok(mb) if &mb == b0 => rep.count("cross:bytes-equal-model-encoding", 1),
                    _ => rep.count("cross:bytes-differ-from-model-encoding(informational)", 1),
                }
            }
            Err(e) => rep.violation(&format!("cross|wire-strict|{kbase}|{tag0}"), format!("bytes {} rejected by the strict reference decoder: {e:?}", hexs(b0)), case.clone()),
        }
        rep.traces_validated += 1;
        // real decoder at every type spelling and untyped
        for (ttag, _ttext, t) in &tys {
            rep.transitions += 1;
            match catch(|| IDLArgs::from_bytes_with_types(b0, &env, std::slice::from_ref(t))) {
                Ok(Ok(a)) => match bridge::from_idl_args(&a) {
                    Ok(vs) if vs == vec![eval.clone()] => {}
                    other => rep.violation(&format!("cross|decode-value|{kbase}|type={ttag}"), format!("decoded {other:?}, expected {eval}"), case.clone()),
                },
                Ok(Err(e)) => rep.violation(&format!("cross|decode|{kbase}|type={ttag}"), format!("decoding {} at type spelling {ttag} failed: {}", hexs(b0), first_line(&format!("{e}"))), case.clone()),
                Err(p) => rep.violation(&format!("cross|decode|panic|{kbase}|type={ttag}"), format!("decode panicked: {p}"), case.clone()),
            }
        }
        rep.transitions += 1;
        match catch(|| IDLArgs::from_bytes(b0)) {
            Ok(Ok(a)) => match bridge::from_idl_args(&a) {
                Ok(vs) if vs == vec![eval.clone()] => {}
                other => rep.violation(&format!("cross|decode-untyped-value|{kbase}"), format!("from_bytes gave {other:?}, expected {eval}"), case.clone()),
            },
            Ok(Err(e)) => rep.violation(&format!("cross|decode-untyped|{kbase}"), format!("from_bytes failed: {}", first_line(&format!("{e}"))), case.clone()),
            Err(p) => rep.violation(&format!("cross|decode-untyped|panic|{kbase}"), format!("from_bytes panicked: {p}"), case.clone()),
        }
    }
    // untyped encodings: identical for every spelling, ids ascending, numbers default to int
    if let Some((tag0, b0)) = untyped.first() {
        for (tag, b) in &untyped[1..] {
            if b != b0 {
                rep.violation(&format!("cross|untyped-bytes-differ|{kbase}|{tag0}|{tag}"), format!("untyped encodings differ: [{tag0}] {} vs [{tag}] {}", hexs(b0), hexs(b)), case.clone());
            }
        }
        let (uty, uval): (Ty, Val) = match c.shape {
            Shape::Rec1 => (Ty::record(vec![(il, Ty::Prim(P::Int))]), Val::record(vec![(il, Val::int(1))])),
            Shape::VarNat => (Ty::variant(vec![(il, Ty::Prim(P::Int))]), Val::Variant(il, Box::new(Val::int(1)))),
            Shape::VarUnit => (ety.clone(), eval.clone()),
            Shape::Rec2 => (
                Ty::record(vec![(il, Ty::Prim(P::Int)), (im, Ty::Prim(P::Text))]),
                Val::record(vec![(il, Val::int(1)), (im, Val::Text("x".into()))]),
            ),
        };
        match wire::decode(b0, lim) {
            Ok(d) => {
                let t = d.tys.first().and_then(|t| d.env.unf(t).ok()).cloned();
                if t.as_ref() != Some(&uty) || d.vals != vec![uval.clone()] {
                    rep.violation(&format!("cross|untyped-wire-content|{kbase}"), format!("untyped bytes {} carry {:?} / {:?}; expected {uty} / {uval}", hexs(b0), t.map(|t| t.to_string()), d.vals.iter().map(|v| v.to_string()).collect::<Vec<_>>()), case.clone());
                }
            }
            Err(e) => rep.violation(&format!("cross|untyped-wire-strict|{kbase}"), format!("untyped bytes {} rejected by the strict reference decoder: {e:?}", hexs(b0)), case.clone()),
        }
        rep.traces_validated += 1;
    }
    // non-trivial: spelling order differs from id order (two fields), or the name is not an id spelling
    let nontrivial = if two { (l.as_bytes() < m.as_bytes()) != (il < im) } else { true };
    if nontrivial {
        rep.nontrivial += 1;
    }
    rep.outcome(&format!("cross:{}:{}", c.shape.name(), if two { if nontrivial { "spelling-order!=id-order" } else { "spelling-order==id-order" } } else { "single" }));
    if rep.samples.len() < 2 {
        if let Some((tag, b)) = encodings.first() {
            rep.sample(json!({"part": "cross", "shape": c.shape.name(), "l": l, "m": m, "combo": tag, "bytes": hexs(b), "combinations": encodings.len()}));
        }
    }
}

/// Part 4c: the message carries one more field than the expected record type (resp. the
/// expected variant type has one more tag than the message). The specification ignores the
/// extra field / tag whatever the spelling of the labels: decoding at the type written by
/// name and at the type written by id must give the same value.
pub fn check_width(l: &str, m: &str, rep: &mut Report, _lim: &Limits) {
    let (il, im) = (h(l), h(m));
    if il == im {
        return;
    }
    rep.evaluations += 1;
    let case = json!({"part": "width", "l": l, "m": m, "id_l": il, "id_m": im});
    let kbase = format!("{}|{}", klabel(l), klabel(m));
    let menv = refmodel::ty::Env::new();
    let env = TypeEnv::new();
    // record: wire {L:nat; M:text}, expected {L:nat}
    let wire_rec = wire::encode(&menv, &[Ty::record(vec![(il, Ty::Prim(P::Nat)), (im, Ty::Prim(P::Text))])], &[Val::record(vec![(il, Val::nat(1)), (im, Val::Text("x".into()))])], true);
    // variant: wire {L:nat}, expected {L:nat; M:text}
    let wire_var = wire::encode(&menv, &[Ty::variant(vec![(il, Ty::Prim(P::Nat))])], &[Val::Variant(il, Box::new(Val::nat(1)))], true);
    let (Ok(wire_rec), Ok(wire_var)) = (wire_rec, wire_var) else {
        rep.notes.push(format!("width: reference encoder failed for {l:?}/{m:?}"));
        return;
    };
    let (ql, qm) = (quote_candid(l), quote_candid(m));
    let cases: Vec<(&str, String, &Vec<u8>, Val)> = vec![
        ("record|type=N", format!("record {{ {ql} : nat }}"), &wire_rec, Val::record(vec![(il, Val::nat(1))])),
        ("record|type=I", format!("record {{ {il} : nat }}"), &wire_rec, Val::record(vec![(il, Val::nat(1))])),
        ("variant|type=NN", format!("variant {{ {ql} : nat; {qm} : text }}"), &wire_var, Val::Variant(il, Box::new(Val::nat(1)))),
        ("variant|type=II", format!("variant {{ {il} : nat; {im} : text }}"), &wire_var, Val::Variant(il, Box::new(Val::nat(1)))),
    ];
    for (tag, ttext, bytes, want) in cases {
        rep.transitions += 1;
        let key = format!("width|{tag}|{kbase}");
        let t = match parse_type(&ttext) {
            Ok(t) => t,
            Err(e) => {
                rep.violation(&format!("{key}|parse-type"), format!("type text `{ttext}` rejected: {e}"), case.clone());
                continue;
            }
        };
        match catch(|| IDLArgs::from_bytes_with_types(bytes, &env, std::slice::from_ref(&t))) {
            Ok(Ok(a)) => match bridge::from_idl_args(&a) {
                Ok(vs) if vs == vec![want.clone()] => {}
                other => rep.violation(&format!("{key}|value"), format!("decoding {} at `{ttext}` gave {other:?}, expected {want}", hexs(bytes)), case.clone()),
            },
            Ok(Err(e)) => rep.violation(&format!("{key}|error"), format!("decoding {} at `{ttext}` failed: {}", hexs(bytes), first_line(&format!("{e}"))), case.clone()),
            Err(p) => rep.violation(&format!("{key}|panic"), format!("decoding {} at `{ttext}` panicked: {p}", hexs(bytes)), case.clone()),
        }
    }
    rep.traces_validated += 1;
    rep.nontrivial += 1;
    rep.outcome(if il < im { "width:extra-label-has-greater-id" } else { "width:extra-label-has-smaller-id" });
}

// ---------------------------------------------------------------------------------------
// part 5a: duplicates in text
// ---------------------------------------------------------------------------------------

pub const DUP_FORMS: &[&str] = &[
    "type:record", "type:variant-unit", "type:variant", "type:prog-record", "type:opt-record", "type:func-arg", "type:service-method-arg",
    "value:record", "value:record-annotated", "value:vec-record", "value:single",
];

fn dup_text(form: &str, a: &str, b: &str) -> String {
    match form {
        "type:record" => format!("(record {{ {a} : nat; {b} : nat }})"),
        "type:variant-unit" => format!("(variant {{ {a}; {b} }})"),
        "type:variant" => format!("(variant {{ {a} : nat; {b} : text }})"),
        "type:prog-record" => format!("type t = record {{ {a} : nat; {b} : text }};"),
        "type:opt-record" => format!("(opt record {{ {a} : nat; {b} : nat }})"),
        "type:func-arg" => format!("(func (record {{ {a} : nat; {b} : nat }}) -> ())"),
        "type:service-method-arg" => format!("(service {{ m : (variant {{ {a}; {b} }}) -> () }})"),
        "value:record" => format!("(record {{ {a} = 1; {b} = 2 }})"),
        "value:record-annotated" => format!("(record {{ {a} = 1; {b} = 2 }} : record {{ {a} : nat; {b} : nat }})"),
        "value:vec-record" => format!("(vec {{ record {{ {a} = 1; {b} = 2 }} }})"),
        "value:single" => format!("record {{ {a} = 1; {b} = 2 }}"),
        _ => unreachable!("{form}"),
    }
}

/// Run the real parser for `form` on `text`: Ok(description) / Err(message) / panic.
fn run_parser(form: &str, text: &str) -> Result<Result<String, String>, String> {
    use candid_parser::syntax::{IDLProg, IDLTypes};
    catch(|| -> Result<String, String> {
        if form == "type:prog-record" {
            let prog: IDLProg = text.parse::<IDLProg>().map_err(|e| format!("{e}"))?;
            let mut te = TypeEnv::new();
            candid_parser::check_prog(&mut te, &prog).map_err(|e| format!("{e}"))?;
            let t = te.0.get("t").ok_or("no t")?;
            Ok(format!("{:?}", type_fields(t)))
        } else if form.starts_with("type:") {
            let tys: IDLTypes = text.parse::<IDLTypes>().map_err(|e| format!("{e}"))?;
            let t = candid_parser::typing::ast_to_type(&TypeEnv::new(), &tys.args[0].typ).map_err(|e| format!("{e}"))?;
            Ok(format!("{:?}", type_fields(&t)))
        } else if form == "value:single" {
            let v = candid_parser::parse_idl_value(text).map_err(|e| format!("{e}"))?;
            Ok(format!("{v}"))
        } else {
            let a = candid_parser::parse_idl_args(text).map_err(|e| format!("{e}"))?;
            Ok(format!("{a}"))
        }
    })
}

/// `a`, `b`: literal source spellings of the two labels; `reject`: the oracle's verdict
/// (equal ids). Accepted inputs must come out sorted by id.
pub fn check_dup_text(form: &str, a: &str, b: &str, ida: u32, idb: u32, rep: &mut Report) {
    rep.evaluations += 1;
    rep.transitions += 1;
    let text = dup_text(form, a, b);
    let reject = ida == idb;
    let case = json!({"part": "dup-text", "form": form, "a": a, "b": b, "id_a": ida, "id_b": idb, "text": text});
    let key = format!("dup-text|{form}|{}|{}", klabel(a), klabel(b));
    let r = run_parser(form, &text);
    rep.traces_validated += 1;
    match (r, reject) {
        (Err(p), _) => rep.violation(&format!("{key}|panic"), format!("parser panicked on `{text}`: {p}"), case),
        (Ok(Ok(desc)), true) => rep.violation(&format!("{key}|accepted"), format!("`{text}`: both labels have id {ida} but the parser accepted it ({})", first_line(&desc)), case),
        (Ok(Err(e)), false) => rep.violation(&format!("{key}|rejected"), format!("`{text}`: ids {ida} and {idb} differ but the parser rejected it: {}", first_line(&e)), case),
        (Ok(Err(_)), true) => {
            rep.nontrivial += 1;
            rep.outcome(&format!("dup-text:{}:rejected-duplicate", form.split(':').next().unwrap()));
        }
        (Ok(Ok(desc)), false) => {
            rep.outcome(&format!("dup-text:{}:accepted-distinct", form.split(':').next().unwrap()));
            if matches!(form, "type:record" | "type:variant-unit" | "type:variant" | "type:prog-record") {
                let mut want = vec![ida, idb];
                want.sort();
                if desc != format!("{:?}", Some(want.clone())) {
                    rep.violation(&format!("{key}|order"), format!("`{text}`: parsed field ids {desc}, expected ascending {want:?}"), case);
                }
            }
        }
    }
}

/// Positional (unnamed) record fields against explicit ids and names: literal texts with
/// the oracle's verdict computed from the spec's shorthand rule (id = previous id + 1, 0 first).
pub fn check_shorthand(text: &str, is_type: bool, reject: bool, rep: &mut Report) {
    rep.evaluations += 1;
    rep.transitions += 1;
    let case = json!({"part": "shorthand", "text": text, "is_type": is_type, "reject": reject});
    let r = run_parser(if is_type { "type:record" } else { "value:record" }, text);
    rep.traces_validated += 1;
    let key = format!("shorthand|{}", text.replace(' ', ""));
    match (r, reject) {
        (Err(p), _) => rep.violation(&format!("{key}|panic"), format!("parser panicked on `{text}`: {p}"), case),
        (Ok(Ok(d)), true) => rep.violation(&format!("{key}|accepted"), format!("`{text}` has two fields with one id but was accepted ({})", first_line(&d)), case),
        (Ok(Err(e)), false) => rep.violation(&format!("{key}|rejected"), format!("`{text}` has distinct ids but was rejected: {}", first_line(&e)), case),
        (Ok(Err(_)), true) => {
            rep.nontrivial += 1;
            rep.outcome("shorthand:rejected-duplicate");
        }
        (Ok(Ok(_)), false) => rep.outcome("shorthand:accepted-distinct"),
    }
}


/// The complete small universe of field lists: every list of <= 3 fields, each written positionally, with a numeric
/// id or with a name, as a record *type* and as a record *value*. The oracle assigns ids by the shorthand rule of
/// the specification (a positional field gets the previous field's id + 1, whatever way that one was written; 0
/// if it is the first); the list is well-formed iff the ids are distinct, and then the parser must produce exactly
/// those ids (a name and its numeric id are interchangeable in every position).
pub fn shorthand_universe(names: &[(String, u32)]) -> Vec<(String, bool, Vec<u64>)> {
    #[derive(Clone)]
    enum F {
        Pos,
        Id(u64),
        Name(String, u64),
    }
    let mut alpha = vec![F::Pos, F::Id(0), F::Id(1), F::Id(2), F::Id(97), F::Id(98)];
    for (n, id) in names {
        alpha.push(F::Name(n.clone(), *id as u64));
    }
    let mut lists: Vec<Vec<F>> = vec![vec![]];
    let mut layer: Vec<Vec<F>> = vec![vec![]];
    for _ in 0..3 {
        let mut next = vec![];
        for l in &layer {
            for a in &alpha {
                let mut m = l.clone();
                m.push(a.clone());
                next.push(m);
            }
        }
        lists.extend(next.iter().cloned());
        layer = next;
    }
    let mut out = vec![];
    for fs in lists {
        let mut ids = vec![];
        let mut prev: Option<u64> = None;
        let mut tparts = vec![];
        let mut vparts = vec![];
        for f in &fs {
            let id = match f {
                F::Pos => prev.map(|p| p + 1).unwrap_or(0),
                F::Id(n) => *n,
                F::Name(_, n) => *n,
            };
            prev = Some(id);
            ids.push(id);
            match f {
                F::Pos => {
                    tparts.push("nat".to_string());
                    vparts.push("1".to_string());
                }
                F::Id(n) => {
                    tparts.push(format!("{n} : nat"));
                    vparts.push(format!("{n} = 1"));
                }
                F::Name(s, _) => {
                    tparts.push(format!("{s} : nat"));
                    vparts.push(format!("{s} = 1"));
                }
            }
        }
        out.push((format!("(record {{ {} }})", tparts.join("; ")), true, ids.clone()));
        out.push((format!("(record {{ {} }})", vparts.join("; ")), false, ids));
    }
    out
}

pub fn check_shorthand_ids(text: &str, is_type: bool, ids: &[u64], rep: &mut Report) {
    rep.evaluations += 1;
    rep.transitions += 1;
    rep.traces_validated += 1;
    let mut sorted = ids.to_vec();
    sorted.sort();
    let reject = sorted.windows(2).any(|w| w[0] == w[1]) || ids.iter().any(|i| *i > u32::MAX as u64);
    let case = json!({"part": "shorthand-ids", "text": text, "is_type": is_type, "ids": ids});
    let key = format!("shorthand-ids|{}|{}", if is_type { "type" } else { "value" }, text.replace(' ', ""));
    let r = catch(|| -> Result<Vec<u64>, String> {
        if is_type {
            let tys: candid_parser::syntax::IDLTypes = text.parse().map_err(|e| format!("{e}"))?;
            let t = candid_parser::typing::ast_to_type(&TypeEnv::new(), &tys.args[0].typ).map_err(|e| format!("{e}"))?;
            Ok(type_fields(&t).unwrap_or_default().into_iter().map(|x| x as u64).collect())
        } else {
            let a = candid_parser::parse_idl_args(text).map_err(|e| format!("{e}"))?;
            match a.args.first() {
                Some(candid::IDLValue::Record(fs)) => Ok(fs.iter().map(|f| oracle_id(&f.id) as u64).collect()),
                other => Err(format!("not a record: {other:?}")),
            }
        }
    });
    match (r, reject) {
        (Err(p), _) => rep.violation(&format!("{key}|panic"), format!("parser panicked on `{text}`: {p}"), case),
        (Ok(Ok(got)), true) => rep.violation(&format!("{key}|accepted"), format!("`{text}` denotes ids {ids:?} (not distinct) but was accepted with ids {got:?}"), case),
        (Ok(Err(e)), false) => rep.violation(&format!("{key}|rejected"), format!("`{text}` denotes the distinct ids {ids:?} but was rejected: {}", first_line(&e)), case),
        (Ok(Err(_)), true) => {
            rep.nontrivial += 1;
            rep.outcome("shorthand-ids:rejected-duplicate");
        }
        (Ok(Ok(got)), false) => {
            if got != sorted {
                rep.violation(&format!("{key}|ids"), format!("`{text}` denotes ids {sorted:?}, the parser produced {got:?}"), case);
            }
            rep.outcome("shorthand-ids:accepted");
        }
    }
}

// ---------------------------------------------------------------------------------------
// part 5b: service! with run-time method names
// ---------------------------------------------------------------------------------------

pub fn check_service_macro(m1: &str, m2: &str, rep: &mut Report) {
    rep.evaluations += 1;
    rep.transitions += 1;
    let reject = m1 == m2; // methods are identified by name, not by hash
    let case = json!({"part": "service-macro", "m1": m1, "m2": m2});
    let key = format!("macro|service!|{}|{}", klabel(m1), klabel(m2));
    let r = catch(|| {
        let t: Type = candid::service! { m1: candid::func!(() -> ()); m2: candid::func!((candid::Nat) -> ()) };
        match t.as_ref() {
            TypeInner::Service(ms) => ms.iter().map(|(n, _)| n.clone()).collect::<Vec<String>>(),
            _ => vec![],
        }
    });
    rep.traces_validated += 1;
    match (r, reject) {
        (Err(_), true) => {
            rep.nontrivial += 1;
            rep.outcome("macro:service!:panicked-on-duplicate");
        }
        (Ok(ms), true) => rep.violation(&format!("{key}|accepted"), format!("service! with method {m1:?} twice built {ms:?}"), case),
        (Err(p), false) => rep.violation(&format!("{key}|rejected"), format!("service! with distinct methods {m1:?}, {m2:?} panicked: {p}"), case),
        (Ok(ms), false) => {
            let mut want = vec![m1.to_string(), m2.to_string()];
            want.sort_by(|a, b| a.as_bytes().cmp(b.as_bytes()));
            if ms != want {
                rep.violation(&format!("{key}|order"), format!("service! methods {ms:?}, expected {want:?}"), case);
            }
            rep.outcome(if h(m1) == h(m2) { "macro:service!:accepted-distinct-names-with-equal-hash" } else { "macro:service!:accepted-distinct" });
        }
    }
}

// ---------------------------------------------------------------------------------------
// part 5c: binary header
// ---------------------------------------------------------------------------------------

/// kind: "record" | "variant"; mode: "direct" (the composite is the argument type) or
/// "opt" (argument type `opt <composite>`, value `null`, so only the header decides).
pub fn header_bytes(kind: &str, mode: &str, ids: &[u64]) -> Vec<u8> {
    let fs: Vec<(u64, i64)> = ids.iter().map(|i| (*i, if kind == "record" { -3 } else { -1 })).collect();
    let e = if kind == "record" { Entry::Record(fs) } else { Entry::Variant(fs) };
    let (hd, value): (Header, Vec<u8>) = if mode == "opt" {
        (Header { table: vec![e, Entry::Opt(0)], args: vec![1] }, vec![0])
    } else if kind == "record" {
        (Header { table: vec![e], args: vec![0] }, vec![1; ids.len()])
    } else {
        (Header { table: vec![e], args: vec![0] }, vec![0])
    };
    let mut b = hd.to_bytes();
    b.extend(value);
    b
}

pub fn check_header(kind: &str, mode: &str, ids: &[u64], rep: &mut Report, lim: &Limits) -> Result<(), String> {
    rep.evaluations += 1;
    let bytes = header_bytes(kind, mode, ids);
    let strictly_ascending = ids.windows(2).all(|w| w[0] < w[1]) && ids.iter().all(|i| *i <= u32::MAX as u64);
    let model = wire::decode(&bytes, lim);
    // second opinion on the oracle itself (machinery check): with mode "opt" nothing but the
    // header can make the message ill-formed; in direct mode an empty variant has no value
    let expect_ok = strictly_ascending && !(mode == "direct" && kind == "variant" && ids.is_empty());
    if model.is_ok() != expect_ok {
        return Err(format!("oracle self-check failed on {kind}/{mode} {ids:?}: reference decoder says {:?}", model.as_ref().map(|_| ()).map_err(|e| e.clone())));
    }
    let case = json!({"part": "header", "kind": kind, "mode": mode, "ids": ids, "bytes": hexs(&bytes)});
    let idk = ids.iter().map(|i| i.to_string()).collect::<Vec<_>>().join(",");
    let env = TypeEnv::new();
    let reserved: Type = TypeInner::Reserved.into();
    let obs: Vec<(&str, Result<Result<(), String>, String>)> = vec![
        ("IDLArgs::from_bytes", catch(|| IDLArgs::from_bytes(&bytes).map(|_| ()).map_err(|e| format!("{e}")))),
        ("IDLArgs::from_bytes_with_types(reserved)", catch(|| IDLArgs::from_bytes_with_types(&bytes, &env, std::slice::from_ref(&reserved)).map(|_| ()).map_err(|e| format!("{e}")))),
        ("Decode!(Reserved)", catch(|| Decode!(&bytes, candid::Reserved).map(|_| ()).map_err(|e| format!("{e}")))),
        ("IDLDeserialize::new", catch(|| candid::de::IDLDeserialize::new(&bytes).map(|_| ()).map_err(|e| format!("{e}")))),
    ];
    for (ep, r) in obs {
        rep.transitions += 1;
        // IDLDeserialize::new only reads the header: the verdict on the header alone
        let want_ok = if ep == "IDLDeserialize::new" { strictly_ascending } else { model.is_ok() };
        let key = format!("header|{ep}|{kind}|{mode}|ids={idk}");
        match r {
            Err(p) => rep.violation(&format!("{key}|panic"), format!("{ep} panicked on {}: {p}", hexs(&bytes)), case.clone()),
            Ok(Ok(())) if !want_ok => rep.violation(&format!("{key}|accepted"), format!("{ep} accepted {} ({kind} field ids {ids:?} not strictly ascending 32-bit ids)", hexs(&bytes)), case.clone()),
            Ok(Err(e)) if want_ok => rep.violation(&format!("{key}|rejected"), format!("{ep} rejected {} ({kind} field ids {ids:?} strictly ascending): {}", hexs(&bytes), first_line(&e)), case.clone()),
            _ => {}
        }
    }
    rep.traces_validated += 1;
    if ids.len() >= 2 {
        rep.nontrivial += 1;
    }
    rep.outcome(&format!(
        "header:{kind}:{}",
        if strictly_ascending {
            "strictly-ascending"
        } else if ids.iter().any(|i| *i > u32::MAX as u64) {
            "id>=2^32"
        } else if ids.windows(2).any(|w| w[0] == w[1]) {
            "duplicate"
        } else {
            "descending"
        }
    ));
    Ok(())
}
