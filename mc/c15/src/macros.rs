//! Part 5b: `record!` / `variant!` / `field!` take their labels as tokens, so the label set
//! is fixed at compile time of this check. The set contains the colliding names that the
//! start-up search finds (the search is deterministic; `sync_with_search` verifies that the
//! names below are exactly what it produces, otherwise the run is a machinery failure).
use crate::checks::klabel;
use crate::labels::{h, Collisions};
use candid::types::internal::{Type, TypeInner};
use candid::types::{CandidType, Label};
use candid::Nat;
use mclib::engine::{catch, Report};
use serde_json::json;

pub struct MacroCase {
    pub a: &'static str,
    pub b: &'static str,
    pub rec: fn() -> Type,
    pub var: fn() -> Type,
}

macro_rules! row {
    ($out:ident; $x:tt; [$($y:tt)*]) => {
        $( $out.push(MacroCase {
            a: stringify!($x),
            b: stringify!($y),
            rec: || candid::record!{ $x: Nat::ty(); $y: String::ty() },
            var: || candid::variant!{ $x: Nat::ty(); $y: String::ty() },
        }); )*
    };
}
macro_rules! pairs {
    ($out:ident; [$($x:tt)*]; $ys:tt) => {
        $( row!($out; $x; $ys); )*
    };
}

/// Names: `_1`, `_0_`, `__42`, `_4294967295` consist of underscores and digits only (still names); foo/apbymbxc collide; H5_0L/AA4V0 collide; type/aicfdjcl collide; ajpqfnsa has
/// id 0; begzhpfg has id 2^32-1; 5097222 = hash("foo"); 1292432058 = hash("type").
pub const MACRO_LABELS: &[&str] = &[
    "foo", "bar", "apbymbxc", "H5_0L", "AA4V0", "type", "aicfdjcl", "ajpqfnsa", "begzhpfg", "0", "1", "5097222", "4294967295",
    "1292432058", "_1", "_0_", "__42", "a1", "_4294967295",
];

pub fn pair_cases() -> Vec<MacroCase> {
    let mut v: Vec<MacroCase> = vec![];
    pairs!(v;
        [foo bar apbymbxc H5_0L AA4V0 type aicfdjcl ajpqfnsa begzhpfg 0 1 5097222 4294967295 1292432058 _1 _0_ __42 a1 _4294967295];
        [foo bar apbymbxc H5_0L AA4V0 type aicfdjcl ajpqfnsa begzhpfg 0 1 5097222 4294967295 1292432058 _1 _0_ __42 a1 _4294967295]);
    v
}

pub struct TripleCase {
    pub labels: [&'static str; 3],
    pub rec: fn() -> Type,
    pub var: fn() -> Type,
}
macro_rules! triple {
    ($out:ident; $x:tt $y:tt $z:tt) => {
        $out.push(TripleCase {
            labels: [stringify!($x), stringify!($y), stringify!($z)],
            rec: || candid::record!{ $x: Nat::ty(); $y: String::ty(); $z: bool::ty() },
            var: || candid::variant!{ $x: Nat::ty(); $y: String::ty(); $z: bool::ty() },
        });
    };
}
pub fn triple_cases() -> Vec<TripleCase> {
    let mut v = vec![];
    triple!(v; foo bar apbymbxc);
    triple!(v; apbymbxc foo bar);
    triple!(v; bar foo 5097222);
    triple!(v; foo bar type);
    triple!(v; type bar foo);
    triple!(v; 4294967295 0 1);
    triple!(v; 1 0 begzhpfg);
    triple!(v; begzhpfg 0 4294967295);
    triple!(v; ajpqfnsa 1 0);
    triple!(v; H5_0L bar AA4V0);
    triple!(v; aicfdjcl type 1292432058);
    triple!(v; 2 1 0);
    // names made of underscores and digits only are names, not ids
    triple!(v; _1 1 0);
    triple!(v; 42 __42 _0_);
    triple!(v; _4294967295 4294967295 a1);
    v
}

/// The oracle's reading of a macro label token: a decimal u32 literal is an id, anything
/// else a name.
pub fn token_id(s: &str) -> u32 {
    match s.parse::<u32>() {
        Ok(n) => n,
        Err(_) => h(s),
    }
}

/// The compile-time names above must be the ones the deterministic search produces.
pub fn sync_with_search(c: &Collisions) -> Result<(), String> {
    let need_pairs = [("apbymbxc", "foo"), ("aicfdjcl", "type"), ("H5_0L", "AA4V0")];
    for (a, b) in need_pairs {
        let found = c.all_pairs().iter().any(|(x, y)| (x == a && y == b) || (x == b && y == a));
        if !found || h(a) != h(b) || a == b {
            return Err(format!("compile-time colliding pair ({a}, {b}) is not among the pairs found by the start-up search"));
        }
    }
    for (n, id) in [("ajpqfnsa", 0u32), ("begzhpfg", u32::MAX)] {
        if !c.id_preimages.iter().any(|(x, i)| x == n && *i == id) || h(n) != id {
            return Err(format!("compile-time name {n} is not the search's preimage of id {id}"));
        }
    }
    if h("foo") != 5097222 || h("type") != 1292432058 {
        return Err("compile-time numeric ids out of sync with the specification hash".into());
    }
    Ok(())
}

fn fields_of(t: &Type) -> Vec<(u32, String)> {
    match t.as_ref() {
        TypeInner::Record(fs) | TypeInner::Variant(fs) => fs
            .iter()
            .map(|f| {
                let id = match f.id.as_ref() {
                    Label::Named(s) => h(s),
                    Label::Id(n) | Label::Unnamed(n) => *n,
                };
                (id, format!("{}", f.ty))
            })
            .collect(),
        _ => vec![],
    }
}

fn judge(mac: &str, labels: &[&str], tys: &[&str], f: fn() -> Type, rep: &mut Report) {
    rep.evaluations += 1;
    rep.transitions += 1;
    let ids: Vec<u32> = labels.iter().map(|l| token_id(l)).collect();
    let mut sorted: Vec<(u32, String)> = ids.iter().cloned().zip(tys.iter().map(|t| t.to_string())).collect();
    sorted.sort();
    let reject = sorted.windows(2).any(|w| w[0].0 == w[1].0);
    let key = format!("macro|{mac}|{}", labels.iter().map(|l| klabel(l)).collect::<Vec<_>>().join("|"));
    let case = json!({"part": "macro", "macro": mac, "labels": labels, "ids": ids});
    let r = catch(f);
    rep.traces_validated += 1;
    match (r, reject) {
        (Err(p), true) => {
            rep.nontrivial += 1;
            if p.contains("collision") {
                rep.outcome(&format!("macro:{mac}:panicked-on-duplicate"));
            } else {
                rep.violation(&format!("{key}|diagnostic"), format!("{mac} rejected the duplicate but the panic message does not mention the collision: {p}"), case);
            }
        }
        (Ok(t), true) => rep.violation(&format!("{key}|accepted"), format!("{mac} with labels {labels:?} (ids {ids:?}) built {t} although two ids are equal"), case),
        (Err(p), false) => rep.violation(&format!("{key}|rejected"), format!("{mac} with labels {labels:?} (distinct ids {ids:?}) panicked: {p}"), case),
        (Ok(t), false) => {
            let got = fields_of(&t);
            if got != sorted {
                rep.violation(&format!("{key}|order"), format!("{mac} built fields {got:?}, expected (ascending ids) {sorted:?}"), case);
            }
            rep.outcome(&format!("macro:{mac}:accepted-sorted"));
        }
    }
}

pub fn check_pair_case(c: &MacroCase, rep: &mut Report) {
    judge("record!", &[c.a, c.b], &["nat", "text"], c.rec, rep);
    judge("variant!", &[c.a, c.b], &["nat", "text"], c.var, rep);
}
pub fn check_triple_case(c: &TripleCase, rep: &mut Report) {
    judge("record!", &c.labels, &["nat", "text", "bool"], c.rec, rep);
    judge("variant!", &c.labels, &["nat", "text", "bool"], c.var, rep);
}

/// `field!` alone, and the documented forms of the macros.
pub fn check_field_macro(rep: &mut Report) {
    let cases: Vec<(&str, fn() -> candid::types::Field)> = vec![
        ("foo", || candid::field! { foo: Nat::ty() }),
        ("type", || candid::field! { type: Nat::ty() }),
        ("0", || candid::field! { 0: Nat::ty() }),
        ("5097222", || candid::field! { 5097222: Nat::ty() }),
        ("4294967295", || candid::field! { 4294967295: Nat::ty() }),
        ("begzhpfg", || candid::field! { begzhpfg: Nat::ty() }),
        ("_1", || candid::field! { _1: Nat::ty() }),
        ("_0_", || candid::field! { _0_: Nat::ty() }),
        ("__42", || candid::field! { __42: Nat::ty() }),
        ("a1", || candid::field! { a1: Nat::ty() }),
        ("_4294967295", || candid::field! { _4294967295: Nat::ty() }),
    ];
    for (tok, f) in cases {
        rep.evaluations += 1;
        rep.transitions += 1;
        let want = token_id(tok);
        let case = json!({"part": "macro", "macro": "field!", "labels": [tok]});
        match catch(|| {
            let fl = f();
            let spelled_as_id = matches!(fl.id.as_ref(), Label::Id(_));
            (fl.id.get_id(), spelled_as_id)
        }) {
            Ok((id, as_id)) if id == want && as_id == tok.parse::<u32>().is_ok() => rep.outcome("macro:field!:ok"),
            Ok((id, as_id)) => rep.violation(&format!("macro|field!|{tok}"), format!("field!{{{tok}: ..}} has id {id} (numeric label: {as_id}), expected {want}"), case),
            Err(p) => rep.violation(&format!("macro|field!|{tok}|panic"), format!("field! panicked: {p}"), case),
        }
        rep.traces_validated += 1;
    }
}

/// Observations that are recorded but not judged (outside the statement of C15): tokens
/// that look like numbers but are not decimal u32 literals, and raw identifiers.
pub fn observations() -> Vec<String> {
    let mut out = vec![];
    let obs: Vec<(&str, fn() -> candid::types::Field)> = vec![
        ("r#type", || candid::field! { r#type: Nat::ty() }),
        ("4294967296", || candid::field! { 4294967296: Nat::ty() }),
        ("0x10", || candid::field! { 0x10: Nat::ty() }),
        ("1_000", || candid::field! { 1_000: Nat::ty() }),
        ("01", || candid::field! { 01: Nat::ty() }),
    ];
    for (tok, f) in obs {
        match catch(|| format!("{:?}", f().id)) {
            Ok(d) => out.push(format!("observation (not judged): field!{{ {tok}: .. }} builds label {d}")),
            Err(p) => out.push(format!("observation (not judged): field!{{ {tok}: .. }} panics: {p}")),
        }
    }
    out
}
