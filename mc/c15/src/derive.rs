//! Part 6: the derive macro. Generates the scratch crates /verif/work/derive_corpus (must
//! compile; prints the derived types) and /verif/work/derive_collide (one binary target per
//! colliding pair and kind, each of which must fail to compile), builds them with cargo
//! (offline, target dir /verif/mc/target/derive_corpus) and compares the output with the
//! parser's types, the specification hash and the strict reference decoder.
use crate::checks::{hexs, klabel, parse_args, parse_type};
use crate::labels::{self, h, quote_candid, quote_rust, Collisions};
use candid::types::internal::{Field, Label, Type, TypeInner};
use candid::types::TypeEnv;
use mclib::engine::{catch, Report};
use refmodel::ty::{Ty, P};
use refmodel::val::Val;
use refmodel::wire::{self, Limits};
use serde_json::{json, Value};
use std::collections::{BTreeMap, BTreeSet};
use std::path::Path;
use std::process::Command;

pub const WORK: &str = "/verif/work";
pub const CORPUS_DIR: &str = "/verif/work/derive_corpus";
pub const COLLIDE_DIR: &str = "/verif/work/derive_collide";
pub const TARGET_DIR: &str = "/verif/mc/target/derive_corpus";
pub const LOCK_SRC: &str = "/verif/mc/Cargo.lock";

#[derive(Clone, Copy, Debug, PartialEq)]
pub enum Mode {
    /// the label is the Rust identifier
    Direct,
    /// raw identifier `r#label`
    Raw,
    /// `#[serde(rename = "label")]`
    Rename,
    /// `#[serde(rename(serialize = "label", deserialize = "label"))]`
    RenameSer,
}
impl Mode {
    fn name(self) -> &'static str {
        match self {
            Mode::Direct => "direct",
            Mode::Raw => "raw",
            Mode::Rename => "rename",
            Mode::RenameSer => "rename(serialize)",
        }
    }
}

#[derive(Clone, Debug)]
pub struct Item {
    pub label: String,
    pub mode: Mode,
}

/// Unicode labels that are Rust identifiers in NFC (rustc normalises identifiers to NFC, so
/// only NFC spellings can be written directly).
const UNICODE_IDENTS: &[&str] = &["\u{e9}", "\u{df}", "\u{f1}o", "\u{3a9}", "\u{540d}\u{524d}", "\u{65e5}\u{672c}\u{8a9e}", "\u{d55c}\u{ae00}"];

pub fn corpus_items(c: &Collisions) -> Vec<Item> {
    let mut items: Vec<Item> = vec![];
    let mut push = |label: &str, mode: Mode| {
        if !items.iter().any(|i| i.label == label && i.mode == mode) {
            items.push(Item { label: label.to_string(), mode });
        }
    };
    let direct_or_rename = |s: &str| -> Vec<Mode> {
        if labels::RUST_KEYWORDS_RAW_OK.contains(&s) {
            vec![Mode::Raw, Mode::Rename]
        } else if labels::RUST_KEYWORDS_NO_RAW.contains(&s) {
            vec![Mode::Rename]
        } else if labels::is_ascii_ident(s) || UNICODE_IDENTS.contains(&s) {
            vec![Mode::Direct]
        } else {
            vec![Mode::Rename]
        }
    };
    for s in labels::identifiers() {
        push(&s, Mode::Direct);
    }
    for s in labels::all_keywords() {
        for m in direct_or_rename(&s) {
            push(&s, m);
        }
    }
    for s in labels::unicode_set().iter().chain(labels::numeric_looking().iter()).chain(labels::quoted_only().iter()) {
        for m in direct_or_rename(s) {
            push(s, m);
        }
    }
    // identifiers also through both rename forms
    for s in ["foo", "a", "fooBar", "created_at_time", "\u{e9}"] {
        push(s, Mode::Rename);
        push(s, Mode::RenameSer);
    }
    for s in ["", "a b", "type", "\u{1f600}", "4294967295"] {
        push(s, Mode::RenameSer);
    }
    // collision members and id preimages, each alone
    for (a, b) in c.all_pairs() {
        for s in [a, b] {
            for m in direct_or_rename(&s) {
                push(&s, m);
            }
        }
    }
    for (s, _) in &c.id_preimages {
        push(s, Mode::Direct);
    }
    items
}

/// Labels of the two-field structs: all ordered pairs.
pub fn pair_labels() -> Vec<Item> {
    vec![
        Item { label: "a".into(), mode: Mode::Direct },
        Item { label: "b".into(), mode: Mode::Direct },
        Item { label: "Z".into(), mode: Mode::Direct },
        Item { label: "foo".into(), mode: Mode::Direct },
        Item { label: "bar".into(), mode: Mode::Rename },
        Item { label: "type".into(), mode: Mode::Raw },
        Item { label: "fn".into(), mode: Mode::Rename },
        Item { label: "a b".into(), mode: Mode::Rename },
        Item { label: "\u{540d}\u{524d}".into(), mode: Mode::Direct },
        Item { label: "0".into(), mode: Mode::Rename },
        Item { label: "".into(), mode: Mode::Rename },
    ]
}

fn field_decl(it: &Item, fallback: &str, ty: &str) -> (String, String) {
    // returns (declaration, Rust identifier of the field)
    match it.mode {
        Mode::Direct => (format!("pub {}: {ty}", it.label), it.label.clone()),
        Mode::Raw => (format!("pub r#{}: {ty}", it.label), format!("r#{}", it.label)),
        Mode::Rename => (format!("#[serde(rename = {})] pub {fallback}: {ty}", quote_rust(&it.label)), fallback.to_string()),
        Mode::RenameSer => (
            format!("#[serde(rename(serialize = {0}, deserialize = {0}))] pub {fallback}: {ty}", quote_rust(&it.label)),
            fallback.to_string(),
        ),
    }
}
fn variant_decl(it: &Item, fallback: &str) -> (String, String) {
    match it.mode {
        Mode::Direct => (it.label.clone(), it.label.clone()),
        Mode::Raw => (format!("r#{}", it.label), format!("r#{}", it.label)),
        Mode::Rename => (format!("#[serde(rename = {})] {fallback}", quote_rust(&it.label)), fallback.to_string()),
        Mode::RenameSer => (
            format!("#[serde(rename(serialize = {0}, deserialize = {0}))] {fallback}", quote_rust(&it.label)),
            fallback.to_string(),
        ),
    }
}

const CORPUS_PRELUDE: &str = r#"// GENERATED by /verif/mc/c15 (property C15). Do not edit. Included by every src/bin/*.rs.
use candid::types::value::{IDLField, IDLValue};
use candid::types::{Label, Type, TypeInner};
use candid::{CandidType, Decode, Encode, IDLArgs, Nat};
use serde::Deserialize;

fn hexs(b: &[u8]) -> String {
    b.iter().map(|x| format!("{:02x}", x)).collect()
}
fn labels_of(t: &Type) -> String {
    match t.as_ref() {
        TypeInner::Record(fs) | TypeInner::Variant(fs) => fs
            .iter()
            .map(|f| match f.id.as_ref() {
                Label::Named(s) => format!("N:{}:{}", hexs(s.as_bytes()), f.id.get_id()),
                Label::Id(n) => format!("I:{}:{}", n, f.id.get_id()),
                Label::Unnamed(n) => format!("U:{}:{}", n, f.id.get_id()),
            })
            .collect::<Vec<_>>()
            .join(","),
        _ => "?".to_string(),
    }
}
fn report<T>(kind: &str, i: usize, v: T)
where
    T: CandidType + for<'de> Deserialize<'de> + PartialEq + std::panic::RefUnwindSafe,
{
    let r = std::panic::catch_unwind(|| {
        let t = T::ty();
        let text = format!("{}", t);
        let labels = labels_of(&t);
        let (bytes, rt) = match Encode!(&v) {
            Ok(b) => {
                let rt = match Decode!(&b, T) {
                    Ok(w) => {
                        if w == v {
                            "1".to_string()
                        } else {
                            "0:decoded value differs".to_string()
                        }
                    }
                    Err(e) => format!("0:{}", hexs(format!("{e}").as_bytes())),
                };
                (hexs(&b), rt)
            }
            Err(e) => (format!("ERR{}", hexs(format!("{e}").as_bytes())), "-".to_string()),
        };
        // a message with one extra field (id - 1, id + 1) must decode to the same value
        let xt = match t.as_ref() {
            TypeInner::Record(fs) if fs.len() == 1 && *fs[0].ty == TypeInner::Nat => {
                let id = fs[0].id.get_id();
                let mut res = vec![];
                for extra in [id.wrapping_sub(1), id.wrapping_add(1)] {
                    let mut fields = vec![
                        IDLField { id: Label::Id(id), val: IDLValue::Nat(Nat::from(42u32)) },
                        IDLField { id: Label::Id(extra), val: IDLValue::Text("x".to_string()) },
                    ];
                    fields.sort_by_key(|f| f.id.get_id());
                    let r = match IDLArgs::new(&[IDLValue::Record(fields)]).to_bytes() {
                        Ok(b) => match Decode!(&b, T) {
                            Ok(w) => {
                                if w == v {
                                    "1".to_string()
                                } else {
                                    "0:decoded value differs".to_string()
                                }
                            }
                            Err(e) => format!("0:{}", hexs(format!("{e}").as_bytes())),
                        },
                        Err(e) => format!("0:{}", hexs(format!("encode: {e}").as_bytes())),
                    };
                    res.push(r);
                }
                res.join(";")
            }
            _ => "-".to_string(),
        };
        format!("{}\t{}\t{}\t{}\t{}\t{}", hexs(text.as_bytes()), if labels.is_empty() { "-".to_string() } else { labels }, bytes, rt, xt, "end")
    });
    match r {
        Ok(s) => println!("{kind}\t{i}\t{s}"),
        Err(_) => println!("{kind}\t{i}\tPANIC"),
    }
}
"#;

pub struct Corpus {
    pub items: Vec<Item>,
    pub pairs: Vec<(Item, Item)>,
    /// labels of Big / BigE (pairwise distinct ids), in source order
    pub big: Vec<Item>,
    /// (binary target name, source); compiled in parallel by cargo
    pub bins: Vec<(String, String)>,
}

pub const ITEM_BINS: usize = 16;
pub const PAIR_BINS: usize = 2;

/// In a two-field struct the type follows the label (the smaller spelling is `nat`), so that
/// the two declaration orders of one label pair denote the same Candid type.
fn pair_types(a: &Item, b: &Item) -> (bool, bool) {
    let a_is_nat = a.label.as_bytes() < b.label.as_bytes();
    (a_is_nat, !a_is_nat)
}

pub fn generate_corpus(c: &Collisions) -> Corpus {
    let items = corpus_items(c);
    let mut bins: Vec<(String, String)> = vec![];
    let head = "// GENERATED by /verif/mc/c15 (property C15). Do not edit.\n#![allow(warnings)]\ninclude!(\"../common.rs\");\n";
    let per = items.len().div_ceil(ITEM_BINS);
    for (bi, chunk) in items.chunks(per).enumerate() {
        let mut src = String::from(head);
        let mut main = String::from("fn main() {\n");
        for (off, it) in chunk.iter().enumerate() {
            let i = bi * per + off;
            let (decl, ident) = field_decl(it, "f", "Nat");
            src.push_str(&format!("#[derive(CandidType, Deserialize, PartialEq, Debug)]\npub struct S{i} {{ {decl} }}\n"));
            main.push_str(&format!("    report(\"S\", {i}, S{i} {{ {ident}: Nat::from(42u32) }});\n"));
            let (vdecl, vident) = variant_decl(it, "V");
            src.push_str(&format!("#[derive(CandidType, Deserialize, PartialEq, Debug)]\npub enum E{i} {{ {vdecl} }}\n"));
            main.push_str(&format!("    report(\"E\", {i}, E{i}::{vident});\n"));
        }
        main.push_str("    println!(\"DONE\");\n}\n");
        src.push_str(&main);
        bins.push((format!("items{bi}"), src));
    }
    // two-field structs, all ordered pairs of distinct labels
    let pl = pair_labels();
    let mut pairs = vec![];
    {
        let mut all: Vec<(Item, Item)> = vec![];
        for a in &pl {
            for b in &pl {
                if a.label != b.label {
                    all.push((a.clone(), b.clone()));
                }
            }
        }
        let per = all.len().div_ceil(PAIR_BINS);
        for (bi, chunk) in all.chunks(per).enumerate() {
            let mut src = String::from(head);
            let mut main = String::from("fn main() {\n");
            for (a, b) in chunk {
                let k = pairs.len();
                let (an, bn) = pair_types(a, b);
                let ty = |n: bool| if n { "Nat" } else { "String" };
                let val = |n: bool| if n { "Nat::from(1u32)" } else { "\"m\".to_string()" };
                let (da, ia) = field_decl(a, "fa", ty(an));
                let (db, ib) = field_decl(b, "fb", ty(bn));
                src.push_str(&format!("#[derive(CandidType, Deserialize, PartialEq, Debug)]\npub struct P{k} {{ {da}, {db} }}\n"));
                main.push_str(&format!("    report(\"P\", {k}, P{k} {{ {ia}: {}, {ib}: {} }});\n", val(an), val(bn)));
                pairs.push((a.clone(), b.clone()));
            }
            main.push_str("    println!(\"DONE\");\n}\n");
            src.push_str(&main);
            bins.push((format!("pairs{bi}"), src));
        }
    }
    // one struct and one enum with every label of the list (first occurrence of each id)
    let mut seen = BTreeSet::new();
    let mut big: Vec<Item> = vec![];
    for it in &items {
        if seen.insert(h(&it.label)) {
            big.push(it.clone());
        }
    }
    {
        let mut src = String::from(head);
        let mut main = String::from("fn main() {\n");
        src.push_str("#[derive(CandidType, Deserialize, PartialEq, Debug)]\npub struct Big {\n");
        let mut init = String::new();
        for (j, it) in big.iter().enumerate() {
            let (decl, ident) = field_decl(it, &format!("f{j}"), "Nat");
            src.push_str(&format!("    {decl},\n"));
            init.push_str(&format!("{ident}: Nat::from({j}u32), "));
        }
        src.push_str("}\n");
        main.push_str(&format!("    report(\"B\", 0, Big {{ {init} }});\n"));
        // tuple struct: positional ids 0, 1
        src.push_str("#[derive(CandidType, Deserialize, PartialEq, Debug)]\npub struct Tup(pub Nat, pub String);\n");
        main.push_str("    report(\"T\", 0, Tup(Nat::from(1u32), \"m\".to_string()));\n");
        main.push_str("    println!(\"DONE\");\n}\n");
        src.push_str(&main);
        bins.push(("big_struct".to_string(), src));
    }
    {
        let mut src = String::from(head);
        let mut main = String::from("fn main() {\n");
        src.push_str("#[derive(CandidType, Deserialize, PartialEq, Debug)]\npub enum BigE {\n");
        for (j, it) in big.iter().enumerate() {
            let (decl, ident) = variant_decl(it, &format!("V{j}"));
            src.push_str(&format!("    {decl},\n"));
            main.push_str(&format!("    report(\"V\", {j}, BigE::{ident});\n"));
        }
        src.push_str("}\n");
        main.push_str("    println!(\"DONE\");\n}\n");
        src.push_str(&main);
        bins.push(("big_enum".to_string(), src));
    }
    Corpus { items, pairs, big, bins }
}

fn cargo_toml(name: &str) -> String {
    format!(
        r#"# GENERATED by /verif/mc/c15 (property C15). Do not edit.
[package]
name = "{name}"
version = "0.0.0"
edition = "2021"
publish = false

[dependencies]
candid = {{ path = "/repo/rust/candid", features = ["value"] }}
serde = {{ version = "1", features = ["derive"] }}

[profile.dev]
opt-level = 0
debug = 0
incremental = false

[workspace]
"#
    )
}

/// Write only when the content differs (keeps cargo's fingerprints valid).
pub fn write_if_changed(path: &str, content: &str) -> std::io::Result<bool> {
    if let Ok(old) = std::fs::read_to_string(path) {
        if old == content {
            return Ok(false);
        }
    }
    if let Some(p) = Path::new(path).parent() {
        std::fs::create_dir_all(p)?;
    }
    std::fs::write(path, content)?;
    Ok(true)
}

fn remove_stale(dir: &str, keep: &BTreeSet<String>) {
    if let Ok(rd) = std::fs::read_dir(dir) {
        for e in rd.flatten() {
            if !keep.contains(&e.file_name().to_string_lossy().to_string()) {
                let _ = std::fs::remove_file(e.path());
            }
        }
    }
}

fn ensure_lock(dir: &str) -> std::io::Result<()> {
    let lock = format!("{dir}/Cargo.lock");
    if !Path::new(&lock).exists() {
        std::fs::copy(LOCK_SRC, &lock)?;
    }
    Ok(())
}

fn cargo(dir: &str, args: &[&str]) -> std::io::Result<std::process::Output> {
    Command::new("cargo")
        .args(args)
        .current_dir(dir)
        .env("CARGO_TARGET_DIR", TARGET_DIR)
        .env("CARGO_NET_OFFLINE", "true")
        .env_remove("RUSTFLAGS")
        .env_remove("CARGO_ENCODED_RUSTFLAGS")
        .output()
}

#[derive(Debug, Clone)]
pub struct Diag {
    pub target: String,
    pub level: String,
    pub message: String,
    pub rendered: String,
    pub line: u64,
}

fn parse_cargo_json(stdout: &[u8]) -> (Vec<Diag>, Vec<String>, Option<bool>) {
    let mut diags = vec![];
    let mut artifacts = vec![];
    let mut success = None;
    for line in String::from_utf8_lossy(stdout).lines() {
        let Ok(v) = serde_json::from_str::<Value>(line) else { continue };
        match v["reason"].as_str() {
            Some("compiler-message") => {
                let m = &v["message"];
                let mut text = m["message"].as_str().unwrap_or("").to_string();
                for ch in m["children"].as_array().cloned().unwrap_or_default() {
                    text.push_str(" | ");
                    text.push_str(ch["message"].as_str().unwrap_or(""));
                }
                let line = m["spans"].as_array().and_then(|s| s.iter().find(|s| s["is_primary"].as_bool() == Some(true)).or(s.first()).cloned()).map(|s| s["line_start"].as_u64().unwrap_or(0)).unwrap_or(0);
                diags.push(Diag {
                    target: v["target"]["name"].as_str().unwrap_or("").to_string(),
                    level: m["level"].as_str().unwrap_or("").to_string(),
                    message: text,
                    rendered: m["rendered"].as_str().unwrap_or("").to_string(),
                    line,
                });
            }
            Some("compiler-artifact") => artifacts.push(v["target"]["name"].as_str().unwrap_or("").to_string()),
            Some("build-finished") => success = v["success"].as_bool(),
            _ => {}
        }
    }
    (diags, artifacts, success)
}

// ---------------------------------------------------------------------------------------
// must-fail crate
// ---------------------------------------------------------------------------------------

pub struct CollideBin {
    pub name: String,
    pub kind: &'static str, // "struct" | "enum"
    pub a: Item,
    pub b: Item,
    pub must_fail: bool,
    pub source: String,
}

pub fn collide_bins(c: &Collisions) -> Vec<CollideBin> {
    let it = |s: &str, m: Mode| Item { label: s.to_string(), mode: m };
    let auto = |s: &str| -> Item {
        if labels::RUST_KEYWORDS_RAW_OK.contains(&s) {
            it(s, Mode::Raw)
        } else if labels::is_ascii_ident(s) && !labels::is_rust_keyword(s) {
            it(s, Mode::Direct)
        } else {
            it(s, Mode::Rename)
        }
    };
    const BOTH: &[&str] = &["struct", "enum"];
    const STRUCT: &[&str] = &["struct"];
    const ENUM: &[&str] = &["enum"];
    let mut pairs: Vec<(Item, Item, bool, &[&str])> = vec![];
    // one short identifier pair, one non-identifier pair, the keyword pair both ways of writing
    // the keyword, a unicode pair, the empty name, the long pair, the same name twice (field
    // name vs rename); every rustc run costs time, so most pairs use one kind only
    if let Some((a, b)) = c.ident_pairs.first() {
        pairs.push((auto(a), auto(b), true, BOTH));
    }
    if let Some((a, b)) = c.nonident_pairs.first() {
        pairs.push((auto(a), auto(b), true, BOTH));
    }
    for (a, b) in &c.preimage_pairs {
        match b.as_str() {
            "type" => {
                pairs.push((auto(a), it("type", Mode::Raw), true, STRUCT));
                pairs.push((it("type", Mode::Rename), auto(a), true, ENUM));
            }
            "foo" => pairs.push((auto(b), auto(a), true, ENUM)),
            "\u{540d}\u{524d}" => pairs.push((it(b, Mode::Direct), auto(a), true, STRUCT)),
            "" => pairs.push((auto(a), it("", Mode::RenameSer), true, ENUM)),
            _ => {}
        }
    }
    pairs.push((auto(&c.long_pair.0), auto(&c.long_pair.1), true, STRUCT));
    pairs.push((it("foo", Mode::Direct), it("foo", Mode::Rename), true, BOTH));
    // controls: distinct ids must compile
    pairs.push((it("foo", Mode::Direct), it("bar", Mode::Direct), false, ENUM));
    pairs.push((it("type", Mode::Raw), it("a b", Mode::Rename), false, STRUCT));
    let mut out = vec![];
    for (n, (a, b, must_fail, kinds)) in pairs.into_iter().enumerate() {
        for kind in ["struct", "enum"] {
            if !kinds.contains(&kind) {
                continue;
            }
            let name = format!("{}{n}_{kind}", if must_fail { "collide" } else { "control" });
            let body = if kind == "struct" {
                let (da, _) = field_decl(&a, "fa", "candid::Nat");
                let (db, _) = field_decl(&b, "fb", "String");
                format!("#[derive(candid::CandidType, serde::Deserialize)]\npub struct X {{\n    {da},\n    {db},\n}}\n")
            } else {
                let (da, _) = variant_decl(&a, "Va");
                let (db, _) = variant_decl(&b, "Vb");
                format!("#[derive(candid::CandidType, serde::Deserialize)]\npub enum X {{\n    {da},\n    {db},\n}}\n")
            };
            let source = format!(
                "// GENERATED by /verif/mc/c15 (property C15). Do not edit.\n// labels: {:?} ({}) and {:?} ({}), ids {} and {}\n#![allow(warnings)]\n{body}fn main() {{{}}}\n",
                a.label,
                a.mode.name(),
                b.label,
                b.mode.name(),
                h(&a.label),
                h(&b.label),
                if must_fail { "" } else { "\n    let _ = <X as candid::types::CandidType>::ty();\n" }
            );
            out.push(CollideBin { name, kind, a: a.clone(), b: b.clone(), must_fail, source });
        }
    }
    out
}

pub struct Prepared {
    pub corpus: Corpus,
    pub bins: Vec<CollideBin>,
    pub rewritten: u32,
}

/// Write both scratch crates (only files whose content changed).
pub fn write_crates(c: &Collisions) -> Result<Prepared, String> {
    let io = |e: std::io::Error| format!("cannot write scratch crate: {e}");
    std::fs::create_dir_all(WORK).map_err(io)?;
    let mut rewritten = 0;
    let corpus = generate_corpus(c);
    rewritten += write_if_changed(&format!("{CORPUS_DIR}/Cargo.toml"), &cargo_toml("derive_corpus")).map_err(io)? as u32;
    rewritten += write_if_changed(&format!("{CORPUS_DIR}/src/common.rs"), CORPUS_PRELUDE).map_err(io)? as u32;
    let _ = std::fs::remove_file(format!("{CORPUS_DIR}/src/main.rs"));
    remove_stale(&format!("{CORPUS_DIR}/src/bin"), &corpus.bins.iter().map(|b| format!("{}.rs", b.0)).collect());
    for (name, src) in &corpus.bins {
        rewritten += write_if_changed(&format!("{CORPUS_DIR}/src/bin/{name}.rs"), src).map_err(io)? as u32;
    }
    ensure_lock(CORPUS_DIR).map_err(io)?;
    let bins = collide_bins(c);
    rewritten += write_if_changed(&format!("{COLLIDE_DIR}/Cargo.toml"), &cargo_toml("derive_collide")).map_err(io)? as u32;
    remove_stale(&format!("{COLLIDE_DIR}/src/bin"), &bins.iter().map(|b| format!("{}.rs", b.name)).collect());
    for b in &bins {
        rewritten += write_if_changed(&format!("{COLLIDE_DIR}/src/bin/{}.rs", b.name), &b.source).map_err(io)? as u32;
    }
    ensure_lock(COLLIDE_DIR).map_err(io)?;
    Ok(Prepared { corpus, bins, rewritten })
}

pub enum BuildOutcome {
    Built,
    /// the corpus does not compile and the compiler blames the derive macro
    DeriveErrors(Vec<Diag>),
}

/// Build the corpus. `Err` = machinery failure (cargo missing, dependency build failure, ...).
pub fn build_corpus() -> Result<BuildOutcome, String> {
    let out = cargo(CORPUS_DIR, &["build", "--offline", "--bins", "--keep-going", "--message-format=json"]).map_err(|e| format!("cannot run cargo: {e}"))?;
    let (diags, _arts, success) = parse_cargo_json(&out.stdout);
    if out.status.success() {
        return Ok(BuildOutcome::Built);
    }
    let errs: Vec<Diag> = diags.into_iter().filter(|d| d.level == "error" && !d.message.starts_with("aborting due to")).collect();
    let derive_errs: Vec<Diag> = errs.iter().filter(|d| d.message.contains("proc-macro derive panicked") || d.message.contains("proc macro panicked")).cloned().collect();
    if !derive_errs.is_empty() && success == Some(false) {
        return Ok(BuildOutcome::DeriveErrors(derive_errs));
    }
    Err(format!(
        "cargo build of {CORPUS_DIR} failed (status {:?}); first errors: {:?}; stderr tail: {}",
        out.status.code(),
        errs.iter().take(3).map(|d| d.message.clone()).collect::<Vec<_>>(),
        String::from_utf8_lossy(&out.stderr).lines().rev().take(12).collect::<Vec<_>>().into_iter().rev().collect::<Vec<_>>().join(" / ")
    ))
}

pub fn prepare(c: &Collisions) -> Result<String, String> {
    let p = write_crates(c)?;
    match build_corpus()? {
        BuildOutcome::Built => Ok(format!(
            "derive corpus built: {} single-label items, {} two-field structs, {} labels in Big/BigE, {} must-fail/control targets written, {} files rewritten",
            p.corpus.items.len(),
            p.corpus.pairs.len(),
            p.corpus.big.len(),
            p.bins.len(),
            p.rewritten
        )),
        BuildOutcome::DeriveErrors(d) => Ok(format!("derive corpus does not compile: the derive macro rejects {} items (reported as violations by the check run)", d.len())),
    }
}

// ---------------------------------------------------------------------------------------
// comparison
// ---------------------------------------------------------------------------------------

struct Line {
    ty_text: String,
    /// (spelling kind, name or number, id as computed by the library in the corpus process)
    labels: Vec<(char, String, u32)>,
    bytes: Result<Vec<u8>, String>,
    rt: String,
    /// decode results for messages with one extra field ("-" when not applicable)
    xt: String,
}

fn unhex_str(s: &str) -> String {
    String::from_utf8_lossy(&hex::decode(s).unwrap_or_default()).to_string()
}

fn parse_line(fields: &[&str]) -> Option<Line> {
    if fields.len() < 6 {
        return None;
    }
    let ty_text = unhex_str(fields[0]);
    let mut labels = vec![];
    if fields[1] != "-" && fields[1] != "?" {
        for l in fields[1].split(',') {
            let p: Vec<&str> = l.split(':').collect();
            if p.len() != 3 {
                return None;
            }
            let kind = p[0].chars().next()?;
            let name = if kind == 'N' { unhex_str(p[1]) } else { p[1].to_string() };
            labels.push((kind, name, p[2].parse().ok()?));
        }
    }
    let bytes = if let Some(e) = fields[2].strip_prefix("ERR") { Err(unhex_str(e)) } else { hex::decode(fields[2]).map_err(|e| format!("{e}")) };
    Some(Line { ty_text, labels, bytes, rt: fields[3].to_string(), xt: fields[4].to_string() })
}

fn real_type_from(kind_record: bool, labels: &[(char, String, u32)], tys: &[Type]) -> Type {
    let fs: Vec<Field> = labels
        .iter()
        .zip(tys.iter())
        .map(|((k, n, _), t)| Field {
            id: match k {
                'N' => Label::Named(n.clone()),
                'I' => Label::Id(n.parse().unwrap_or(0)),
                _ => Label::Unnamed(n.parse().unwrap_or(0)),
            }
            .into(),
            ty: t.clone(),
        })
        .collect();
    if kind_record { TypeInner::Record(fs) } else { TypeInner::Variant(fs) }.into()
}

fn real_equal(a: &Type, b: &Type) -> Result<(), String> {
    match catch(|| {
        let mut g = candid::types::subtype::Gamma::new();
        candid::types::subtype::equal(&mut g, &TypeEnv::new(), a, b).map_err(|e| format!("{e}"))
    }) {
        Ok(r) => r,
        Err(p) => Err(format!("PANIC: {p}")),
    }
}

pub struct DeriveResult {
    pub machinery_error: Option<String>,
    pub summary: Value,
}

/// Build + run + compare. Violations go to `rep`; machinery failures are returned.
pub fn run_derive(c: &Collisions, rep: &mut Report, lim: &Limits, only_key: Option<&str>) -> DeriveResult {
    let fail = |m: String| DeriveResult { machinery_error: Some(m), summary: json!({}) };
    let t0 = std::time::Instant::now();
    let prep = match write_crates(c) {
        Ok(p) => p,
        Err(e) => return fail(e),
    };
    let mut local = Report::new();
    let built = match build_corpus() {
        Ok(b) => b,
        Err(e) => return fail(e),
    };
    let t_build = t0.elapsed().as_secs_f64();
    let corpus = &prep.corpus;
    let mut compared = 0u64;
    match built {
        BuildOutcome::DeriveErrors(diags) => {
            // attribute each error to the item declared after the `#[derive]` line it points to
            for d in diags {
                let src = corpus.bins.iter().find(|b| b.0 == d.target).map(|b| b.1.as_str()).unwrap_or("");
                let lines: Vec<&str> = src.lines().collect();
                let decl = lines.get(d.line as usize).copied().unwrap_or("").trim().to_string();
                local.violation(
                    &format!("derive|compile|{}", decl.split('{').next().unwrap_or("").replace("pub ", "")),
                    format!("the derive macro panicked on a type whose labels have distinct ids: `{decl}`: {}", d.message),
                    json!({"part": "derive", "decl": decl, "diagnostic": d.message}),
                );
            }
        }
        BuildOutcome::Built => {
            let mut stdout = String::new();
            for (name, _) in &corpus.bins {
                let exe = format!("{TARGET_DIR}/debug/{name}");
                let out = match Command::new(&exe).output() {
                    Ok(o) => o,
                    Err(e) => return fail(format!("cannot run {exe}: {e}")),
                };
                let so = String::from_utf8_lossy(&out.stdout).to_string();
                if !out.status.success() || !so.lines().any(|l| l == "DONE") {
                    return fail(format!("{exe} did not finish (status {:?}); stderr: {}", out.status.code(), String::from_utf8_lossy(&out.stderr).lines().take(5).collect::<Vec<_>>().join(" / ")));
                }
                stdout.push_str(&so);
            }
            let mut by: BTreeMap<(String, usize), Vec<String>> = BTreeMap::new();
            for l in stdout.lines() {
                let f: Vec<&str> = l.split('\t').collect();
                if f.len() >= 3 {
                    if let Ok(i) = f[1].parse::<usize>() {
                        by.insert((f[0].to_string(), i), f[2..].iter().map(|s| s.to_string()).collect());
                    }
                }
            }
            let nat: Type = TypeInner::Nat.into();
            let text: Type = TypeInner::Text.into();
            let null: Type = TypeInner::Null.into();
            let get = |kind: &str, i: usize, local: &mut Report, what: &str| -> Option<Line> {
                let key = format!("derive|{kind}{i}|{what}");
                match by.get(&(kind.to_string(), i)) {
                    None => {
                        local.violation(&format!("{key}|missing"), format!("corpus printed nothing for {kind}{i} ({what})"), json!({"part": "derive", "item": format!("{kind}{i}"), "what": what}));
                        None
                    }
                    Some(f) if f.first().map(|s| s.as_str()) == Some("PANIC") => {
                        local.violation(&format!("{key}|panic"), format!("ty()/Encode!/Decode! of {kind}{i} ({what}) panicked in the corpus process"), json!({"part": "derive", "item": format!("{kind}{i}"), "what": what}));
                        None
                    }
                    Some(f) => {
                        let fs: Vec<&str> = f.iter().map(|s| s.as_str()).collect();
                        parse_line(&fs)
                    }
                }
            };
            // ---- single-label structs and enums
            for (i, it) in corpus.items.iter().enumerate() {
                let id = h(&it.label);
                let what = format!("{}:{}", it.mode.name(), klabel(&it.label));
                for kind in ["S", "E"] {
                    local.evaluations += 1;
                    local.transitions += 3;
                    compared += 1;
                    let is_rec = kind == "S";
                    let Some(line) = get(kind, i, &mut local, &what) else { continue };
                    let key = format!("derive|{}|{}|{}", if is_rec { "struct" } else { "enum" }, it.mode.name(), klabel(&it.label));
                    let case = json!({"part": "derive", "item": format!("{kind}{i}"), "label": it.label, "mode": it.mode.name(), "expected_id": id, "ty_text": line.ty_text});
                    // ids as the library computes them for the derived type
                    let ids: Vec<u32> = line.labels.iter().map(|l| l.2).collect();
                    if ids != vec![id] {
                        local.violation(&format!("{key}|ids"), format!("derived type `{}` has field ids {ids:?}; the label {:?} has id {id}", line.ty_text, it.label), case.clone());
                    }
                    // the spelling the derive macro emitted
                    match line.labels.first() {
                        Some((k, n, _)) if *k == 'N' && n == &it.label => {}
                        other => local.violation(&format!("{key}|label"), format!("derived type carries label {other:?}, expected Named({:?})", it.label), case.clone()),
                    }
                    // real `equal` against the parser's type for the same label, by name and by id
                    let elem = if is_rec { nat.clone() } else { null.clone() };
                    let derived = real_type_from(is_rec, &line.labels, std::slice::from_ref(&elem));
                    let q = quote_candid(&it.label);
                    let texts = if is_rec { [format!("record {{ {q} : nat }}"), format!("record {{ {id} : nat }}")] } else { [format!("variant {{ {q} }}"), format!("variant {{ {id} }}")] };
                    let mut parser_ty = None;
                    for t in &texts {
                        match parse_type(t) {
                            Ok(pt) => {
                                if let Err(e) = real_equal(&derived, &pt) {
                                    local.violation(&format!("{key}|equal|{}", if t == &texts[0] { "by-name" } else { "by-id" }), format!("subtype::equal(derived `{}`, parser `{t}`) fails: {e}", line.ty_text), case.clone());
                                }
                                if parser_ty.is_none() {
                                    parser_ty = Some(pt);
                                }
                            }
                            Err(e) => local.violation(&format!("{key}|parser-type"), format!("parser rejects `{t}`: {e}"), case.clone()),
                        }
                    }
                    // the printed Candid text of the derived type (printer defects belong to C11/C12)
                    match parse_type(&line.ty_text) {
                        Ok(pt) => match parser_ty.as_ref().map(|p| real_equal(&pt, p)) {
                            Some(Ok(())) => local.outcome("derive:display-text-reparses-to-equal-type"),
                            _ => {
                                local.outcome("derive:display-text-reparses-to-different-type(printer,C11/C12)");
                                local.notes.push(format!("Display of derived type for label {:?} is `{}` which parses to a different type (printer defect, owned by C11/C12)", it.label, line.ty_text));
                            }
                        },
                        Err(_) => {
                            local.outcome("derive:display-text-does-not-reparse(printer,C11/C12)");
                            local.notes.push(format!("Display of derived type for label {:?} is `{}` which the parser rejects (printer defect, owned by C11/C12)", it.label, line.ty_text));
                        }
                    }
                    // bytes: equal to the parser path, strict reference decode, round trip
                    let (vtext, ety, eval) = if is_rec {
                        (format!("(record {{ {q} = 42 }})"), Ty::record(vec![(id, Ty::Prim(P::Nat))]), Val::record(vec![(id, Val::nat(42))]))
                    } else {
                        (format!("(variant {{ {q} }})"), Ty::variant(vec![(id, Ty::Prim(P::Null))]), Val::Variant(id, Box::new(Val::Null)))
                    };
                    match &line.bytes {
                        Err(e) => local.violation(&format!("{key}|encode"), format!("Encode! failed: {e}"), case.clone()),
                        Ok(b) => {
                            match wire::decode(b, lim) {
                                Ok(d) => {
                                    let t = d.tys.first().and_then(|t| d.env.unf(t).ok()).cloned();
                                    if t.as_ref() != Some(&ety) || d.vals != vec![eval.clone()] {
                                        local.violation(&format!("{key}|wire-content"), format!("Encode! bytes {} carry {:?} / {:?}, expected {ety} / {eval}", hexs(b), t.map(|t| t.to_string()), d.vals.iter().map(|v| v.to_string()).collect::<Vec<_>>()), case.clone());
                                    }
                                }
                                Err(e) => local.violation(&format!("{key}|wire-strict"), format!("Encode! bytes {} rejected by the strict reference decoder: {e:?}", hexs(b)), case.clone()),
                            }
                            if let (Some(pt), Ok(args)) = (parser_ty.as_ref(), parse_args(&vtext)) {
                                let env = TypeEnv::new();
                                match catch(|| args.annotate_types(true, &env, std::slice::from_ref(pt)).and_then(|a| a.to_bytes_with_types(&env, std::slice::from_ref(pt)))) {
                                    Ok(Ok(pb)) if &pb == b => {}
                                    Ok(Ok(pb)) => local.violation(&format!("{key}|bytes-vs-parser"), format!("Encode! gives {}, the text value `{vtext}` at the parser's type gives {}", hexs(b), hexs(&pb)), case.clone()),
                                    other => local.violation(&format!("{key}|parser-encode"), format!("encoding `{vtext}` failed: {other:?}"), case.clone()),
                                }
                            }
                            local.traces_validated += 1;
                        }
                    }
                    if line.rt != "1" {
                        let why = line.rt.strip_prefix("0:").map(unhex_str).unwrap_or(line.rt.clone());
                        local.violation(&format!("{key}|roundtrip"), format!("Decode! of the type's own encoding failed: {why}"), case.clone());
                    }
                    if is_rec {
                        for (n, part) in line.xt.split(';').enumerate() {
                            if part != "1" {
                                let why = part.strip_prefix("0:").map(|x| if x.chars().all(|c| c.is_ascii_hexdigit()) { unhex_str(x) } else { x.to_string() }).unwrap_or(part.to_string());
                                local.violation(
                                    &format!("{key}|extra-field-{}", if n == 0 { "below" } else { "above" }),
                                    format!("Decode! of a record with this field (id {id}) and one extra field (id {}) into the derived struct failed: {why}", if n == 0 { id.wrapping_sub(1) } else { id.wrapping_add(1) }),
                                    case.clone(),
                                );
                            }
                        }
                    }
                    local.nontrivial += (it.mode != Mode::Direct) as u64;
                    local.outcome(&format!("derive:{}:{}", if is_rec { "struct" } else { "enum" }, it.mode.name()));
                }
            }
            // ---- two-field structs
            let mut pair_bytes: BTreeMap<(String, String), Vec<u8>> = BTreeMap::new();
            for (k, (a, b)) in corpus.pairs.iter().enumerate() {
                local.evaluations += 1;
                local.transitions += 3;
                compared += 1;
                let what = format!("{}+{}", klabel(&a.label), klabel(&b.label));
                let Some(line) = get("P", k, &mut local, &what) else { continue };
                let (ia, ib) = (h(&a.label), h(&b.label));
                let key = format!("derive|struct2|{}:{}|{}:{}", a.mode.name(), klabel(&a.label), b.mode.name(), klabel(&b.label));
                let case = json!({"part": "derive", "item": format!("P{k}"), "labels": [a.label, b.label], "modes": [a.mode.name(), b.mode.name()], "expected_ids": [ia, ib], "ty_text": line.ty_text});
                let (an, _) = pair_types(a, b);
                let natf = |id: u32, l: &str| (id, l.to_string(), nat.clone(), Ty::Prim(P::Nat), Val::nat(1));
                let textf = |id: u32, l: &str| (id, l.to_string(), text.clone(), Ty::Prim(P::Text), Val::Text("m".into()));
                let mut want = if an { vec![natf(ia, &a.label), textf(ib, &b.label)] } else { vec![textf(ia, &a.label), natf(ib, &b.label)] };
                want.sort_by_key(|w| w.0);
                let ids: Vec<u32> = line.labels.iter().map(|l| l.2).collect();
                if ids != want.iter().map(|w| w.0).collect::<Vec<_>>() {
                    local.violation(&format!("{key}|ids"), format!("derived `{}` has field ids {ids:?}, expected ascending {:?}", line.ty_text, want.iter().map(|w| w.0).collect::<Vec<_>>()), case.clone());
                }
                let names: Vec<String> = line.labels.iter().map(|l| l.1.clone()).collect();
                if names != want.iter().map(|w| w.1.clone()).collect::<Vec<_>>() {
                    local.violation(&format!("{key}|labels"), format!("derived `{}` has labels {names:?}, expected {:?}", line.ty_text, want.iter().map(|w| w.1.clone()).collect::<Vec<_>>()), case.clone());
                }
                let derived = real_type_from(true, &line.labels, &want.iter().map(|w| w.2.clone()).collect::<Vec<_>>());
                let ptext = format!("record {{ {} : {}; {} : {} }}", quote_candid(&a.label), if an { "nat" } else { "text" }, quote_candid(&b.label), if an { "text" } else { "nat" });
                match parse_type(&ptext) {
                    Ok(pt) => {
                        if let Err(e) = real_equal(&derived, &pt) {
                            local.violation(&format!("{key}|equal"), format!("subtype::equal(derived `{}`, parser `{ptext}`) fails: {e}", line.ty_text), case.clone());
                        }
                    }
                    Err(e) => local.violation(&format!("{key}|parser-type"), format!("parser rejects `{ptext}`: {e}"), case.clone()),
                }
                match &line.bytes {
                    Err(e) => local.violation(&format!("{key}|encode"), format!("Encode! failed: {e}"), case.clone()),
                    Ok(bts) => {
                        let ety = Ty::Record(want.iter().map(|w| (w.0, w.3.clone())).collect());
                        let eval = Val::Record(want.iter().map(|w| (w.0, w.4.clone())).collect());
                        match wire::decode(bts, lim) {
                            Ok(d) => {
                                let t = d.tys.first().and_then(|t| d.env.unf(t).ok()).cloned();
                                if t.as_ref() != Some(&ety) || d.vals != vec![eval.clone()] {
                                    local.violation(&format!("{key}|wire-content"), format!("Encode! bytes {} carry {:?} / {:?}, expected {ety} / {eval}", hexs(bts), t.map(|t| t.to_string()), d.vals.iter().map(|v| v.to_string()).collect::<Vec<_>>()), case.clone());
                                }
                            }
                            Err(e) => local.violation(&format!("{key}|wire-strict"), format!("Encode! bytes {} rejected by the strict reference decoder (ids must be strictly ascending): {e:?}", hexs(bts)), case.clone()),
                        }
                        local.traces_validated += 1;
                        // the struct with the fields declared the other way round must encode identically
                        if let Some(other) = pair_bytes.get(&(b.label.clone(), a.label.clone())) {
                            if other != bts {
                                local.violation(&format!("{key}|declaration-order"), format!("declaring the fields in the other order changes the encoding: {} vs {}", hexs(bts), hexs(other)), case.clone());
                            }
                        }
                        pair_bytes.insert((a.label.clone(), b.label.clone()), bts.clone());
                    }
                }
                if line.rt != "1" {
                    let why = line.rt.strip_prefix("0:").map(unhex_str).unwrap_or(line.rt.clone());
                    local.violation(&format!("{key}|roundtrip"), format!("Decode! of the type's own encoding failed: {why}"), case.clone());
                }
                // non-trivial: declaration (spelling) order differs from id order
                if (ia < ib) != (a.label.as_bytes() < b.label.as_bytes()) {
                    local.nontrivial += 1;
                }
                local.outcome(if ia < ib { "derive:struct2:declared-ascending" } else { "derive:struct2:declared-descending" });
            }
            // ---- Big: every label in one struct
            {
                local.evaluations += 1;
                compared += 1;
                if let Some(line) = get("B", 0, &mut local, "Big") {
                    let mut want: Vec<(u32, usize)> = corpus.big.iter().enumerate().map(|(j, it)| (h(&it.label), j)).collect();
                    want.sort();
                    let ids: Vec<u32> = line.labels.iter().map(|l| l.2).collect();
                    let case = json!({"part": "derive", "item": "Big", "labels": corpus.big.iter().map(|i| i.label.clone()).collect::<Vec<_>>()});
                    if ids != want.iter().map(|w| w.0).collect::<Vec<_>>() {
                        let firstbad = ids.iter().zip(want.iter()).position(|(a, b)| *a != b.0);
                        local.violation("derive|Big|ids", format!("struct with {} fields: field ids are not the ascending specification ids (first difference at position {firstbad:?})", want.len()), case.clone());
                    }
                    match &line.bytes {
                        Ok(b) => match wire::decode(b, lim) {
                            Ok(d) => {
                                let eval = Val::Record(want.iter().map(|(id, j)| (*id, Val::nat(*j as u64))).collect());
                                if d.vals != vec![eval] {
                                    local.violation("derive|Big|wire-content", "struct with all labels: encoded field values are not attached to the ids of their labels".into(), case.clone());
                                }
                                local.traces_validated += 1;
                            }
                            Err(e) => local.violation("derive|Big|wire-strict", format!("struct with all labels: bytes rejected by the strict reference decoder: {e:?}"), case.clone()),
                        },
                        Err(e) => local.violation("derive|Big|encode", format!("Encode! failed: {e}"), case.clone()),
                    }
                    if line.rt != "1" {
                        local.violation("derive|Big|roundtrip", format!("Decode! of own encoding failed: {}", line.rt.strip_prefix("0:").map(unhex_str).unwrap_or(line.rt.clone())), case.clone());
                    }
                    local.nontrivial += 1;
                    local.outcome("derive:Big");
                }
                // BigE: every label in one enum, each variant encoded
                let mut want: Vec<u32> = corpus.big.iter().map(|it| h(&it.label)).collect();
                want.sort();
                for (j, it) in corpus.big.iter().enumerate() {
                    local.evaluations += 1;
                    compared += 1;
                    let Some(line) = get("V", j, &mut local, &format!("BigE::{}", klabel(&it.label))) else { continue };
                    let case = json!({"part": "derive", "item": format!("BigE variant {j}"), "label": it.label});
                    let ids: Vec<u32> = line.labels.iter().map(|l| l.2).collect();
                    if j == 0 && ids != want {
                        local.violation("derive|BigE|ids", format!("enum with {} variants: ids are not the ascending specification ids", want.len()), case.clone());
                    }
                    match &line.bytes {
                        Ok(b) => match wire::decode(b, lim) {
                            Ok(d) => {
                                if d.vals != vec![Val::Variant(h(&it.label), Box::new(Val::Null))] {
                                    local.violation(&format!("derive|BigE|wire-content|{}", klabel(&it.label)), format!("variant {:?} of the all-labels enum encodes as {:?}, expected id {}", it.label, d.vals.iter().map(|v| v.to_string()).collect::<Vec<_>>(), h(&it.label)), case.clone());
                                }
                                local.traces_validated += 1;
                            }
                            Err(e) => local.violation(&format!("derive|BigE|wire-strict|{}", klabel(&it.label)), format!("bytes rejected by the strict reference decoder: {e:?}"), case.clone()),
                        },
                        Err(e) => local.violation(&format!("derive|BigE|encode|{}", klabel(&it.label)), format!("Encode! failed: {e}"), case.clone()),
                    }
                    if line.rt != "1" {
                        local.violation(&format!("derive|BigE|roundtrip|{}", klabel(&it.label)), "Decode! of own encoding failed".into(), case.clone());
                    }
                    local.outcome("derive:BigE-variant");
                }
                // tuple struct: positional ids
                local.evaluations += 1;
                compared += 1;
                if let Some(line) = get("T", 0, &mut local, "Tup") {
                    let ids: Vec<u32> = line.labels.iter().map(|l| l.2).collect();
                    if ids != vec![0, 1] || line.rt != "1" {
                        local.violation("derive|Tup", format!("tuple struct has ids {ids:?} (expected [0, 1]), round trip {}", line.rt), json!({"part": "derive", "item": "Tup"}));
                    }
                    local.outcome("derive:tuple-struct");
                }
            }
        }
    }
    // ---- must-fail targets
    let t1 = std::time::Instant::now();
    let out = match cargo(COLLIDE_DIR, &["build", "--offline", "--bins", "--keep-going", "--message-format=json"]) {
        Ok(o) => o,
        Err(e) => return fail(format!("cannot run cargo: {e}")),
    };
    let (diags, artifacts, _success) = parse_cargo_json(&out.stdout);
    let stderr = String::from_utf8_lossy(&out.stderr).to_string();
    // machinery check: every target was either compiled or diagnosed
    for b in &prep.bins {
        let errs: Vec<&Diag> = diags.iter().filter(|d| d.target == b.name && d.level == "error" && !d.message.starts_with("aborting due to")).collect();
        let built = artifacts.iter().any(|a| a == &b.name) && Path::new(&format!("{TARGET_DIR}/debug/{}", b.name)).exists() && errs.is_empty();
        if !built && errs.is_empty() {
            return fail(format!("target {} of {COLLIDE_DIR} was neither built nor diagnosed; cargo stderr: {}", b.name, stderr.lines().rev().take(8).collect::<Vec<_>>().join(" / ")));
        }
        local.evaluations += 1;
        local.transitions += 1;
        local.traces_validated += 1;
        compared += 1;
        let key = format!("derive|must-fail|{}|{}:{}|{}:{}", b.kind, b.a.mode.name(), klabel(&b.a.label), b.b.mode.name(), klabel(&b.b.label));
        let case = json!({"part": "derive", "item": b.name, "kind": b.kind, "labels": [b.a.label, b.b.label], "modes": [b.a.mode.name(), b.b.mode.name()], "ids": [h(&b.a.label), h(&b.b.label)], "source": b.source});
        let derive_panics: Vec<&&Diag> = errs.iter().filter(|d| d.message.contains("proc-macro derive panicked")).collect();
        if b.must_fail {
            if built {
                local.violation(&format!("{key}|compiled"), format!("a {} whose labels {:?} and {:?} both have id {} compiles: the derive macro did not reject the collision", b.kind, b.a.label, b.b.label, h(&b.a.label)), case);
            } else if derive_panics.is_empty() {
                local.violation(&format!("{key}|other-error"), format!("compilation fails, but not through the derive macro's uniqueness check: {}", errs.iter().map(|d| d.message.clone()).collect::<Vec<_>>().join(" ;; ")), case);
            } else {
                local.nontrivial += 1;
                let m = &derive_panics[0].message;
                if m.contains("assertion") || m.contains("collision") || m.contains("unique") {
                    local.outcome("derive:must-fail:rejected-by-uniqueness-assertion");
                } else {
                    local.violation(&format!("{key}|diagnostic"), format!("rejected, but the diagnostic does not come from the uniqueness assertion: {m}"), case);
                }
                if !m.contains("collision") && !m.contains(&b.a.label) {
                    local.count("derive:must-fail:diagnostic-names-neither-label-nor-collision(informational)", 1);
                }
            }
        } else if built {
            local.outcome("derive:control:compiled");
        } else {
            local.violation(&format!("{key}|control-rejected"), format!("labels {:?} and {:?} have distinct ids but the {} does not compile: {}", b.a.label, b.b.label, b.kind, errs.iter().map(|d| d.message.clone()).collect::<Vec<_>>().join(" ;; ")), case);
        }
    }
    let t_collide = t1.elapsed().as_secs_f64();
    let summary = json!({
        "derive_single_label_items": corpus.items.len(),
        "derive_single_label_types": corpus.items.len() * 2,
        "derive_two_field_structs": corpus.pairs.len(),
        "derive_big_labels": corpus.big.len(),
        "derive_must_fail_targets": prep.bins.iter().filter(|b| b.must_fail).count(),
        "derive_control_targets": prep.bins.iter().filter(|b| !b.must_fail).count(),
        "derive_compared": compared,
        "derive_files_rewritten": prep.rewritten,
        "derive_corpus_build_s": t_build,
        "derive_collide_build_s": t_collide,
    });
    // de-duplicate notes
    local.notes.sort();
    local.notes.dedup();
    if let Some(k) = only_key {
        local.violations.retain(|v| v.key == k);
        local.violation_count = local.violations.len() as u64;
    }
    local.level("6-derive", compared, true);
    rep.merge(local);
    DeriveResult { machinery_error: None, summary }
}
