//! Label universes of C15 and the deterministic collision / preimage searches.
//! Everything here uses only the specification's hash (refmodel::hash::idl_hash, R7).
use refmodel::hash::idl_hash as spec_hash;
use std::collections::HashMap;

pub fn h(s: &str) -> u32 {
    spec_hash(s)
}

/// 40-character alphabet of part 1 (a-z, 0-9, `_`, `A`, `Z`, space).
pub fn alphabet40() -> Vec<char> {
    let mut v: Vec<char> = ('a'..='z').collect();
    v.extend('0'..='9');
    v.extend(['_', 'A', 'Z', ' ']);
    assert_eq!(v.len(), 40);
    v
}

/// Number of strings of length <= n over an alphabet of size k.
pub fn count_upto(k: u64, n: u32) -> u64 {
    (0..=n).map(|l| k.pow(l)).sum()
}

/// The `idx`-th string (length-lexicographic) of length <= n over `alpha`.
pub fn nth_string(alpha: &[char], mut idx: u64) -> String {
    let k = alpha.len() as u64;
    let mut len = 0u32;
    loop {
        let c = k.pow(len);
        if idx < c {
            break;
        }
        idx -= c;
        len += 1;
    }
    let mut out = vec![' '; len as usize];
    for i in (0..len as usize).rev() {
        out[i] = alpha[(idx % k) as usize];
        idx /= k;
    }
    out.into_iter().collect()
}

pub const CANDID_KEYWORDS: &[&str] = &[
    "null", "bool", "nat", "int", "nat8", "nat16", "nat32", "nat64", "int8", "int16", "int32", "int64", "float32",
    "float64", "text", "reserved", "empty", "opt", "vec", "record", "variant", "func", "service", "oneway", "query",
    "composite_query", "blob", "type", "import", "principal", "true", "false",
];

/// Rust keywords that may be written as raw identifiers (`r#kw`).
pub const RUST_KEYWORDS_RAW_OK: &[&str] = &[
    "as", "break", "const", "continue", "else", "enum", "extern", "false", "fn", "for", "if", "impl", "in", "let",
    "loop", "match", "mod", "move", "mut", "pub", "ref", "return", "static", "struct", "trait", "true", "type",
    "unsafe", "use", "where", "while", "async", "await", "dyn", "abstract", "become", "box", "do", "final", "macro",
    "override", "priv", "typeof", "unsized", "virtual", "yield", "try", "gen",
];
/// Rust keywords / reserved identifiers that cannot be raw identifiers (only reachable by rename).
pub const RUST_KEYWORDS_NO_RAW: &[&str] = &["crate", "self", "Self", "super", "_"];
/// Weak keywords: ordinary identifiers in field / variant position.
pub const RUST_WEAK_KEYWORDS: &[&str] = &["union", "macro_rules", "raw", "safe", "auto", "default"];

pub const JS_KEYWORDS: &[&str] = &[
    "break", "case", "catch", "class", "const", "continue", "debugger", "default", "delete", "do", "else", "enum",
    "export", "extends", "false", "finally", "for", "function", "if", "implements", "import", "in", "instanceof",
    "interface", "let", "new", "null", "package", "private", "protected", "public", "return", "static", "super",
    "switch", "this", "throw", "true", "try", "typeof", "var", "void", "while", "with", "yield", "await", "async",
    "arguments", "eval", "undefined", "constructor", "prototype", "__proto__", "toString", "valueOf",
    "hasOwnProperty",
];

pub fn all_keywords() -> Vec<String> {
    let mut v: Vec<String> = vec![];
    for l in [CANDID_KEYWORDS, RUST_KEYWORDS_RAW_OK, RUST_KEYWORDS_NO_RAW, RUST_WEAK_KEYWORDS, JS_KEYWORDS] {
        for s in l {
            if !v.iter().any(|x| x == s) {
                v.push(s.to_string());
            }
        }
    }
    v
}

/// Unicode set: 2-/3-/4-byte characters, combining marks (NFC vs NFD spellings are different
/// names), RTL, invisible characters, NUL and other controls.
pub fn unicode_set() -> Vec<String> {
    [
        "\u{e9}",            // é NFC (2 bytes)
        "e\u{301}",          // é NFD (combining acute)
        "\u{df}",            // ß
        "\u{f1}o",           // ño
        "\u{3a9}",           // Ω
        "\u{80}",            // first 2-byte scalar
        "\u{7ff}",           // last 2-byte scalar
        "\u{800}",           // first 3-byte scalar
        "\u{ffff}",          // last 3-byte scalar (non-character)
        "\u{fffd}",          // replacement character
        "\u{10000}",         // first 4-byte scalar
        "\u{10ffff}",        // last scalar
        "\u{540d}\u{524d}",  // 名前
        "\u{65e5}\u{672c}\u{8a9e}", // 日本語
        "\u{d55c}\u{ae00}",  // 한글
        "\u{1f600}",         // emoji (4 bytes)
        "\u{1f468}\u{200d}\u{1f469}\u{200d}\u{1f467}", // ZWJ sequence
        "\u{1d518}",         // mathematical fraktur U
        "\u{5e9}\u{5dc}\u{5d5}\u{5dd}", // Hebrew (RTL)
        "\u{645}\u{631}\u{62d}\u{628}\u{627}", // Arabic (RTL)
        "\u{202e}abc",       // RTL override
        "a\u{200b}b",        // zero width space
        "\u{feff}x",         // BOM
        "a\u{300}\u{301}\u{302}", // stacked combining marks
        "\0",
        "a\0b",
        "\u{7f}",
        "\n",
        "\t",
        "\r\n",
        "\u{1}",
        "\u{1b}[0m",
    ]
    .iter()
    .map(|s| s.to_string())
    .collect()
}

pub fn numeric_looking() -> Vec<String> {
    ["0", "1", "01", "00", "42", "4294967295", "4294967296", "0x10", "1_000", "-1", "1.5", "1e3", "+1", "٣"]
        .iter()
        .map(|s| s.to_string())
        .collect()
}

pub fn quoted_only() -> Vec<String> {
    [
        "", " ", "  ", "a b", "a-b", "a.b", "a:b", "a;b", "a=b", "{", "}", "(", ")", "\"", "\\", "'", "\\\"", "a\"b", "//",
        "/*", "*/", "#", "$x", "@", "a,b", ",", "a,name,unit", "5,id,unit", "x,name,struct", "x y z", " lead", "trail ", "9lives", "r#type", "hello world!",
    ]
    .iter()
    .map(|s| s.to_string())
    .collect()
}

pub fn identifiers() -> Vec<String> {
    [
        "a", "b", "z", "A", "Z", "_a", "__", "a_", "_0", "a0", "a1", "ab", "ba", "foo", "bar", "baz", "id", "name",
        "value", "key", "Ok", "Err", "Some", "None", "ok", "err", "field", "field_1", "field_2", "fooBar", "FooBar",
        "foo_bar", "FOO_BAR", "x", "y", "x1", "x2", "owner", "amount", "from", "to", "memo", "created_at_time",
        "fee", "from_subaccount", "transfer", "balance", "account", "subaccount", "controller", "canister_id",
        "wasm_module", "arg", "mode", "install", "reinstall", "upgrade", "settings", "freezing_threshold",
        "memory_allocation", "compute_allocation", "a_very_long_identifier_name_that_goes_on_and_on_and_on_0123456789",
    ]
    .iter()
    .map(|s| s.to_string())
    .collect()
}

// ---------------------------------------------------------------------------------------
// collisions
// ---------------------------------------------------------------------------------------

/// First `want` colliding pairs (a, b), a before b in length-lexicographic order over the
/// ASCII alphabet `alpha`, among strings of length `minlen..=maxlen` accepted by `keep`.
/// The search uses plain u64 arithmetic; every reported pair is re-verified with the
/// specification hash by the caller (`find_collisions`).
pub fn brute_collisions(
    alpha: &[u8],
    minlen: usize,
    maxlen: usize,
    want: usize,
    cap: u64,
    keep: &dyn Fn(&str) -> bool,
) -> (Vec<(String, String)>, u64) {
    let mut seen: HashMap<u32, Vec<u8>> = HashMap::new();
    let mut out: Vec<(String, String)> = vec![];
    let mut examined = 0u64;
    for len in minlen..=maxlen {
        let mut digits = vec![0usize; len];
        'odo: loop {
            if examined >= cap || out.len() >= want {
                return (out, examined);
            }
            let bytes: Vec<u8> = digits.iter().map(|d| alpha[*d]).collect();
            let s = std::str::from_utf8(&bytes).unwrap();
            if keep(s) {
                examined += 1;
                let mut acc: u64 = 0;
                for b in &bytes {
                    acc = (acc * 223 + *b as u64) & 0xffff_ffff;
                }
                match seen.get(&(acc as u32)) {
                    Some(prev) => {
                        if prev != &bytes {
                            out.push((String::from_utf8(prev.clone()).unwrap(), s.to_string()));
                        }
                    }
                    None => {
                        seen.insert(acc as u32, bytes.clone());
                    }
                }
            }
            // next string of this length
            let mut i = len;
            loop {
                if i == 0 {
                    break 'odo;
                }
                i -= 1;
                digits[i] += 1;
                if digits[i] < alpha.len() {
                    break;
                }
                digits[i] = 0;
            }
            if len == 0 {
                break;
            }
        }
    }
    (out, examined)
}

fn pow223(n: u32) -> u32 {
    let mut r: u64 = 1;
    for _ in 0..n {
        r = (r * 223) % (1u64 << 32);
    }
    r as u32
}

/// Meet-in-the-middle preimage table: all 4-letter lower-case words by hash.
pub struct Mitm {
    by_hash: HashMap<u32, u32>, // hash(word) -> word index
    hashes: Vec<u32>,           // word index -> hash(word)
}

impl Mitm {
    pub fn new() -> Mitm {
        let n = 26u32.pow(4);
        let mut by_hash = HashMap::with_capacity(n as usize);
        let mut hashes = Vec::with_capacity(n as usize);
        for i in 0..n {
            let hv = h(&Self::word(i));
            by_hash.insert(hv, i);
            hashes.push(hv);
        }
        assert_eq!(by_hash.len() as u32, n, "4-letter hashes are injective (no wrap-around)");
        Mitm { by_hash, hashes }
    }
    fn word(mut i: u32) -> String {
        let mut out = [b' '; 4];
        for p in (0..4).rev() {
            out[p] = b'a' + (i % 26) as u8;
            i /= 26;
        }
        String::from_utf8(out.to_vec()).unwrap()
    }
    /// The lexicographically first `p ++ s` (p, s four lower-case letters each) whose
    /// specification hash is `target`, different from `avoid`. hash(p ++ s) =
    /// hash(p) * 223^4 + hash(s) (mod 2^32); the result is re-verified with `h`.
    pub fn preimage(&self, target: u32, avoid: &str) -> Option<String> {
        let m = pow223(4) as u64;
        for (i, hp) in self.hashes.iter().enumerate() {
            let shifted = ((*hp as u64 * m) & 0xffff_ffff) as u32;
            let need = target.wrapping_sub(shifted);
            if let Some(si) = self.by_hash.get(&need) {
                let s = format!("{}{}", Self::word(i as u32), Self::word(*si));
                if s != avoid {
                    assert_eq!(h(&s), target, "meet-in-the-middle result verified with the specification hash");
                    return Some(s);
                }
            }
        }
        None
    }
}

/// All 5-byte collision families by exhaustive analysis of the wrap count: two 5-byte
/// strings collide iff sum d_i * 223^(4-i) = k * 2^32 with d_i the byte differences;
/// |d_i| <= 74 for identifier characters (bytes 48..122), so |k| <= 42 and the balanced
/// base-223 digits of k * 2^32 are the only candidate difference vector for each k.
/// For each admissible k the lexicographically first pair over `first` (first character)
/// and `rest` (other characters) is returned.
pub fn short_ident_collisions(want: usize) -> Vec<(String, String)> {
    let rest: Vec<u8> = (b'0'..=b'9').chain(b'A'..=b'Z').chain([b'_']).chain(b'a'..=b'z').collect();
    let first: Vec<u8> = rest.iter().cloned().filter(|c| !c.is_ascii_digit()).collect();
    let mut out = vec![];
    for k in 1..=42i128 {
        let mut d = k << 32;
        let mut digits = [0i128; 5];
        for i in (0..5).rev() {
            let mut r = d.rem_euclid(223);
            if r > 111 {
                r -= 223;
            }
            digits[i] = r;
            d = (d - r) / 223;
        }
        if d != 0 || digits.iter().any(|x| x.abs() > 74) {
            continue;
        }
        let mut a = vec![];
        let mut b = vec![];
        let mut ok = true;
        for (i, dg) in digits.iter().enumerate() {
            let al = if i == 0 { &first } else { &rest };
            match al.iter().find(|x| al.contains(&((**x as i128 - dg) as u8)) && (**x as i128 - dg) >= 0) {
                Some(x) => {
                    a.push(*x);
                    b.push((*x as i128 - dg) as u8);
                }
                None => ok = false,
            }
        }
        if !ok {
            continue;
        }
        let (a, b) = (String::from_utf8(a).unwrap(), String::from_utf8(b).unwrap());
        if is_rust_keyword(&a) || is_rust_keyword(&b) || a == b {
            continue;
        }
        assert_eq!(h(&a), h(&b), "constructed pair verified with the specification hash");
        out.push((a, b));
        if out.len() >= want {
            break;
        }
    }
    out
}

pub fn is_rust_keyword(s: &str) -> bool {
    RUST_KEYWORDS_RAW_OK.contains(&s) || RUST_KEYWORDS_NO_RAW.contains(&s)
}

/// ASCII identifier of both Rust and Candid (`[A-Za-z_][A-Za-z0-9_]*`), not `_` alone.
pub fn is_ascii_ident(s: &str) -> bool {
    let mut cs = s.chars();
    match cs.next() {
        Some(c) if c.is_ascii_alphabetic() || c == '_' => {}
        _ => return false,
    }
    s != "_" && cs.all(|c| c.is_ascii_alphanumeric() || c == '_')
}

#[derive(Clone, Debug)]
pub struct Collisions {
    /// both members valid Rust identifiers (non-keywords), found by brute force
    pub ident_pairs: Vec<(String, String)>,
    /// both members are not identifiers, found by brute force
    pub nonident_pairs: Vec<(String, String)>,
    /// (constructed lower-case identifier, given name): meet-in-the-middle preimages
    pub preimage_pairs: Vec<(String, String)>,
    /// names whose id equals a given numeric id
    pub id_preimages: Vec<(String, u32)>,
    /// long ASCII pair
    pub long_pair: (String, String),
    pub examined: u64,
}

impl Collisions {
    pub fn all_pairs(&self) -> Vec<(String, String)> {
        let mut v = self.ident_pairs.clone();
        v.extend(self.nonident_pairs.clone());
        v.extend(self.preimage_pairs.clone());
        v.push(self.long_pair.clone());
        v
    }
}

pub const PREIMAGE_TARGET_NAMES: &[&str] = &["type", "foo", "\u{540d}\u{524d}", "", "a b", "0"];
pub const PREIMAGE_TARGET_IDS: &[u32] = &[0, 1, 5, 0x7fff_ffff, 0x8000_0000, 0xffff_fffe, 0xffff_ffff];

pub fn find_collisions() -> Collisions {
    let ident_pairs = short_ident_collisions(3);
    let e1 = 42;
    let (nonident_pairs, e2) = brute_collisions(b"!a+ -./?#bcde012", 1, 5, 3, 1_200_000, &|s| !is_ascii_ident(s));
    for (a, b) in ident_pairs.iter().chain(nonident_pairs.iter()) {
        assert!(a != b && h(a) == h(b), "search result is not a collision under the specification hash");
    }
    let mitm = Mitm::new();
    let mut preimage_pairs = vec![];
    for t in PREIMAGE_TARGET_NAMES {
        if let Some(p) = mitm.preimage(h(t), t) {
            preimage_pairs.push((p, t.to_string()));
        }
    }
    let mut id_preimages = vec![];
    for id in PREIMAGE_TARGET_IDS {
        if let Some(p) = mitm.preimage(*id, "") {
            id_preimages.push((p, *id));
        }
    }
    // long ASCII collision: equal-length colliding cores stay colliding under a common
    // prefix and suffix (hash(p ++ a ++ s) depends on a only through hash(a) and |a|)
    let core = ident_pairs.iter().find(|(a, b)| a.len() == b.len()).cloned().unwrap_or_else(|| {
        let a = mitm.preimage(12345, "").unwrap();
        let b = mitm.preimage(12345, &a).unwrap();
        (a, b)
    });
    let pre = "the_quick_brown_fox_jumps_over_";
    let suf = "_the_lazy_dog_0123456789";
    let long_pair = (format!("{pre}{}{suf}", core.0), format!("{pre}{}{suf}", core.1));
    Collisions { ident_pairs, nonident_pairs, preimage_pairs, id_preimages, long_pair, examined: e1 + e2 }
}

/// Candid text literal for a name (always quoted).
pub fn quote_candid(s: &str) -> String {
    let mut o = String::from("\"");
    for c in s.chars() {
        match c {
            '"' => o.push_str("\\\""),
            '\\' => o.push_str("\\\\"),
            c if (c as u32) < 0x20 || c as u32 == 0x7f => o.push_str(&format!("\\u{{{:x}}}", c as u32)),
            c => o.push(c),
        }
    }
    o.push('"');
    o
}

/// Rust string literal for a name (everything outside `[A-Za-z0-9_ ]` escaped).
pub fn quote_rust(s: &str) -> String {
    let mut o = String::from("\"");
    for c in s.chars() {
        if c.is_ascii_alphanumeric() || c == '_' || c == ' ' {
            o.push(c);
        } else {
            o.push_str(&format!("\\u{{{:x}}}", c as u32));
        }
    }
    o.push('"');
    o
}
