//! C19 — all binding generators are total, deterministic and closed on checked programs,
//! and doc comments / names cannot terminate a comment or string early or inject tokens.
//! (see /verif/DESIGN.md section 5 and /verif/mc/README-dev.md)
//!
//! Spaces (all enumerated completely):
//!   U_P            mclib::progs::default_programs / plain_programs
//!   doc placement  base programs x every comment position (and all at once) x hostile docs
//!   name placement base programs x every name position x hostile names
//! Subject: javascript::compile, typescript::compile, motoko::compile, rust::compile with
//! the default config for the targets canister_call / agent / stub (six entry points).
mod cases;
mod gens;
mod lex;
mod model;
mod oracle;

use cases::Case;
use gens::{Target, ALL_TARGETS};
use mclib::engine::{finish, install_quiet_panic_hook, Ctx, Report, Tier};
use model::View;
use serde_json::{json, Value};
use std::collections::BTreeMap;
use std::sync::atomic::{AtomicU64, Ordering};
use std::sync::Mutex;

fn parse_args() -> (Tier, Option<String>, Vec<String>) {
    let args: Vec<String> = std::env::args().collect();
    let mut tier = match std::env::var("VERIF_TIER").as_deref() {
        Ok("thorough") => Tier::Thorough,
        _ => Tier::Quick,
    };
    let mut replay = None;
    let mut rest = vec![];
    let mut i = 1;
    while i < args.len() {
        match args[i].as_str() {
            "--tier" => {
                i += 1;
                tier = if args.get(i).map(|s| s.as_str()) == Some("thorough") { Tier::Thorough } else { Tier::Quick };
            }
            "--replay" => {
                i += 1;
                replay = args.get(i).cloned();
            }
            o => rest.push(o.to_string()),
        }
        i += 1;
    }
    (tier, replay, rest)
}

// ---------------------------------------------------------------------------------------
// one case

#[derive(Clone, Debug)]
struct Viol {
    key: String,
    msg: String,
    target: Target,
    clause: String,
    subject: String,
}

#[derive(Default)]
struct CaseStats {
    pairs: u64,
    gen_calls: u64,
    validated: u64,
    outcomes: Vec<String>,
    front_end_rejected: bool,
    twin_rejected: bool,
    mo_skipped: bool,
    dup_defs: Vec<(Target, String)>,
    str_tokens: u64,
    comment_tokens: u64,
}

fn excerpt(s: &str, needle_line: Option<usize>) -> String {
    let lines: Vec<&str> = s.lines().collect();
    let (lo, hi) = match needle_line {
        Some(l) => (l.saturating_sub(3), (l + 3).min(lines.len())),
        None => (0, lines.len().min(12)),
    };
    lines[lo.min(lines.len())..hi].join("\n")
}

fn targets_for(v: &View) -> Vec<Target> {
    ALL_TARGETS.iter().copied().filter(|t| *t != Target::Mo || v.motoko_ok).collect()
}

/// normalise a panic message for use in a key: keep the location, drop quoted payloads
fn panic_site(msg: &str) -> String {
    match msg.rsplit_once(" @ ") {
        Some((m, loc)) => {
            let head: String = m.chars().take(40).collect();
            format!("{}@{}", loc.trim_start_matches("/repo/rust/"), head)
        }
        None => msg.chars().take(60).collect(),
    }
}

/// Evaluate one case completely; pure (same input => same result) unless the subject is
/// nondeterministic.
fn eval_case(c: &Case, fresh: Option<&Vec<Result<String, String>>>, light: bool) -> (Vec<Viol>, CaseStats) {
    let mut st = CaseStats::default();
    let mut out: Vec<Viol> = vec![];
    let hostile = c.hostile.clone().unwrap_or_default();
    let shape = match (c.view.has_actor, c.view.has_init, c.view.actor_ref.is_some()) {
        (false, _, _) => "no-actor",
        (true, false, false) => "actor-inline",
        (true, false, true) => "actor-ref",
        (true, true, false) => "class-inline",
        (true, true, true) => "class-ref",
    };
    // placements: generator + clause + what the oracle points at + hostile string + position
    // class.  U_P programs: generator + clause + offending name + the non-identifier names of
    // the program (or its definition names if there are none) + actor shape.
    let pos = match &c.pos {
        Some(p) => p.clone(),
        None if c.hostile.is_some() => format!("U_P:{shape}"),
        None => format!("U_P:{shape}:defs={}", c.view.all_defs.join(",")),
    };
    let mk = |target: Target, clause: &str, subject: &str, msg: String| -> Viol {
        // U_P programs: a closure finding is identified by the offending name, not by the
        // unrelated hostile names the program happens to contain
        let by_subject = c.pos.is_none() && matches!(clause, "undefined-name" | "method-count");
        let key = if by_subject {
            format!("{}|{}|{}|U_P:{shape}", target.name(), clause, subject)
        } else {
            // (the engine squeezes whitespace out of keys: spell blanks out)
            format!("{}|{}|{}|hostile={}|{}", target.name(), clause, subject, format!("{hostile:?}").replace(' ', "\\x20"), pos)
        };
        Viol { key, msg, target, clause: clause.to_string(), subject: subject.to_string() }
    };
    let checked = match gens::front_end(&c.did) {
        Ok(x) => x,
        Err(e) => {
            st.front_end_rejected = true;
            st.outcomes.push(format!("front-end-rejected:{}", e.split(':').next().unwrap_or("")));
            return (out, st);
        }
    };
    let targets = targets_for(&c.view);
    st.mo_skipped = !c.view.motoko_ok;
    if let Some(f) = fresh {
        st.gen_calls += f.len() as u64;
    }
    let twin_checked = match &c.twin {
        Some(t) => match gens::front_end(t) {
            Ok(x) => Some(x),
            Err(_) => {
                st.twin_rejected = true;
                None
            }
        },
        None => None,
    };
    for (ti, &t) in targets.iter().enumerate() {
        st.pairs += 1;
        let r1 = gens::generate(&checked, t);
        // light levels (the large pair products) skip the determinism re-runs
        let r2 = if light { r1.clone() } else { gens::generate(&checked, t) };
        st.gen_calls += if light { 1 } else { 2 };
        let o1 = match (&r1, &r2) {
            (Err(p), _) | (_, Err(p)) => {
                st.outcomes.push(format!("{}:panic", t.name()));
                out.push(mk(t, "panic", &panic_site(p), format!("{} generator unwound: {p}", t.name())));
                continue;
            }
            (Ok(a), Ok(b)) => {
                if a != b {
                    st.outcomes.push(format!("{}:nondeterministic", t.name()));
                    out.push(mk(t, "nondeterministic", "same-thread", format!("{}: two runs on the same checked program differ:\n--- run 1\n{}\n--- run 2\n{}", t.name(), excerpt(a, None), excerpt(b, None))));
                    continue;
                }
                a
            }
        };
        if let Some(fr) = fresh {
            match fr.get(ti).unwrap_or(&Err("missing".into())) {
                Ok(f) if f == o1 => {}
                Ok(f) => {
                    st.outcomes.push(format!("{}:nondeterministic", t.name()));
                    out.push(mk(t, "nondeterministic", "fresh-thread", format!("{}: output on a fresh thread differs from the output on a worker with history:\n--- worker\n{}\n--- fresh\n{}", t.name(), excerpt(o1, None), excerpt(f, None))));
                    continue;
                }
                Err(p) => {
                    st.outcomes.push(format!("{}:nondeterministic", t.name()));
                    out.push(mk(t, "nondeterministic", "fresh-thread-panic", format!("{}: fresh thread unwound ({p}) where the worker thread returned", t.name())));
                    continue;
                }
            }
        }
        let lexed = lex::lex(o1, t.lang());
        st.validated += 1;
        st.str_tokens += lexed.toks.iter().filter(|k| k.kind == lex::Kind::Str).count() as u64;
        st.comment_tokens += lexed.toks.iter().filter(|k| k.kind == lex::Kind::Comment).count() as u64;
        for d in oracle::duplicate_definitions(t, &lexed) {
            st.dup_defs.push((t, d));
        }
        // lexical integrity first: unterminated literal / comment, differential tokenisation,
        // bracket balance. If the token stream is broken, closure findings on it are only
        // symptoms and are not reported separately.
        let mut integrity: Vec<Viol> = vec![];
        for f in oracle::unterminated(&lexed) {
            integrity.push(mk(t, "unterminated", &f.subject, format!("{}: {}\n--- output\n{}", t.name(), f.detail, excerpt(o1, None))));
        }
        if let Some(tc) = &twin_checked {
            st.gen_calls += 1;
            match gens::generate(tc, t) {
                Err(p) => {
                    // the benign twin is a checked program too
                    out.push(mk(t, "panic", &panic_site(&p), format!("{} generator unwound on the benign twin: {p}", t.name())));
                }
                Ok(b) => {
                    let lb = lex::lex(&b, t.lang());
                    if !lb.errors.is_empty() || oracle::balance(&oracle::code_tokens(&lb)).is_some() {
                        // a placeholder cannot break a literal: the twin is not a usable baseline
                        st.outcomes.push(format!("{}:twin-does-not-lex", t.name()));
                    } else if let Some(d) = oracle::differential(&lexed, &lb, c.twin_unordered) {
                        let line = first_diff_line(o1, &b);
                        let subject = if c.twin_unordered { "kind-multiset" } else { "kind-sequence" };
                        // Not an injection: the hostile output is lexically intact but has
                        // *fewer* definitions than the twin (a generated definition was lost,
                        // e.g. overwritten by a definition of the same name).
                        let (dh, db) = (oracle::definition_count(t, &lexed), oracle::definition_count(t, &lb));
                        let intact = lexed.errors.is_empty() && oracle::balance(&oracle::code_tokens(&lexed)).is_none();
                        if intact && dh < db {
                            integrity.push(mk(t, "definition-lost", "fewer-definitions-than-twin", format!("{}: the output has {dh} type definitions where the output for the same program with a placeholder name has {db}; {d}\n--- output with hostile text (excerpt)\n{}\n--- output with placeholder (excerpt)\n{}", t.name(), excerpt(o1, line), excerpt(&b, line))));
                        } else {
                        integrity.push(mk(t, "token-injection", subject, format!("{}: {d}\n--- output with hostile text (excerpt)\n{}\n--- output with placeholder (excerpt)\n{}", t.name(), excerpt(o1, line), excerpt(&b, line))));
                        }
                    }
                }
            }
        }
        if let Some(f) = oracle::balance(&oracle::code_tokens(&lexed)) {
            if integrity.is_empty() {
                integrity.push(mk(t, "token-injection/unbalanced", &f.subject, format!("{}: {}\n--- output\n{}", t.name(), f.detail, excerpt(o1, None))));
            }
        }
        let class;
        if !integrity.is_empty() {
            // one root cause, one violation: unterminated > differential > unbalanced
            class = integrity[0].clause.clone();
            out.push(integrity.swap_remove(0));
        } else {
            let findings = oracle::closure(t, &lexed, &c.view);
            class = findings.first().map(|f| f.clause.to_string()).unwrap_or_else(|| "ok".into());
            for f in &findings {
                out.push(mk(t, f.clause, &f.subject, format!("{}: {}\n--- output\n{}", t.name(), f.detail, excerpt(o1, None))));
            }
        }
        st.outcomes.push(format!("{}:{}", t.name(), class));
    }
    (out, st)
}

fn first_diff_line(a: &str, b: &str) -> Option<usize> {
    a.lines().zip(b.lines()).position(|(x, y)| x != y)
}

fn view_json(v: &View) -> Value {
    json!({
        "all_defs": v.all_defs, "reach_actor": v.reach_actor, "reach_init": v.reach_init, "has_actor": v.has_actor, "has_init": v.has_init,
        "methods": v.methods, "service_def": v.service_def, "actor_ref": v.actor_ref, "motoko_ok": v.motoko_ok,
    })
}
fn view_from(j: &Value) -> View {
    let strs = |k: &str| -> Vec<String> { j[k].as_array().map(|a| a.iter().filter_map(|x| x.as_str().map(|s| s.to_string())).collect()).unwrap_or_default() };
    View {
        all_defs: strs("all_defs"),
        reach_actor: strs("reach_actor").into_iter().collect(),
        reach_init: strs("reach_init").into_iter().collect(),
        has_actor: j["has_actor"].as_bool().unwrap_or(false),
        has_init: j["has_init"].as_bool().unwrap_or(false),
        methods: strs("methods"),
        service_def: j["service_def"].as_str().map(|s| s.to_string()),
        actor_ref: j["actor_ref"].as_str().map(|s| s.to_string()),
        motoko_ok: j["motoko_ok"].as_bool().unwrap_or(false),
    }
}
fn case_json(c: &Case, v: &Viol) -> Value {
    json!({
        "did": c.did, "twin": c.twin, "twin_unordered": c.twin_unordered, "family": c.family, "hostile": c.hostile, "position": c.pos, "view": view_json(&c.view),
        "target": v.target.name(), "clause": v.clause, "subject": v.subject,
        "how": "c19 --replay <this file>: parses+checks `did`, runs the generator `target`, applies the C19 oracles",
    })
}
fn case_from(j: &Value) -> Case {
    Case {
        family: j["family"].as_str().unwrap_or("").to_string(),
        did: j["did"].as_str().unwrap_or("").to_string(),
        twin: j["twin"].as_str().map(|s| s.to_string()),
        twin_unordered: j["twin_unordered"].as_bool().unwrap_or(false),
        view: view_from(&j["view"]),
        hostile: j["hostile"].as_str().map(|s| s.to_string()),
        pos: j["position"].as_str().map(|s| s.to_string()),
        parts: vec![],
    }
}

// ---------------------------------------------------------------------------------------
// violation sink: keep the smallest case per key (deterministic across thread schedules)

struct Kept {
    size: (usize, String),
    msg: String,
    case: Value,
    target: Target,
    integrity: bool,
    clause: String,
    hostile: Option<String>,
    pos: Option<String>,
}
static SUBSUMED: AtomicU64 = AtomicU64::new(0);

fn is_integrity(clause: &str) -> bool {
    clause == "unterminated" || clause.starts_with("token-injection")
}
static SINK: Mutex<BTreeMap<String, Kept>> = Mutex::new(BTreeMap::new());
static VIOL_TOTAL: AtomicU64 = AtomicU64::new(0);
static DUP_DEFS: Mutex<BTreeMap<String, (u64, String)>> = Mutex::new(BTreeMap::new());

fn record(c: &Case, v: &Viol) {
    VIOL_TOTAL.fetch_add(1, Ordering::Relaxed);
    let key = mclib::engine::mk_key(&v.key);
    let size = (c.did.len(), c.did.clone());
    let mut s = SINK.lock().unwrap();
    // a product of hostile strings is subsumed by a recorded violation of one of its parts
    // (same generator, same position class, same clause family)
    if !c.parts.is_empty() {
        let integ = is_integrity(&v.clause);
        let hit = s.values().any(|k| {
            k.target == v.target && k.pos == c.pos && k.hostile.as_ref().is_some_and(|h| c.parts.contains(h)) && (if integ { k.integrity } else { k.clause == v.clause })
        });
        if hit {
            SUBSUMED.fetch_add(1, Ordering::Relaxed);
            return;
        }
    }
    match s.get(&key) {
        Some(k) if k.size <= size => {}
        _ => {
            s.insert(
                key,
                Kept { size, msg: v.msg.clone(), case: case_json(c, v), target: v.target, integrity: is_integrity(&v.clause), clause: v.clause.clone(), hostile: c.hostile.clone(), pos: c.pos.clone() },
            );
        }
    }
}

/// Outputs of all in-scope generators for every case of `chunk`, computed on one brand-new
/// OS thread that walks the chunk in *reverse* order: the first program it sees runs on a
/// thread without any history, the others with a history different from the worker's.
fn second_thread(chunk: &[Case]) -> Vec<Vec<Result<String, String>>> {
    std::thread::scope(|s| {
        let h = s.spawn(|| {
            let mut out: Vec<Vec<Result<String, String>>> = Vec::with_capacity(chunk.len());
            for c in chunk.iter().rev() {
                let targets = targets_for(&c.view);
                out.push(match gens::front_end(&c.did) {
                    Ok(ch) => targets.iter().map(|t| gens::generate(&ch, *t)).collect(),
                    Err(e) => targets.iter().map(|_| Err(format!("front end: {e}"))).collect(),
                });
            }
            out.reverse();
            out
        });
        h.join().unwrap_or_else(|_| chunk.iter().map(|c| targets_for(&c.view).iter().map(|_| Err("second thread died".to_string())).collect()).collect())
    })
}

fn run_case(c: &Case, fresh: Option<&Vec<Result<String, String>>>, rep: &mut Report) {
    let (v1, st) = eval_case(c, fresh, fresh.is_none());
    rep.evaluations += st.pairs;
    rep.transitions += st.gen_calls;
    rep.traces_validated += st.validated;
    rep.states += 1;
    if c.view.has_actor && !c.view.methods.is_empty() || !c.view.all_defs.is_empty() {
        rep.nontrivial += st.pairs;
    }
    for o in &st.outcomes {
        rep.outcome(o);
    }
    rep.count("programs", 1);
    rep.count("string_tokens_lexed", st.str_tokens);
    rep.count("comment_tokens_lexed", st.comment_tokens);
    if st.front_end_rejected {
        rep.count("front_end_rejected", 1);
    }
    if st.twin_rejected {
        rep.count("twin_rejected", 1);
    }
    if st.mo_skipped {
        rep.count("motoko_out_of_scope(non-identifier method name)", 1);
    }
    if c.twin.is_some() {
        rep.count("cases_with_benign_twin", 1);
    }
    for (t, d) in &st.dup_defs {
        rep.count("observation:duplicate_definition_name", 1);
        let mut m = DUP_DEFS.lock().unwrap();
        let e = m.entry(format!("{}:{}", t.name(), d)).or_insert((0, c.did.clone()));
        e.0 += 1;
        if c.did.len() < e.1.len() {
            e.1 = c.did.clone();
        }
    }
    if !v1.is_empty() {
        // re-check once: the same input must give the same observation
        let (v2, _) = eval_case(c, None, true);
        let k2: Vec<&String> = v2.iter().map(|v| &v.key).collect();
        for v in &v1 {
            if v.clause == "nondeterministic" || k2.contains(&&v.key) {
                record(c, v);
            } else {
                let mut f = v.clone();
                f.clause = "nondeterministic".into();
                f.key = format!("{}|recheck-differs", v.key);
                f.msg = format!("observation not reproduced on re-check: {}", v.msg);
                record(c, &f);
            }
        }
    }
    if rep.samples.len() < 2 && c.hostile.is_some() {
        rep.sample(json!({"family": c.family, "did": c.did, "hostile": c.hostile, "position": c.pos, "outcomes": st.outcomes}));
    }
}

// ---------------------------------------------------------------------------------------
// oracle self-test (vacuity guard): mutated outputs must be caught

fn oracle_selftest() -> Result<(), String> {
    use gens::Lang;
    // 1. un-escaping the TS doc comment must be caught by the differential
    let ts_h = "/**\n * a */ export const x = 1; /* b\n */\nexport type T = bigint;\n";
    let ts_b = "/**\n * zzzzzzzzzzzzzzzzzzzzzzzzzzzzzz\n */\nexport type T = bigint;\n";
    if oracle::differential(&lex::lex(ts_h, Lang::Js), &lex::lex(ts_b, Lang::Js), false).is_none() {
        return Err("differential does not catch an unescaped */ in a TS doc comment".into());
    }
    let ts_ok = "/**\n * a *\\/ export const x = 1; /* b\n */\nexport type T = bigint;\n";
    if let Some(d) = oracle::differential(&lex::lex(ts_ok, Lang::Js), &lex::lex(ts_b, Lang::Js), false) {
        return Err(format!("differential flags a correctly escaped doc comment: {d}"));
    }
    // 2. an unescaped quote in a JS key
    let l = lex::lex("const a = IDL.Record({ 'a'b' : IDL.Nat });", Lang::Js);
    if l.errors.is_empty() && oracle::balance(&oracle::code_tokens(&l)).is_none() {
        let b = lex::lex("const a = IDL.Record({ 'zzz' : IDL.Nat });", Lang::Js);
        if oracle::differential(&l, &b, false).is_none() {
            return Err("an unescaped quote in a JS key is not caught".into());
        }
    }
    // 3. closure: an undefined reference and a missing / doubled method are caught
    let v = View { has_actor: true, methods: vec!["m".into(), "n".into()], motoko_ok: true, ..Default::default() };
    let js = "export const idlFactory = ({ IDL }) => {\n const T = IDL.Nat;\n return IDL.Service({ 'm' : IDL.Func([T], [U], []), 'm' : IDL.Func([], [], []) });\n};\nexport const init = ({ IDL }) => { return []; };";
    let f = oracle::closure(Target::Js, &lex::lex(js, Lang::Js), &v);
    let has = |f: &[oracle::Finding], clause: &str, subj: &str| f.iter().any(|x| x.clause == clause && x.subject == subj);
    if !has(&f, "undefined-name", "U") || !has(&f, "method-count", "m") || !has(&f, "method-count", "n") || f.len() != 3 {
        return Err(format!("JS closure self-test: {f:?}"));
    }
    let mo = "module {\n public type T = Nat;\n public type Self = actor { m : shared T -> async U; m_ : shared () -> async () }\n}";
    let f = oracle::closure(Target::Mo, &lex::lex(mo, Lang::Mo), &v);
    if !has(&f, "undefined-name", "U") || !has(&f, "method-count", "m") || !has(&f, "method-count", "n") || f.len() != 3 {
        return Err(format!("Motoko closure self-test: {f:?}"));
    }
    let rs = "use candid::{self, CandidType, Deserialize, Principal};\n#[derive(CandidType, Deserialize)]\npub enum V { #[serde(rename=\"x\")] X(candid::Nat), Y(Box<W>), Z{ a: T } }\npub type T = Option<V>;\npub struct Service(pub Principal);\nimpl Service {\n pub async fn m(&self, arg0: &T) -> Result<(Q,)> { ic_cdk::call(self.0, \"m\", (arg0,)).await }\n}\n";
    let f = oracle::closure(Target::RsCall, &lex::lex(rs, Lang::Rs), &v);
    if !has(&f, "undefined-name", "W") || !has(&f, "undefined-name", "Q") || !has(&f, "undefined-name", "Result") || !has(&f, "method-count", "n") || f.len() != 4 {
        return Err(format!("Rust closure self-test: {f:?}"));
    }
    // 4. a raw string terminated early is caught as unbalanced / differential
    let rs_h = "pub static S: [u8; 3] = *br#\"service : { \"#\" : () -> () }\"#;";
    let rs_b = "pub static S: [u8; 3] = *br#\"service : { \"z\" : () -> () }\"#;";
    let (lh, lb) = (lex::lex(rs_h, Lang::Rs), lex::lex(rs_b, Lang::Rs));
    if oracle::differential(&lh, &lb, false).is_none() || oracle::differential(&lh, &lb, true).is_none() {
        return Err("early termination of a raw string is not caught".into());
    }
    Ok(())
}

// ---------------------------------------------------------------------------------------

fn build_cases(tier: Tier) -> Vec<(String, bool, Vec<Case>)> {
    use mclib::progs;
    // (name, light = no determinism re-runs, cases)
    let mut levels: Vec<(String, bool, Vec<Case>)> = vec![];
    // U_P
    let cap = tier.pick(4000, 1_000_000);
    let up: Vec<Case> = progs::default_programs(cap).iter().map(|p| cases::upstream_case("U_P/default", p)).collect();
    levels.push(("U_P default_programs".into(), false, up));
    let upp: Vec<Case> = progs::plain_programs(cap).iter().map(|p| cases::upstream_case("U_P/plain", p)).collect();
    levels.push(("U_P plain_programs".into(), false, upp));
    let ups: Vec<Case> = progs::shape_programs().iter().map(|p| cases::upstream_case("U_P/shapes", p)).collect();
    levels.push(("U_P shape_programs".into(), false, ups));
    // doc placements
    let docs = cases::hostile_docs();
    let bases = cases::doc_bases();
    let mut dc = vec![];
    for (bn, b) in &bases {
        for h in &docs {
            cases::doc_cases(bn, b, std::slice::from_ref(h), &[], &mut dc);
        }
    }
    levels.push(("doc placement: bases x positions x hostile docs".into(), false, dc));
    // two-line docs and concatenations: every ordered pair of hostile docs
    let mut dc2 = vec![];
    for (bi, (bn, b)) in bases.iter().enumerate() {
        // quick: D1, D3 with the first 8 docs; thorough: D1 with the whole alphabet, the other
        // bases with the first 12
        let core: &[String] = match tier {
            Tier::Quick if bi == 0 || bi == 2 => &docs[..8],
            Tier::Quick => &[],
            Tier::Thorough if bi == 0 => &docs[..],
            Tier::Thorough => &docs[..12],
        };
        for h1 in core {
            for h2 in core {
                let parts = [h1.clone(), h2.clone()];
                cases::doc_cases(bn, b, &parts, &parts, &mut dc2);
                if tier == Tier::Thorough {
                    cases::doc_cases(bn, b, &[format!("{h1}{h2}")], &parts, &mut dc2);
                }
            }
        }
    }
    levels.push(("doc placement: two-line docs and concatenations (ordered pairs of hostile docs)".into(), tier == Tier::Thorough, dc2));
    // name placements
    let names = cases::hostile_name_alphabet();
    let mut nc = vec![];
    let mut skipped = 0;
    let nbases = cases::name_bases();
    for (bn, b) in &nbases {
        for h in &names {
            // names that need no twin (identifier-shaped): quick runs them on NF1 and NM2 only
            if tier == Tier::Quick && !cases::needs_twin(h) && !(bn.starts_with("NF1") || bn.starts_with("NM2")) {
                continue;
            }
            skipped += cases::name_cases(bn, b, h, true, &[], &mut nc);
        }
    }
    // identifier-shaped names (target keywords) also next to identifier siblings
    for (bi, (bn, b)) in bases.iter().enumerate() {
        if tier == Tier::Quick && !(bi == 0 || bi == 2) {
            continue;
        }
        for h in &names {
            if !cases::needs_twin(h) {
                skipped += cases::name_cases(bn, b, h, false, &[], &mut nc);
            }
        }
    }
    levels.push((format!("name placement: bases x positions x hostile names ({skipped} ill-formed placements skipped)"), false, nc));
    if tier == Tier::Thorough {
        // concatenations of two short hostile names at every twin position
        let special: Vec<String> = names.iter().filter(|n| cases::needs_twin(n) && n.chars().count() == 1).cloned().collect();
        let mut nc2 = vec![];
        let mut sk = 0;
        for (bn, b) in nbases.iter().filter(|b| ["NF1", "NM2", "NM5"].iter().any(|p| b.0.starts_with(p))) {
            for a in &special {
                for c in &special {
                    let s = format!("{a}{c}");
                    if !names.contains(&s) && cases::needs_twin(&s) {
                        sk += cases::name_cases(bn, b, &s, true, &[a.clone(), c.clone()], &mut nc2);
                    }
                }
            }
        }
        levels.push((format!("name placement: concatenations of two one-char hostile names on NF1, NM2, NM5, {} x {} ({sk} ill-formed skipped)", special.len(), special.len()), true, nc2));
    }
    levels
}

fn main() {
    install_quiet_panic_hook();
    let (tier, replay, rest) = parse_args();
    if rest.first().map(|s| s.as_str()) == Some("probe") {
        // debugging aid: c19 probe file.did
        let src = std::fs::read_to_string(&rest[1]).unwrap();
        match gens::front_end(&src) {
            Err(e) => println!("FRONT END: {e}"),
            Ok(c) => {
                for t in ALL_TARGETS {
                    println!("=================== {}", t.name());
                    match gens::generate(&c, t) {
                        Ok(s) => println!("{s}"),
                        Err(e) => println!("PANIC: {e}"),
                    }
                }
            }
        }
        return;
    }
    if rest.first().map(|s| s.as_str()) == Some("bench") {
        // debugging aid: time per generator on one file
        let src = std::fs::read_to_string(&rest[1]).unwrap();
        let t0 = std::time::Instant::now();
        for _ in 0..200 {
            let _ = gens::front_end(&src);
        }
        println!("front_end: {:?}/call", t0.elapsed() / 200);
        let c = gens::front_end(&src).unwrap();
        for t in ALL_TARGETS {
            let t0 = std::time::Instant::now();
            for _ in 0..200 {
                let _ = gens::generate(&c, t);
            }
            println!("{}: {:?}/call", t.name(), t0.elapsed() / 200);
            let o = gens::generate(&c, t).unwrap_or_default();
            let t0 = std::time::Instant::now();
            for _ in 0..200 {
                let l = lex::lex(&o, t.lang());
                let _ = oracle::closure(t, &l, &model::View::default());
            }
            println!("   lex+closure: {:?}/call", t0.elapsed() / 200);
        }
        let t0 = std::time::Instant::now();
        for _ in 0..200 {
            let _ = gens::generate_on_fresh_thread(&src, &[]);
        }
        println!("fresh thread spawn + front end: {:?}/call", t0.elapsed() / 200);
        return;
    }
    if let Err(e) = oracle_selftest() {
        eprintln!("ORACLE SELF-TEST FAILED: {e}");
        std::process::exit(2);
    }
    if let Some(path) = replay {
        let body: Value = match std::fs::read_to_string(&path).ok().and_then(|s| serde_json::from_str(&s).ok()) {
            Some(v) => v,
            None => {
                eprintln!("cannot read replay file {path}");
                std::process::exit(2);
            }
        };
        let c = case_from(&body["case"]);
        let want_key = body["key"].as_str().unwrap_or("").to_string();
        let fresh = gens::generate_on_fresh_thread(&c.did, &targets_for(&c.view));
        let (vs, _) = eval_case(&c, Some(&fresh), false);
        let hit = vs.iter().find(|v| mclib::engine::mk_key(&v.key) == want_key);
        match hit {
            Some(v) => {
                println!("REPRODUCED property=C19 key={}\n{}\n--- input (.did)\n{}", want_key, v.msg, c.did);
                std::process::exit(1);
            }
            None => {
                println!("NOT REPRODUCED property=C19 key={want_key} (observed keys: {:?})", vs.iter().map(|v| mclib::engine::mk_key(&v.key)).collect::<Vec<_>>());
                std::process::exit(0);
            }
        }
    }
    let ctx = Ctx::new("C19", tier, tier.pick(240, 900));
    // replay files of earlier runs of this property are stale once a new exploration starts
    if let Ok(rd) = std::fs::read_dir(format!("{}/replays/C19", mclib::engine::verif_dir())) {
        for e in rd.flatten() {
            if e.path().extension().is_some_and(|x| x == "json") {
                let _ = std::fs::remove_file(e.path());
            }
        }
    }
    let mut rep = Report::new();
    let levels = build_cases(tier);
    let mut scope = vec![];
    for (name, light, cs) in &levels {
        println!("LEVEL {name}: {} programs", cs.len());
        const CH: usize = 8;
        let nchunks = cs.len().div_ceil(CH) as u64;
        let mut r = ctx.par_range(
            name,
            nchunks,
            1,
            || (),
            |_, i, rep| {
                let lo = i as usize * CH;
                let chunk = &cs[lo..(lo + CH).min(cs.len())];
                if *light {
                    for c in chunk {
                        run_case(c, None, rep);
                    }
                } else {
                    let fresh = second_thread(chunk);
                    for (c, f) in chunk.iter().zip(fresh.iter()) {
                        run_case(c, Some(f), rep);
                    }
                }
            },
        );
        // the level entry counts chunks; restate it in programs
        if let Some(l) = r.levels.last_mut() {
            let done = l["cases"].as_u64().unwrap_or(0);
            l["chunks_of_8_programs"] = json!(done);
            l["programs_total"] = json!(cs.len());
        }
        let with_twin = cs.iter().filter(|c| c.twin.is_some()).count();
        scope.push(json!({"level": name, "programs": cs.len(), "with_benign_twin": with_twin, "determinism_reruns": !*light}));
        rep.merge(r);
    }
    // feed the kept (smallest per key) violations into the report, in key order
    let total = VIOL_TOTAL.load(Ordering::Relaxed);
    {
        let sink = SINK.lock().unwrap();
        for (k, v) in sink.iter() {
            rep.violation(k, v.msg.clone(), v.case.clone());
        }
        rep.violation_count = total;
    }
    rep.count("violating_products_subsumed_by_a_single_hostile_string_at_the_same_position", SUBSUMED.load(Ordering::Relaxed));
    rep.count("type_references_resolved_against_definitions", oracle::REFS_CHECKED.load(Ordering::Relaxed));
    rep.count("method_mentions_compared_with_service_methods", oracle::MENTIONS_CHECKED.load(Ordering::Relaxed));
    let dups: Vec<Value> = DUP_DEFS.lock().unwrap().iter().take(40).map(|(k, (n, did))| json!({"target:name": k, "programs": n, "smallest_program": did})).collect();
    let rule = "for every program x generator (js, ts, mo [identifier method names only], rs-call, rs-agent, rs-stub): no unwind; run1 == run2 == run on a fresh thread; \
output lexes without unterminated string/comment and with balanced ()[]{}; every referenced bare type identifier is defined in the output (per scope for JS) or is one of the generator's fixed words; \
every method of the main service is mentioned exactly once in the service block (decoded string key / identifier / Rust string literal / stub attribute); \
with a benign twin: token-kind sequences (ident/string/comment/number/punct char, layout-dependent trailing separators removed) are identical. \
nontrivial = pairs whose program has a definition or a main service with a method";
    let assumptions = [
        "Motoko line comments end at LF only; ECMAScript line terminators are LF CR LS PS; Rust line comments end at LF (bare CR in a Rust doc comment is rejected by rustc but is not a lexical injection)",
        "definition-name collisions (two definitions with one output name) are recorded as observations, not violations",
        "the Rust generator is run with the empty config (didc bind without -c) for the targets canister_call, agent, stub",
        "doc comments are only placed in front of bare-identifier names: the tokenizer drops doc comments in front of quoted names",
    ];
    let code = finish(&ctx, rep, rule, &assumptions, json!({"scope": scope, "generators": ALL_TARGETS.iter().map(|t| t.name()).collect::<Vec<_>>(), "observations_duplicate_definitions": dups,
        "hostile_docs": cases::hostile_docs().len(), "hostile_names": cases::hostile_name_alphabet().len()}));
    std::process::exit(code);
}
