//! Running the subject: parse + check a `.did` text with the real front end and call the
//! binding generators exactly the way `didc bind` does (tools/didc/src/main.rs, `Bind`).
use candid::types::{Type, TypeEnv};
use candid_parser::bindings::{javascript, motoko, rust, typescript};
use candid_parser::configs::Configs;
use candid_parser::syntax::{IDLMergedProg, IDLProg};
use mclib::engine::catch;
use std::str::FromStr;

/// The six observable generator entry points (`didc bind -t js|ts|mo|rs|rs-agent|rs-stub`).
#[derive(Clone, Copy, Debug, PartialEq, Eq, PartialOrd, Ord, Hash)]
pub enum Target {
    Js,
    Ts,
    Mo,
    RsCall,
    RsAgent,
    RsStub,
}

pub const ALL_TARGETS: [Target; 6] = [Target::Js, Target::Ts, Target::Mo, Target::RsCall, Target::RsAgent, Target::RsStub];

impl Target {
    pub fn name(self) -> &'static str {
        match self {
            Target::Js => "js",
            Target::Ts => "ts",
            Target::Mo => "mo",
            Target::RsCall => "rs-call",
            Target::RsAgent => "rs-agent",
            Target::RsStub => "rs-stub",
        }
    }
    pub fn lang(self) -> Lang {
        match self {
            Target::Js | Target::Ts => Lang::Js,
            Target::Mo => Lang::Mo,
            _ => Lang::Rs,
        }
    }
}

#[derive(Clone, Copy, Debug, PartialEq, Eq)]
pub enum Lang {
    Js,
    Mo,
    Rs,
}

/// A checked program: what `pretty_check_file` hands to the generators.
pub struct Checked {
    pub env: TypeEnv,
    pub actor: Option<Type>,
    pub prog: IDLMergedProg,
}

/// Parse and type-check. `Err` = the front end rejected the text (not a C19 matter; the
/// caller decides whether that is a machinery error for the case at hand).
pub fn front_end(src: &str) -> Result<Checked, String> {
    let r = catch(|| -> Result<Checked, String> {
        let ast: IDLProg = src.parse().map_err(|e| format!("parse: {e}"))?;
        let mut env = TypeEnv::new();
        let actor = candid_parser::check_prog(&mut env, &ast).map_err(|e| format!("check: {e}"))?;
        Ok(Checked { env, actor, prog: IDLMergedProg::new(ast) })
    });
    match r {
        Ok(r) => r,
        Err(p) => Err(format!("front end panicked: {p}")),
    }
}

/// One generator run. `Err` = unwound (message @ file:line).
pub fn generate(c: &Checked, t: Target) -> Result<String, String> {
    catch(|| match t {
        Target::Js => javascript::compile(&c.env, &c.actor),
        Target::Ts => typescript::compile(&c.env, &c.actor, &c.prog),
        Target::Mo => motoko::compile(&c.env, &c.actor, &c.prog),
        Target::RsCall | Target::RsAgent | Target::RsStub => {
            // `didc bind -t rs*` without `-c`: Configs::from_str(""), ExternalConfig::default()
            let configs = Configs::from_str("").expect("empty config");
            let config = rust::Config::new(configs);
            let mut external = rust::ExternalConfig::default();
            match t {
                Target::RsAgent => {
                    external.0.insert("target".to_string(), "agent".to_string());
                }
                Target::RsStub => {
                    external.0.insert("target".to_string(), "stub".to_string());
                }
                _ => {}
            }
            let (res, _unused) = rust::compile(&config, &c.env, &c.actor, &c.prog, external);
            res
        }
    })
}

/// Parse + check + generate on a brand-new OS thread (fresh thread-local state, no memo
/// history). Returns one result per requested target.
pub fn generate_on_fresh_thread(src: &str, targets: &[Target]) -> Vec<Result<String, String>> {
    let src = src.to_string();
    let targets = targets.to_vec();
    let n = targets.len();
    // (the quiet panic hook is process-global: nothing to install here)
    let h = std::thread::Builder::new().spawn(move || {
        match front_end(&src) {
            Ok(c) => targets.iter().map(|t| generate(&c, *t)).collect::<Vec<_>>(),
            Err(e) => targets.iter().map(|_| Err(format!("front end: {e}"))).collect(),
        }
    });
    match h {
        Ok(h) => h.join().unwrap_or_else(|_| (0..n).map(|_| Err("fresh thread died".to_string())).collect()),
        Err(e) => (0..n).map(|_| Err(format!("spawn failed: {e}"))).collect(),
    }
}
