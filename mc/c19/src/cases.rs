//! The input spaces of C19 beyond `mclib::progs` (U_P): base programs, the hostile doc
//! comment alphabet, the hostile name alphabet, and benign placeholders.
use crate::model::{self, is_candid_id, view, Docs, View};
use mclib::progs::{hostile_names, PActor, PFunc, PLabel, PTy, Prog};
use refmodel::ty::{Mode, Prim};

fn p(x: Prim) -> PTy {
    PTy::Prim(x)
}
fn rec(fs: &[(&str, PTy)]) -> PTy {
    PTy::Record(fs.iter().map(|(n, t)| (PLabel::named(n), t.clone())).collect())
}
fn var(fs: &[(&str, PTy)]) -> PTy {
    PTy::Variant(fs.iter().map(|(n, t)| (PLabel::named(n), t.clone())).collect())
}
fn f(args: Vec<PTy>, rets: Vec<PTy>, modes: Vec<Mode>) -> PTy {
    PTy::func(args, rets, modes)
}
fn fnamed(args: Vec<(&str, PTy)>, rets: Vec<PTy>) -> PTy {
    PTy::Func(PFunc { args: args.into_iter().map(|(n, t)| (Some(n.to_string()), t)).collect(), rets: rets.into_iter().map(|t| (None, t)).collect(), modes: vec![] })
}
fn serv(ms: &[(&str, PTy)]) -> PTy {
    PTy::Service(ms.iter().map(|(n, t)| (n.to_string(), t.clone())).collect())
}
fn d(n: &str, t: PTy) -> (String, PTy) {
    (n.to_string(), t)
}

/// Base programs for doc-comment placement: all names are bare identifiers (a doc comment
/// in front of a quoted name is dropped by the tokenizer), every kind of comment position
/// occurs, with / without actor, inline / referenced / class actors, init args.
pub fn doc_bases() -> Vec<(&'static str, Prog)> {
    let t = PTy::var("T");
    let v = PTy::var("V");
    let common = vec![
        d("T", rec(&[("a", p(Prim::Nat)), ("b", PTy::opt(t.clone()))])),
        d("V", var(&[("x", p(Prim::Nat)), ("y", p(Prim::Null)), ("z", rec(&[("inner", p(Prim::Text))]))])),
    ];
    let s = serv(&[("m", f(vec![t.clone()], vec![v.clone()], vec![Mode::Query])), ("n", f(vec![p(Prim::Nat)], vec![], vec![]))]);
    let mut out = vec![];
    // D1 inline actor next to a service type, a func type and an anonymous record in a signature
    let mut defs = common.clone();
    defs.push(d("S", s.clone()));
    defs.push(d("F", f(vec![t.clone()], vec![v.clone()], vec![])));
    out.push((
        "D1-inline-actor",
        Prog {
            defs: defs.clone(),
            actor: Some(PActor::Service(serv(&[
                ("get", f(vec![t.clone()], vec![v.clone()], vec![Mode::Query])),
                ("put", fnamed(vec![("x", PTy::var("S")), ("cb", PTy::var("F"))], vec![PTy::vec(rec(&[("k", p(Prim::Text)), ("w", PTy::opt(v.clone()))]))])),
                ("ping", f(vec![], vec![], vec![Mode::Oneway])),
            ]))),
            actor_name: None,
        },
    ));
    // D2 class with init args and an inline service
    out.push((
        "D2-class-inline",
        Prog {
            defs: common.clone(),
            actor: Some(PActor::Class(
                vec![(None, t.clone()), (Some("cfg".into()), PTy::opt(rec(&[("flag", p(Prim::Bool))])))],
                serv(&[("get", f(vec![], vec![t.clone()], vec![Mode::Query])), ("set", f(vec![v.clone()], vec![], vec![]))]),
            )),
            actor_name: None,
        },
    ));
    // D3 actor is a reference to a service definition
    let mut defs3 = common.clone();
    defs3.push(d("S", s.clone()));
    out.push(("D3-actor-ref", Prog { defs: defs3.clone(), actor: Some(PActor::Service(PTy::var("S"))), actor_name: Some("svc".into()) }));
    // D4 class returning a referenced service
    out.push(("D4-class-ref", Prog { defs: defs3.clone(), actor: Some(PActor::Class(vec![(None, p(Prim::Principal))], PTy::var("S"))), actor_name: None }));
    // D5 no actor
    out.push(("D5-no-actor", Prog { defs: defs, actor: None, actor_name: None }));
    // D6 deep nesting and a result-shaped variant
    out.push((
        "D6-nested",
        Prog {
            defs: vec![
                d("N", rec(&[("inner", rec(&[("deep", var(&[("leaf", p(Prim::Nat)), ("other", p(Prim::Null))]))])), ("list", PTy::vec(rec(&[("k", p(Prim::Text)), ("v", PTy::opt(PTy::var("N")))])))])),
                d("R", var(&[("Ok", PTy::var("N")), ("Err", p(Prim::Text))])),
                d("A", PTy::var("R")),
                d("O", PTy::opt(rec(&[("only", PTy::vec(var(&[("u", p(Prim::Null)), ("w", p(Prim::Nat8))])))]))),
            ],
            actor: Some(PActor::Service(serv(&[("f", f(vec![PTy::var("N")], vec![PTy::var("A")], vec![])), ("g", f(vec![PTy::var("O")], vec![var(&[("ok", p(Prim::Nat)), ("err", p(Prim::Text))])], vec![Mode::CompositeQuery]))]))),
            actor_name: None,
        },
    ));
    out
}

/// Base programs for name placement with a benign twin. Siblings of every replaced name
/// have the same shape *and* the same name class (not a Candid identifier: `k 1`, `k 2`), so
/// that the hash / name order of fields and methods (which changes with the name) and the
/// per-class treatment of names (hashing, rename attributes) cannot change the token-kind
/// sequence by themselves. NF*: field / tag / argument-name positions with identifier method
/// names (Motoko in scope); NM*: method-name positions.
pub fn name_bases() -> Vec<(&'static str, Prog)> {
    let nat = p(Prim::Nat);
    let sig = f(vec![nat.clone()], vec![nat.clone()], vec![]);
    let mut out = vec![];
    let fdefs = vec![
        d("T", rec(&[("k 1", nat.clone()), ("k 2", nat.clone())])),
        d("V", var(&[("k 1", nat.clone()), ("k 2", nat.clone())])),
        d("U", var(&[("k 1", p(Prim::Null)), ("k 2", p(Prim::Null))])),
        d("W", rec(&[("one", rec(&[("k 1", nat.clone()), ("k 2", nat.clone())]))])),
        d("X", PTy::opt(var(&[("solo", PTy::vec(rec(&[("k 1", nat.clone())])))]))),
    ];
    let sigt = PTy::Func(PFunc {
        args: vec![(Some("arg".into()), PTy::var("T")), (None, PTy::var("V"))],
        rets: vec![(Some("res".into()), PTy::var("U"))],
        modes: vec![],
    });
    let anon = rec(&[("k 1", nat.clone()), ("k 2", nat.clone())]);
    out.push((
        "NF1-inline-actor",
        Prog {
            defs: fdefs.clone(),
            actor: Some(PActor::Service(serv(&[("get", sigt.clone()), ("put", sigt.clone()), ("sv", f(vec![PTy::var("W"), PTy::var("X")], vec![anon.clone()], vec![]))]))),
            actor_name: None,
        },
    ));
    out.push((
        "NF2-class",
        Prog {
            defs: fdefs.clone(),
            actor: Some(PActor::Class(vec![(Some("init_arg".into()), anon.clone()), (None, PTy::var("T"))], serv(&[("get", sigt.clone()), ("put", sigt.clone())]))),
            actor_name: None,
        },
    ));
    out.push(("NF3-no-actor", Prog { defs: fdefs.clone(), actor: None, actor_name: None }));
    let mdefs = vec![d("T", rec(&[("a", nat.clone())])), d("S", serv(&[("k 1", sig.clone()), ("k 2", sig.clone())]))];
    let sig_s = f(vec![PTy::var("S")], vec![nat.clone()], vec![]);
    let inline = serv(&[("k 1", sig.clone()), ("k 2", sig.clone()), ("k 3", sig.clone())]);
    out.push((
        "NM1-inline-actor",
        Prog { defs: mdefs.clone(), actor: Some(PActor::Service(serv(&[("k 1", sig_s.clone()), ("k 2", sig_s.clone()), ("k 3", sig_s.clone())]))), actor_name: None },
    ));
    out.push(("NM2-actor-ref", Prog { defs: mdefs.clone(), actor: Some(PActor::Service(PTy::var("S"))), actor_name: None }));
    out.push(("NM3-class", Prog { defs: mdefs.clone(), actor: Some(PActor::Class(vec![(None, PTy::var("T"))], inline)), actor_name: None }));
    out.push(("NM4-class-ref", Prog { defs: mdefs.clone(), actor: Some(PActor::Class(vec![(None, PTy::var("S"))], PTy::var("S"))), actor_name: None }));
    out.push(("NM5-no-actor", Prog { defs: mdefs, actor: None, actor_name: None }));
    out
}

/// Hostile doc-comment texts (one line each; the tokenizer trims them and removes leading
/// `//` repetitions, so `///` arrives as `/`-prefixed text only when preceded by a blank).
pub fn hostile_docs() -> Vec<String> {
    let mut v: Vec<String> = [
        "*/",
        "/*",
        "//",
        "\"",
        "'",
        "`",
        "${x}",
        "\\",
        "#",
        "}}",
        "{{",
        "</script>",
        "*/ export const x = 1; /*",
        "\"\"\"",
        "--",
        "-}",
        "{-",
        "///",
        "//!",
        "a \\",
        "é 😀 \u{202e}x",
        // more terminators / openers and near misses
        "**/",
        "*/*/",
        "* /",
        "*\\/",
        "\\*/",
        "/**",
        "/* /* */",
        "*/ */ */",
        "/",
        "*",
        "\"#",
        "\"; fn injected() {} //",
        "'; alert(1); //",
        "{{type_defs}} {{#each methods}}",
        "{{{x}}} {{> p}} {{!-- c --}}",
        "a\rb",
        "a\r*/ x",
        "a\u{2028}b\u{2029}c",
        "a\u{b}b\u{c}c\u{85}d",
        "\u{0}",
        "-->",
        "<!--",
        "]]>",
        "#[derive(Debug)] pub struct X;",
        "#![no_std]",
        "```",
        "@deprecated */",
        "*/}",
        // target keywords / declarations
        "export default class",
        "fn main() { }",
        "actor { }",
        "import Debug \"mo:base/Debug\"",
        "unsafe impl Send for T {}",
    ]
    .iter()
    .map(|s| s.to_string())
    .collect();
    v.push(String::new());
    v
}

/// Benign doc text of the same length class (same number of chars, letters only).
pub fn benign_doc(h: &str) -> String {
    "z".repeat(h.trim().chars().count().max(1))
}

/// Hostile names: the shared alphabet plus strings aimed at the quoting of each target.
pub fn hostile_name_alphabet() -> Vec<String> {
    let mut v = hostile_names();
    // every one- and two-character string over the escape-relevant characters
    for s in mclib::progs::escape_pair_names() {
        if !v.contains(&s) {
            v.push(s);
        }
    }
    // generators treat names ending in `_` specially (keyword escapes are spelled `name_`): every
    // escape-relevant name and the injection strings again with a trailing underscore
    let mut tail: Vec<String> = mclib::progs::escape_pair_names().into_iter().map(|s| format!("{s}_")).collect();
    for s in ["a : Nat; b_", "\"; fn injected() {} //_", "*/ x /*_", "a b_", "1a_", "}_", "//_", "a\nb_", "é_", "class_", "_", "__", "a__"] {
        tail.push(s.to_string());
    }
    for s in tail {
        if !v.contains(&s) {
            v.push(s);
        }
    }
    for s in [
        "\"#",
        "#\"",
        "\"##",
        "\"\"",
        "\\\"",
        "a\"b",
        "a\\",
        "\\\\",
        "\\n",
        "\" : candid::func!(() -> ()); \"x",
        "\"; fn injected() {} //",
        "'; alert(1); //",
        "\\'",
        "a'b",
        "a`b",
        "`${x}`",
        "*/ x /*",
        "a\u{2028}b",
        "a\u{2029}b",
        "\u{202e}abc",
        "a\u{301}",
        "\u{feff}",
        "\u{85}",
        "a\r\nb",
        "{{this}}",
        "}}\"",
        "r#\"",
        "\"#;",
        "/*",
        "// x",
        "a//b",
        "\u{1}",
        "\u{1b}[0m",
        "\u{ffff}",
        "\u{10ffff}",
        "ＡＢ",
        "a.b",
        "a:b",
        "a;b",
        "a,b",
        "a}b",
        "a)b",
        "a]b",
        "a>b",
        "[",
        "(",
        "{",
        "<",
        "=",
        "=>",
        "->",
        "|",
        "&",
        "!",
        "?",
        "@",
        "$",
        "%",
        "^",
        "~",
        "+",
        "-",
        "*",
        "/",
        ".",
        ",",
        ";",
        ":",
        " ",
        "  ",
        " a",
        "a ",
    ] {
        if !v.contains(&s.to_string()) {
            v.push(s.to_string());
        }
    }
    v
}

/// Benign twin for a name that is not a Candid identifier: not an identifier either (a blank
/// inside), letters only otherwise, same number of chars where possible.
pub fn benign_name(h: &str, salt: usize) -> String {
    let n = h.chars().count().max(3);
    let tail = ["z", "y", "w"][salt % 3];
    format!("z {}", tail.repeat(n - 2))
}

/// A twin is only meaningful for names that are not Candid identifiers (an identifier
/// cannot end a literal or add a token). Names with a tiny hash are excluded: a hash of 0
/// legitimately turns a one-field record into a tuple in every generator.
pub fn needs_twin(name: &str) -> bool {
    // (a name whose hash is a small number can play the role of a tuple index: "" and
    // "\0" hash to 0)
    !is_candid_id(name) && refmodel::hash::idl_hash(name) >= 8
}

pub struct Case {
    pub family: String,
    pub did: String,
    pub twin: Option<String>,
    /// compare token-kind *multisets* instead of sequences (the twin may order fields and
    /// methods differently)
    pub twin_unordered: bool,
    pub view: View,
    /// hostile string / name, if any
    pub hostile: Option<String>,
    /// position class of the placement, if any
    pub pos: Option<String>,
    /// for products (two-line docs, concatenations): the single hostile strings it is made
    /// of; a violation already recorded for one of them at the same position subsumes this one
    pub parts: Vec<String>,
}

/// A U_P program. Its twin renames every non-identifier name to a benign non-identifier of
/// the same length; fields / methods may be ordered differently in the twin's output, hence
/// the unordered comparison.
pub fn upstream_case(family: &str, pr: &Prog) -> Case {
    let names: Vec<String> = model::all_names(pr).into_iter().filter(|n| needs_twin(n)).collect();
    let mut twin = None;
    if !names.is_empty() {
        for salt in 0..3 {
            let map: std::collections::BTreeMap<String, String> = names
                .iter()
                .enumerate()
                .map(|(i, n)| {
                    let len = n.chars().count().max(4);
                    let idx = format!("{}", (b'a' + ((i + salt * 7) % 26) as u8) as char);
                    (n.clone(), format!("z {}{}", "z".repeat(len - 3), idx))
                })
                .collect();
            if let Some(q) = model::rename_all(pr, &map) {
                twin = Some(q.to_did());
                break;
            }
        }
    }
    let hostile = if names.is_empty() { None } else { Some(names.iter().map(|n| format!("{n:?}")).collect::<Vec<_>>().join(",")) };
    Case { family: family.to_string(), did: pr.to_did(), twin, twin_unordered: true, view: view(pr), hostile, pos: None, parts: vec![] }
}

/// All doc placements of `hostile` lines in `base`: one case per comment position, plus one
/// case with the text at every position at once.
pub fn doc_cases(base_name: &str, base: &Prog, lines: &[String], parts: &[String], out: &mut Vec<Case>) {
    let (_, classes) = model::print(base, &Docs::new());
    let benign: Vec<String> = lines.iter().map(|l| benign_doc(l)).collect();
    let v = view(base);
    let label = lines.join("\u{23ce}");
    for (k, class) in classes.iter().enumerate() {
        let mut dh = Docs::new();
        dh.insert(k, lines.to_vec());
        let mut db = Docs::new();
        db.insert(k, benign.clone());
        out.push(Case {
            family: format!("doc/{base_name}"),
            did: model::print(base, &dh).0,
            twin: Some(model::print(base, &db).0),
            twin_unordered: false,
            view: v.clone(),
            hostile: Some(label.clone()),
            pos: Some(format!("doc@{}", class.name())),
            parts: parts.to_vec(),
        });
    }
    let mut dh = Docs::new();
    let mut db = Docs::new();
    for k in 0..classes.len() {
        dh.insert(k, lines.to_vec());
        db.insert(k, benign.clone());
    }
    out.push(Case {
        family: format!("doc/{base_name}"),
        did: model::print(base, &dh).0,
        twin: Some(model::print(base, &db).0),
        twin_unordered: false,
        view: v,
        hostile: Some(label),
        pos: Some("doc@all".into()),
        parts: parts.to_vec(),
    });
}

/// All placements of `name` in `base`: one case per name position (skipping positions where
/// the program would become ill-formed). Returns the number of skipped positions.
pub fn name_cases(base_name: &str, base: &Prog, name: &str, with_twin: bool, parts: &[String], out: &mut Vec<Case>) -> u64 {
    let classes = model::name_positions(base);
    let mut skipped = 0;
    let method_base = base_name.starts_with("NM");
    for (k, class) in classes.iter().enumerate() {
        // twin bases: only the positions whose siblings have the same shape and name class
        let is_method_pos = matches!(class, model::NameClass::ServiceTypeMethod | model::NameClass::ActorMethod);
        if with_twin && needs_twin(name) && is_method_pos != method_base {
            continue;
        }
        let Some(h) = model::with_name(base, k, name) else {
            skipped += 1;
            continue;
        };
        let twin = if with_twin && needs_twin(name) {
            // a placeholder that keeps the program well-formed
            (0..3).find_map(|salt| model::with_name(base, k, &benign_name(name, salt))).map(|b| model::print(&b, &Docs::new()).0)
        } else {
            None
        };
        out.push(Case {
            family: format!("name/{base_name}"),
            did: model::print(&h, &Docs::new()).0,
            twin,
            twin_unordered: false,
            view: view(&h),
            hostile: Some(name.to_string()),
            pos: Some(format!("name@{}", class.name())),
            parts: parts.to_vec(),
        });
    }
    skipped
}
