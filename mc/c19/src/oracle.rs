//! Lexical oracles of C19: closure (every referenced type name is defined), method count
//! (every method of the main service is mentioned exactly once in the service definition
//! block), bracket balance, and differential tokenisation.
//!
//! Everything here looks only at the token stream of the generated text and at the check's
//! own view of the source program (`model::View`). The allow-lists are the fixed words the
//! generators print (read off `pp_ty` / the templates), not the target languages' full
//! keyword tables: a word outside them that is referenced must be defined by the output.
use crate::gens::Target;
use crate::lex::{decode_js_string, decode_rust_string, Kind, Lexed, Tok};
use crate::model::View;
use std::collections::{BTreeMap, BTreeSet};

#[derive(Clone, Debug, PartialEq, Eq)]
pub struct Finding {
    /// undefined-name | method-count | unterminated | unbalanced
    pub clause: &'static str,
    /// the offending name (canonical part of the violation key)
    pub subject: String,
    pub detail: String,
}

fn is_p(t: Option<&Tok>, c: char) -> bool {
    t.is_some_and(|t| t.kind == Kind::Punct(c))
}
fn is_id(t: Option<&Tok>, s: &str) -> bool {
    t.is_some_and(|t| t.kind == Kind::Ident && t.text == s)
}
fn ident(t: Option<&Tok>) -> Option<&str> {
    t.filter(|t| t.kind == Kind::Ident).map(|t| t.text.as_str())
}

/// tokens without comments
pub fn code_tokens(l: &Lexed) -> Vec<&Tok> {
    l.toks.iter().filter(|t| t.kind != Kind::Comment).collect()
}

pub fn unterminated(l: &Lexed) -> Vec<Finding> {
    l.errors.iter().map(|e| Finding { clause: "unterminated", subject: e.split(" starting").next().unwrap_or(e).to_string(), detail: e.clone() }).collect()
}

pub fn balance(toks: &[&Tok]) -> Option<Finding> {
    let mut stack: Vec<(char, usize)> = vec![];
    for (i, t) in toks.iter().enumerate() {
        if let Kind::Punct(c) = t.kind {
            match c {
                '(' | '[' | '{' => stack.push((c, i)),
                ')' | ']' | '}' => {
                    let want = match c {
                        ')' => '(',
                        ']' => '[',
                        _ => '{',
                    };
                    match stack.pop() {
                        Some((o, _)) if o == want => {}
                        other => {
                            return Some(Finding {
                                clause: "unbalanced",
                                subject: format!("{c}"),
                                detail: format!("closing `{c}` (token {i}, after `{}`) does not match {:?}", context(toks, i), other.map(|o| o.0)),
                            })
                        }
                    }
                }
                _ => {}
            }
        }
    }
    stack.pop().map(|(o, i)| Finding { clause: "unbalanced", subject: format!("{o}"), detail: format!("`{o}` opened at token {i} (`{}`) is never closed", context(toks, i)) })
}

fn context(toks: &[&Tok], i: usize) -> String {
    let lo = i.saturating_sub(4);
    let hi = (i + 3).min(toks.len());
    toks[lo..hi].iter().map(|t| t.text.as_str()).collect::<Vec<_>>().join(" ")
}

/// index of the bracket matching the opening bracket at `open` (or the last token)
fn matching(toks: &[&Tok], open: usize) -> usize {
    let mut depth = 0i64;
    for (i, t) in toks.iter().enumerate().skip(open) {
        if let Kind::Punct(c) = t.kind {
            match c {
                '(' | '[' | '{' => depth += 1,
                ')' | ']' | '}' => {
                    depth -= 1;
                    if depth <= 0 {
                        return i;
                    }
                }
                _ => {}
            }
        }
    }
    toks.len().saturating_sub(1)
}

/// Keys of the `{ key : ..., key : ... }` block whose `{` is at `open`: tokens of kind Str
/// or Ident directly inside the block, first in their item, followed by `:`.
fn keys_in_block<'a>(toks: &[&'a Tok], open: usize) -> Vec<&'a Tok> {
    let close = matching(toks, open);
    let mut depth = 0i64;
    let mut out = vec![];
    for i in open..=close.min(toks.len().saturating_sub(1)) {
        let t = toks[i];
        if let Kind::Punct(c) = t.kind {
            match c {
                '(' | '[' | '{' => depth += 1,
                ')' | ']' | '}' => depth -= 1,
                _ => {}
            }
            continue;
        }
        if depth == 1 && matches!(t.kind, Kind::Str | Kind::Ident) && is_p(toks.get(i + 1).copied(), ':') {
            let prev = toks[i - 1];
            if matches!(prev.kind, Kind::Punct('{') | Kind::Punct(',') | Kind::Punct(';')) {
                out.push(t);
            }
        }
    }
    out
}

fn multiset(v: impl IntoIterator<Item = String>) -> BTreeMap<String, usize> {
    let mut m = BTreeMap::new();
    for s in v {
        *m.entry(s).or_insert(0) += 1;
    }
    m
}

/// Compare mentions with the expected methods; `matches(mention, method)`.
fn method_findings(mentions: &[String], methods: &[String], eq: impl Fn(&str, &str) -> bool, what: &str) -> Vec<Finding> {
    let mut out = vec![];
    MENTIONS_CHECKED.fetch_add(mentions.len() as u64, std::sync::atomic::Ordering::Relaxed);
    for m in methods {
        let n = mentions.iter().filter(|x| eq(x, m)).count();
        if n != 1 {
            out.push(Finding { clause: "method-count", subject: m.clone(), detail: format!("method {m:?} is mentioned {n} times in {what} (mentions: {mentions:?})") });
        }
    }
    for x in multiset(mentions.iter().cloned()).keys() {
        if !methods.iter().any(|m| eq(x, m)) {
            out.push(Finding { clause: "method-count", subject: x.clone(), detail: format!("{what} mentions {x:?}, which is not a method of the service (methods: {methods:?})") });
        }
    }
    out
}

/// vacuity counters: references resolved against definitions, method mentions compared
pub static REFS_CHECKED: std::sync::atomic::AtomicU64 = std::sync::atomic::AtomicU64::new(0);
pub static MENTIONS_CHECKED: std::sync::atomic::AtomicU64 = std::sync::atomic::AtomicU64::new(0);

fn undefined(refs: &[(String, usize)], defined: &BTreeSet<String>, toks: &[&Tok], scope: &str) -> Vec<Finding> {
    REFS_CHECKED.fetch_add(refs.len() as u64, std::sync::atomic::Ordering::Relaxed);
    let mut seen = BTreeSet::new();
    let mut out = vec![];
    for (r, i) in refs {
        if !defined.contains(r) && seen.insert(r.clone()) {
            out.push(Finding {
                clause: "undefined-name",
                subject: r.clone(),
                detail: format!("`{r}` is referenced ({scope}, near `{}`) but the output defines only {:?}", context(toks, *i), defined),
            });
        }
    }
    out
}

/// generator-side manglings the check accepts for a source definition name
fn def_name_matches(out_name: &str, src: &str) -> bool {
    out_name == src || out_name.strip_suffix('_') == Some(src)
}

// ---------------------------------------------------------------------------------------
// JavaScript

const JS_FIXED: &[&str] = &["export", "const", "return", "IDL"];

pub fn check_js(l: &Lexed, v: &View) -> Vec<Finding> {
    let toks = code_tokens(l);
    let mut out = vec![];
    // scopes: each top-level `export ...` statement; everything if there is no `export`
    let mut starts = vec![0usize];
    let mut depth = 0i64;
    for (i, t) in toks.iter().enumerate() {
        match t.kind {
            Kind::Punct('(') | Kind::Punct('[') | Kind::Punct('{') => depth += 1,
            Kind::Punct(')') | Kind::Punct(']') | Kind::Punct('}') => depth -= 1,
            Kind::Ident if depth == 0 && t.text == "export" && i > 0 => starts.push(i),
            _ => {}
        }
    }
    starts.push(toks.len());
    let mut factory: Option<(usize, usize)> = None;
    for w in starts.windows(2) {
        let (lo, hi) = (w[0], w[1]);
        let mut defined = BTreeSet::new();
        let mut refs = vec![];
        for i in lo..hi {
            let t = toks[i];
            if t.kind != Kind::Ident {
                continue;
            }
            let prev = if i > 0 { Some(toks[i - 1]) } else { None };
            if is_id(prev, "const") {
                defined.insert(t.text.clone());
                continue;
            }
            if is_p(prev, '.') || is_p(toks.get(i + 1).copied(), ':') || JS_FIXED.contains(&t.text.as_str()) {
                continue;
            }
            refs.push((t.text.clone(), i));
        }
        if defined.contains("idlFactory") {
            factory = Some((lo, hi));
        }
        let scope = if defined.contains("idlFactory") {
            "idlFactory body"
        } else if defined.contains("init") && v.has_actor {
            "init body"
        } else {
            "top level"
        };
        out.extend(undefined(&refs, &defined, &toks, scope));
    }
    // methods of the main service
    if v.has_actor {
        let mut block = None;
        if let Some((lo, hi)) = factory {
            for i in lo..hi {
                let is_service_ctor = is_id(toks.get(i).copied(), "IDL")
                    && is_p(toks.get(i + 1).copied(), '.')
                    && is_id(toks.get(i + 2).copied(), "Service")
                    && is_p(toks.get(i + 3).copied(), '(')
                    && is_p(toks.get(i + 4).copied(), '{');
                if !is_service_ctor || i < 2 {
                    continue;
                }
                match &v.service_def {
                    None => {
                        if is_id(Some(toks[i - 1]), "return") {
                            block = Some(i + 4);
                        }
                    }
                    Some(d) => {
                        // const D = IDL.Service({   |   D.fill(IDL.Service({
                        let a = is_p(Some(toks[i - 1]), '=') && ident(Some(toks[i - 2])).is_some_and(|n| def_name_matches(n, d));
                        let b = i >= 4
                            && is_p(Some(toks[i - 1]), '(')
                            && is_id(Some(toks[i - 2]), "fill")
                            && is_p(Some(toks[i - 3]), '.')
                            && ident(Some(toks[i - 4])).is_some_and(|n| def_name_matches(n, d));
                        if a || b {
                            block = Some(i + 4);
                        }
                    }
                }
            }
        }
        match block {
            None => out.push(Finding { clause: "method-count", subject: "<service block>".into(), detail: "no IDL.Service({...}) block for the main service found in idlFactory".into() }),
            Some(open) => {
                let keys = keys_in_block(&toks, open);
                let mentions: Vec<String> = keys.iter().map(|k| if k.kind == Kind::Str { decode_js_string(&k.text).unwrap_or_else(|| format!("<undecodable {}>", k.text)) } else { k.text.clone() }).collect();
                out.extend(method_findings(&mentions, &v.methods, |a, b| a == b, "the IDL.Service block of the main service"));
            }
        }
    }
    out
}

// ---------------------------------------------------------------------------------------
// TypeScript

const TS_FIXED: &[&str] = &[
    "import", "type", "from", "export", "interface", "extends", "declare", "const", "typeof", "null", "boolean", "bigint", "number", "string", "any",
    "never", "undefined", "Array", "Uint8Array", "Uint16Array", "Uint32Array", "BigUint64Array", "Int8Array", "Int16Array", "Int32Array",
    "BigInt64Array",
];

pub fn check_ts(l: &Lexed, v: &View) -> Vec<Finding> {
    let toks = code_tokens(l);
    let mut out = vec![];
    let mut defined = BTreeSet::new();
    let mut refs = vec![];
    let mut def_at: BTreeMap<String, usize> = BTreeMap::new();
    for i in 0..toks.len() {
        let t = toks[i];
        if t.kind != Kind::Ident {
            continue;
        }
        let prev = if i > 0 { Some(toks[i - 1]) } else { None };
        let prev2 = if i > 1 { Some(toks[i - 2]) } else { None };
        let next = toks.get(i + 1).copied();
        // definitions: export type X / export interface X / declare const X / import type { X }
        if (is_id(prev, "type") || is_id(prev, "interface")) && is_id(prev2, "export") {
            defined.insert(t.text.clone());
            def_at.insert(t.text.clone(), i);
            continue;
        }
        if is_id(prev, "const") && is_id(prev2, "declare") {
            defined.insert(t.text.clone());
            continue;
        }
        if is_p(prev, '{') && is_id(prev2, "type") && i > 2 && is_id(Some(toks[i - 3]), "import") {
            defined.insert(t.text.clone());
            continue;
        }
        if is_p(prev, '.') || is_p(next, ':') || TS_FIXED.contains(&t.text.as_str()) {
            continue;
        }
        refs.push((t.text.clone(), i));
    }
    out.extend(undefined(&refs, &defined, &toks, "module"));
    if v.has_actor {
        let mut block = None;
        match &v.service_def {
            None => {
                if let Some(i) = def_at.get("_SERVICE") {
                    if is_p(toks.get(i + 1).copied(), '{') {
                        block = Some(i + 1);
                    }
                }
            }
            Some(d) => {
                for (n, i) in &def_at {
                    if def_name_matches(n, d) && n != "_SERVICE" && is_id(Some(toks[i - 1]), "interface") && is_p(toks.get(i + 1).copied(), '{') {
                        block = Some(i + 1);
                    }
                }
            }
        }
        match block {
            None => out.push(Finding { clause: "method-count", subject: "<service block>".into(), detail: "no `export interface ... {` block for the main service found".into() }),
            Some(open) => {
                let keys = keys_in_block(&toks, open);
                let mentions: Vec<String> = keys.iter().map(|k| if k.kind == Kind::Str { decode_js_string(&k.text).unwrap_or_else(|| format!("<undecodable {}>", k.text)) } else { k.text.clone() }).collect();
                out.extend(method_findings(&mentions, &v.methods, |a, b| a == b, "the interface of the main service"));
            }
        }
    }
    out
}

// ---------------------------------------------------------------------------------------
// Motoko

const MO_FIXED: &[&str] = &[
    "module", "public", "type", "actor", "shared", "query", "composite", "async", "Null", "Bool", "Nat", "Int", "Nat8", "Nat16", "Nat32", "Nat64", "Int8",
    "Int16", "Int32", "Int64", "Float32", "Float", "Text", "Any", "None", "Principal", "Blob",
];

pub fn check_mo(l: &Lexed, v: &View) -> Vec<Finding> {
    let toks = code_tokens(l);
    let mut out = vec![];
    let mut defined = BTreeSet::new();
    let mut refs = vec![];
    let mut def_at: Vec<(String, usize)> = vec![];
    for i in 0..toks.len() {
        let t = toks[i];
        if t.kind != Kind::Ident {
            continue;
        }
        let prev = if i > 0 { Some(toks[i - 1]) } else { None };
        let next = toks.get(i + 1).copied();
        if is_id(prev, "type") {
            defined.insert(t.text.clone());
            def_at.push((t.text.clone(), i));
            continue;
        }
        if is_p(prev, '#') || is_p(next, ':') || MO_FIXED.contains(&t.text.as_str()) {
            continue;
        }
        refs.push((t.text.clone(), i));
    }
    out.extend(undefined(&refs, &defined, &toks, "module"));
    if v.has_actor {
        let mut block = None;
        let want: Box<dyn Fn(&str) -> bool> = match &v.service_def {
            None => Box::new(|n: &str| n == "Self"),
            Some(d) => {
                let d = d.clone();
                Box::new(move |n: &str| def_name_matches(n, &d))
            }
        };
        // the last matching definition: `Self` is printed after the user's definitions
        for (n, i) in &def_at {
            if !want(n) || !is_p(toks.get(i + 1).copied(), '=') {
                continue;
            }
            // `= actor {`  or  `= <args> -> async actor {` ; stop at the end of the definition
            let mut j = i + 2;
            let mut depth = 0i64;
            while j < toks.len() {
                match toks[j].kind {
                    Kind::Punct('(') | Kind::Punct('[') | Kind::Punct('{') => depth += 1,
                    Kind::Punct(')') | Kind::Punct(']') | Kind::Punct('}') => depth -= 1,
                    Kind::Punct(';') if depth == 0 => break,
                    Kind::Ident if depth == 0 && toks[j].text == "actor" && is_p(toks.get(j + 1).copied(), '{') => {
                        // the last top-level actor block of the definition: an init argument that is itself a
                        // service type (`actor { .. } -> async actor { .. }`) comes first
                        block = Some(j + 1);
                    }
                    _ => {}
                }
                if depth < 0 {
                    break;
                }
                j += 1;
            }
        }
        match block {
            None => out.push(Finding { clause: "method-count", subject: "<service block>".into(), detail: "no `actor { ... }` block for the main service found".into() }),
            Some(open) => {
                let keys = keys_in_block(&toks, open);
                let mentions: Vec<String> = keys.iter().map(|k| k.text.clone()).collect();
                out.extend(method_findings(&mentions, &v.methods, |a, b| def_name_matches(a, b), "the actor type of the main service"));
            }
        }
    }
    out
}

// ---------------------------------------------------------------------------------------
// Rust

const RS_FIXED: &[&str] = &[
    "pub", "struct", "enum", "type", "impl", "fn", "async", "use", "as", "self", "Self", "static", "const", "mut", "let", "crate", "super", "where", "for",
    "in", "ref", "dyn", "unsafe", "extern", "mod", "bool", "u8", "u16", "u32", "u64", "i8", "i16", "i32", "i64", "f32", "f64", "String", "Option", "Vec",
    "Box", "query", "oneway", "composite_query",
];
const RS_CRATES: &[&str] = &["candid", "std", "core", "ic_cdk", "ic_agent", "serde_bytes", "serde", "self", "crate", "super"];

fn path_sep_at(toks: &[&Tok], i: usize) -> bool {
    match (toks.get(i), toks.get(i + 1)) {
        (Some(a), Some(b)) => a.kind == Kind::Punct(':') && b.kind == Kind::Punct(':') && a.end == b.start,
        _ => false,
    }
}

fn strip_raw(s: &str) -> &str {
    s.strip_prefix("r#").unwrap_or(s)
}

pub fn check_rs(l: &Lexed, v: &View, target: Target) -> Vec<Finding> {
    let toks = code_tokens(l);
    let mut out = vec![];
    let mut defined: BTreeSet<String> = BTreeSet::new();
    let mut refs = vec![];
    let n = toks.len();
    let mut i = 0;
    // brace depth bookkeeping for enum bodies: (depth at which the variants live)
    let mut depth = 0i64;
    let mut enum_depth: Vec<i64> = vec![];
    let mut pending_enum = false;
    let mut pending_fn = false;
    let mut impl_block: Option<usize> = None;
    let mut pending_impl = false;
    // stub: (attribute string, fn name) per top-level fn
    let mut fns: Vec<(Option<String>, bool, String)> = vec![];
    let mut last_attr: Option<(Option<String>, bool, usize)> = None; // (string in attr, mentions init, end index)
    while i < n {
        let t = toks[i];
        match t.kind {
            Kind::Punct('#') => {
                // attribute: #[...] or #![...]
                let mut j = i + 1;
                if is_p(toks.get(j).copied(), '!') {
                    j += 1;
                }
                if is_p(toks.get(j).copied(), '[') {
                    let close = matching(&toks, j);
                    let s = toks[j..=close].iter().find(|t| t.kind == Kind::Str).map(|t| decode_rust_string(&t.text).unwrap_or_else(|| format!("<undecodable {}>", t.text)));
                    let is_init = toks[j..=close].iter().any(|t| t.kind == Kind::Ident && t.text == "init");
                    last_attr = Some((s, is_init, close));
                    i = close + 1;
                    continue;
                }
                i += 1;
                continue;
            }
            Kind::Punct('{') => {
                depth += 1;
                if pending_fn {
                    // skip the body
                    pending_fn = false;
                    let close = matching(&toks, i);
                    depth -= 1;
                    i = close + 1;
                    continue;
                }
                if pending_enum {
                    pending_enum = false;
                    enum_depth.push(depth);
                }
                if pending_impl {
                    pending_impl = false;
                    impl_block = Some(i);
                }
            }
            Kind::Punct('}') => {
                if enum_depth.last() == Some(&depth) {
                    enum_depth.pop();
                }
                depth -= 1;
            }
            Kind::Punct(';') => {
                pending_fn = false;
                pending_enum = false;
            }
            Kind::Ident => {
                let w = strip_raw(&t.text);
                let prev = if i > 0 { Some(toks[i - 1]) } else { None };
                let next = toks.get(i + 1).copied();
                let raw = t.text.starts_with("r#");
                if !raw && w == "use" {
                    // every identifier of a `use` item is brought into scope (over-approximation)
                    let mut j = i + 1;
                    while j < n && toks[j].kind != Kind::Punct(';') {
                        if toks[j].kind == Kind::Ident {
                            defined.insert(toks[j].text.clone());
                        }
                        j += 1;
                    }
                    i = j + 1;
                    continue;
                }
                if !raw && w == "fn" {
                    let name = ident(next).unwrap_or("").to_string();
                    if depth == 0 {
                        let attr = last_attr.take().filter(|a| a.2 + 1 == i);
                        let (s, is_init) = attr.map(|a| (a.0, a.1)).unwrap_or((None, false));
                        fns.push((s, is_init, strip_raw(&name).to_string()));
                    }
                    pending_fn = true;
                    i += 2;
                    continue;
                }
                if !raw && matches!(w, "struct" | "enum" | "type") {
                    if let Some(name) = ident(next) {
                        defined.insert(name.to_string());
                        if w == "enum" {
                            pending_enum = true;
                        }
                        // generic parameters
                        let mut j = i + 2;
                        if is_p(toks.get(j).copied(), '<') {
                            j += 1;
                            while j < n && toks[j].kind != Kind::Punct('>') {
                                if toks[j].kind == Kind::Ident {
                                    defined.insert(toks[j].text.clone());
                                }
                                j += 1;
                            }
                            j += 1;
                        }
                        i = j;
                        continue;
                    }
                }
                if !raw && w == "impl" {
                    pending_impl = true;
                    i += 1;
                    continue;
                }
                if !raw && matches!(w, "define_function" | "define_service") && is_p(next, '!') && is_p(toks.get(i + 2).copied(), '(') {
                    // candid::define_function!(pub X : ...
                    let mut j = i + 3;
                    while is_id(toks.get(j).copied(), "pub") {
                        j += 1;
                    }
                    if let Some(name) = ident(toks.get(j).copied()) {
                        defined.insert(name.to_string());
                        i = j + 1;
                        continue;
                    }
                }
                // enum variant names are definitions, not references
                if enum_depth.last() == Some(&depth) && (is_p(prev, '{') || is_p(prev, ',') || is_p(prev, ']')) {
                    i += 1;
                    continue;
                }
                let after_path = i >= 2 && path_sep_at(&toks, i - 2);
                let before_path = path_sep_at(&toks, i + 1);
                let single_colon_next = is_p(next, ':') && !before_path;
                if after_path || is_p(prev, '.') || single_colon_next {
                    i += 1;
                    continue;
                }
                if is_p(next, '!') {
                    // macro invocation (Encode!, unimplemented!): not a type reference
                    i += 1;
                    continue;
                }
                if before_path && RS_CRATES.contains(&w) {
                    i += 1;
                    continue;
                }
                if !raw && RS_FIXED.contains(&w) {
                    i += 1;
                    continue;
                }
                refs.push((t.text.clone(), i));
            }
            _ => {}
        }
        i += 1;
    }
    out.extend(undefined(&refs, &defined, &toks, "crate"));
    // methods
    if v.has_actor {
        match target {
            Target::RsStub => {
                let mentions: Vec<String> = fns.iter().filter(|f| !(f.1 && f.2 == "init")).map(|f| f.0.clone().unwrap_or_else(|| f.2.clone())).collect();
                out.extend(method_findings(&mentions, &v.methods, |a, b| a == b, "the stub functions (attribute name, else function name)"));
            }
            _ => {
                if v.methods.is_empty() {
                    // the templates print the impl block only `{{#if methods}}`
                } else {
                    match impl_block {
                        None => out.push(Finding { clause: "method-count", subject: "<service block>".into(), detail: "no `impl ... {` block found".into() }),
                        Some(open) => {
                            let close = matching(&toks, open);
                            let mentions: Vec<String> = toks[open..=close]
                                .iter()
                                .filter(|t| t.kind == Kind::Str)
                                .map(|t| decode_rust_string(&t.text).unwrap_or_else(|| format!("<undecodable {}>", t.text)))
                                .collect();
                            out.extend(method_findings(&mentions, &v.methods, |a, b| a == b, "the string literals of the service impl block"));
                        }
                    }
                }
            }
        }
    }
    out
}

/// undefined-name and method-count findings (the token stream is assumed to be intact)
pub fn closure(target: Target, l: &Lexed, v: &View) -> Vec<Finding> {
    match target {
        Target::Js => check_js(l, v),
        Target::Ts => check_ts(l, v),
        Target::Mo => check_mo(l, v),
        t => check_rs(l, v, t),
    }
}

/// Number of type definition sites in the output.
pub fn definition_count(target: Target, l: &Lexed) -> usize {
    let toks = code_tokens(l);
    let mut n = 0;
    for i in 0..toks.len() {
        if ident(toks.get(i + 1).copied()).is_none() && !is_p(toks.get(i + 1).copied(), '!') {
            continue;
        }
        let hit = match target {
            Target::Js => is_id(Some(toks[i]), "const"),
            Target::Ts => (is_id(Some(toks[i]), "type") || is_id(Some(toks[i]), "interface")) && i > 0 && is_id(Some(toks[i - 1]), "export"),
            Target::Mo => is_id(Some(toks[i]), "type"),
            _ => ["struct", "enum", "type", "define_function", "define_service"].iter().any(|k| is_id(Some(toks[i]), k)),
        };
        if hit {
            n += 1;
        }
    }
    n
}

/// Definition names that occur more than once (an observation, not a violation: the
/// property asks for "defined", not "defined once").
pub fn duplicate_definitions(target: Target, l: &Lexed) -> Vec<String> {
    let toks = code_tokens(l);
    let mut count: BTreeMap<String, usize> = BTreeMap::new();
    let mut depth = 0i64;
    for i in 0..toks.len() {
        match toks[i].kind {
            Kind::Punct('{') => depth += 1,
            Kind::Punct('}') => depth -= 1,
            _ => {}
        }
        let Some(name) = ident(toks.get(i + 1).copied()) else { continue };
        let hit = match target {
            Target::Js => is_id(Some(toks[i]), "const") && depth <= 1,
            Target::Ts => (is_id(Some(toks[i]), "type") || is_id(Some(toks[i]), "interface")) && i > 0 && is_id(Some(toks[i - 1]), "export"),
            Target::Mo => is_id(Some(toks[i]), "type"),
            _ => depth == 0 && (is_id(Some(toks[i]), "struct") || is_id(Some(toks[i]), "enum") || is_id(Some(toks[i]), "type")),
        };
        if hit {
            // JS: idlFactory and init are separate scopes; count per scope by prefixing
            *count.entry(name.to_string()).or_insert(0) += 1;
        }
    }
    let limit = if target == Target::Js { 2 } else { 1 };
    count.into_iter().filter(|(_, c)| *c > limit).map(|(n, _)| n).collect()
}

// ---------------------------------------------------------------------------------------
// differential tokenisation

fn code(k: Kind) -> u32 {
    match k {
        Kind::Ident => 1,
        Kind::Str => 2,
        Kind::Comment => 3,
        Kind::Num => 4,
        Kind::Lifetime => 5,
        Kind::Char => 6,
        Kind::Punct(c) => 0x100 + c as u32,
    }
}

/// Kind sequence with layout-dependent trailing separators removed: the pretty printer adds
/// a `,` / `;` before a closing bracket when (and only when) a block is broken over several
/// lines, which depends on text width, not on token content.
pub fn kind_seq(l: &Lexed) -> Vec<(u32, usize)> {
    let mut out: Vec<(u32, usize)> = vec![];
    for (i, t) in l.toks.iter().enumerate() {
        if matches!(t.kind, Kind::Punct(')') | Kind::Punct(']') | Kind::Punct('}')) {
            // drop separators (and nothing else) directly before the bracket; comments
            // between the separator and the bracket do not occur in generated text
            while let Some((c, _)) = out.last() {
                if *c == code(Kind::Punct(',')) || *c == code(Kind::Punct(';')) {
                    out.pop();
                } else {
                    break;
                }
            }
        }
        out.push((code(t.kind), i));
    }
    out
}

fn kind_name(c: u32) -> String {
    match c {
        1 => "identifier".into(),
        2 => "string".into(),
        3 => "comment".into(),
        4 => "number".into(),
        5 => "lifetime".into(),
        6 => "char".into(),
        c => format!("`{}`", char::from_u32(c - 0x100).unwrap_or('?')),
    }
}

/// `unordered`: compare the multisets of token kinds (the twin may order fields / methods
/// differently); otherwise the sequences.
pub fn differential(hostile: &Lexed, benign: &Lexed, unordered: bool) -> Option<String> {
    let a = kind_seq(hostile);
    let b = kind_seq(benign);
    let count = |l: &Lexed, k: Kind| l.toks.iter().filter(|t| t.kind == k).count();
    if unordered {
        let ms = |s: &[(u32, usize)]| {
            let mut m: BTreeMap<u32, i64> = BTreeMap::new();
            for (c, _) in s {
                *m.entry(*c).or_insert(0) += 1;
            }
            m
        };
        let (ma, mb) = (ms(&a), ms(&b));
        if ma == mb {
            return None;
        }
        let mut diff = vec![];
        for k in ma.keys().chain(mb.keys()).collect::<BTreeSet<_>>() {
            let (x, y) = (ma.get(k).copied().unwrap_or(0), mb.get(k).copied().unwrap_or(0));
            if x != y {
                diff.push(format!("{} {x} vs {y}", kind_name(*k)));
            }
        }
        return Some(format!("token-kind multisets differ (hostile vs placeholder): {}", diff.join(", ")));
    }
    let show = |l: &Lexed, s: &[(u32, usize)], at: usize| -> String {
        let lo = at.saturating_sub(3);
        let hi = (at + 4).min(s.len());
        s[lo..hi].iter().map(|(_, i)| l.toks[*i].text.replace('\n', "\\n")).collect::<Vec<_>>().join(" ")
    };
    let first = a.iter().zip(b.iter()).position(|(x, y)| x.0 != y.0).or(if a.len() != b.len() { Some(a.len().min(b.len())) } else { None });
    first.map(|at| {
        format!(
            "token-kind sequences differ at token {at}: with hostile text `{}` / with placeholder `{}`; tokens {} vs {}, strings {} vs {}, comments {} vs {}",
            show(hostile, &a, at),
            show(benign, &b, at),
            a.len(),
            b.len(),
            count(hostile, Kind::Str),
            count(benign, Kind::Str),
            count(hostile, Kind::Comment),
            count(benign, Kind::Comment)
        )
    })
}
