//! R10: small total lexers for the three target languages, written from the languages'
//! lexical grammars (ECMAScript 2023 ch. 12, Motoko `source_lexer.mll` token classes, the
//! Rust reference ch. 2) — not from the generators. They never panic on any input and
//! report unterminated strings/comments instead of failing.
use crate::gens::Lang;

#[derive(Clone, Copy, Debug, PartialEq, Eq, Hash)]
pub enum Kind {
    Ident,
    /// any string-like literal ('..' ".." `..` r".." r#".."# b".." br#".."#)
    Str,
    /// one `//` line comment or one (outermost) block comment
    Comment,
    Num,
    /// Rust only
    Lifetime,
    /// Rust / Motoko character literal
    Char,
    Punct(char),
}

#[derive(Clone, Debug)]
pub struct Tok {
    pub kind: Kind,
    /// char offsets into the source
    pub start: usize,
    pub end: usize,
    /// source text of the token
    pub text: String,
}

#[derive(Clone, Debug, Default)]
pub struct Lexed {
    pub toks: Vec<Tok>,
    /// "unterminated string at line N" etc.
    pub errors: Vec<String>,
}

struct Cur<'a> {
    s: &'a [char],
    i: usize,
    out: Lexed,
}

impl<'a> Cur<'a> {
    fn peek(&self, k: usize) -> Option<char> {
        self.s.get(self.i + k).copied()
    }
    fn push(&mut self, kind: Kind, start: usize) {
        let end = self.i.min(self.s.len());
        let text: String = self.s[start.min(end)..end].iter().collect();
        self.out.toks.push(Tok { kind, start, end, text });
    }
    fn line_of(&self, pos: usize) -> usize {
        1 + self.s[..pos.min(self.s.len())].iter().filter(|c| **c == '\n').count()
    }
    fn err(&mut self, what: &str, start: usize) {
        let l = self.line_of(start);
        self.out.errors.push(format!("{what} starting at line {l}"));
    }
}

fn is_id_start(c: char, lang: Lang) -> bool {
    match lang {
        Lang::Js => c == '_' || c == '$' || c.is_alphabetic(),
        Lang::Mo => c == '_' || c.is_ascii_alphabetic(),
        // XID_Start is approximated by `is_alphabetic`
        Lang::Rs => c == '_' || c.is_alphabetic(),
    }
}
fn is_id_continue(c: char, lang: Lang) -> bool {
    match lang {
        Lang::Js => c == '_' || c == '$' || c.is_alphanumeric() || c == '\u{200c}' || c == '\u{200d}',
        Lang::Mo => c == '_' || c.is_ascii_alphanumeric(),
        Lang::Rs => c == '_' || c.is_alphanumeric(),
    }
}
fn is_line_terminator(c: char, lang: Lang) -> bool {
    match lang {
        // ECMAScript LineTerminator: LF CR LS PS
        Lang::Js => matches!(c, '\n' | '\r' | '\u{2028}' | '\u{2029}'),
        // Motoko: `//` utf8_no_nl* ; Rust: a line comment ends at LF
        Lang::Mo | Lang::Rs => c == '\n',
    }
}

pub fn lex(src: &str, lang: Lang) -> Lexed {
    let chars: Vec<char> = src.chars().collect();
    let mut c = Cur { s: &chars, i: 0, out: Lexed::default() };
    let n = chars.len();
    while c.i < n {
        let start = c.i;
        let ch = chars[c.i];
        // whitespace (all languages: treat every Unicode whitespace and BOM/format as blank)
        if ch.is_whitespace() || ch == '\u{feff}' {
            c.i += 1;
            continue;
        }
        // comments
        if ch == '/' && c.peek(1) == Some('/') {
            c.i += 2;
            while c.i < n && !is_line_terminator(chars[c.i], lang) {
                c.i += 1;
            }
            c.push(Kind::Comment, start);
            continue;
        }
        if ch == '/' && c.peek(1) == Some('*') {
            c.i += 2;
            let nested = lang != Lang::Js;
            let mut depth = 1usize;
            let mut closed = false;
            while c.i < n {
                if chars[c.i] == '*' && c.peek(1) == Some('/') {
                    c.i += 2;
                    depth -= 1;
                    if depth == 0 {
                        closed = true;
                        break;
                    }
                } else if nested && chars[c.i] == '/' && c.peek(1) == Some('*') {
                    c.i += 2;
                    depth += 1;
                } else {
                    c.i += 1;
                }
            }
            if !closed {
                c.err("unterminated block comment", start);
            }
            c.push(Kind::Comment, start);
            continue;
        }
        // string-like literals
        match lang {
            Lang::Js => {
                if ch == '\'' || ch == '"' || ch == '`' {
                    js_string(&mut c, ch);
                    continue;
                }
            }
            Lang::Mo => {
                if ch == '"' {
                    quoted(&mut c, '"', true, "unterminated text literal");
                    continue;
                }
                if ch == '\'' {
                    if char_literal(&mut c) {
                        continue;
                    }
                    c.i = start + 1;
                    c.push(Kind::Punct('\''), start);
                    continue;
                }
            }
            Lang::Rs => {
                if ch == '"' {
                    quoted(&mut c, '"', false, "unterminated string literal");
                    continue;
                }
                if ch == '\'' {
                    if char_literal(&mut c) {
                        continue;
                    }
                    // lifetime / label
                    if let Some(nx) = c.peek(1) {
                        if is_id_start(nx, lang) {
                            c.i += 2;
                            while c.i < n && is_id_continue(chars[c.i], lang) {
                                c.i += 1;
                            }
                            c.push(Kind::Lifetime, start);
                            continue;
                        }
                    }
                    c.i = start + 1;
                    c.push(Kind::Punct('\''), start);
                    continue;
                }
            }
        }
        // identifiers (and Rust literal prefixes / raw identifiers)
        if is_id_start(ch, lang) {
            c.i += 1;
            while c.i < n && is_id_continue(chars[c.i], lang) {
                c.i += 1;
            }
            if lang == Lang::Rs {
                let word: String = chars[start..c.i].iter().collect();
                let raw_capable = matches!(word.as_str(), "r" | "br" | "cr");
                let plain_prefix = matches!(word.as_str(), "b" | "c");
                if raw_capable {
                    // r"..", r#".."#, r#ident
                    let mut j = c.i;
                    let mut hashes = 0usize;
                    while j < n && chars[j] == '#' {
                        hashes += 1;
                        j += 1;
                    }
                    if j < n && chars[j] == '"' {
                        c.i = j + 1;
                        raw_string(&mut c, hashes, start);
                        continue;
                    }
                    if word == "r" && hashes == 1 && j < n && is_id_start(chars[j], lang) {
                        c.i = j + 1;
                        while c.i < n && is_id_continue(chars[c.i], lang) {
                            c.i += 1;
                        }
                        c.push(Kind::Ident, start);
                        continue;
                    }
                }
                if plain_prefix && c.peek(0) == Some('"') {
                    quoted_from(&mut c, start, '"', false, "unterminated string literal");
                    continue;
                }
                if word == "b" && c.peek(0) == Some('\'') {
                    let save = c.i;
                    if char_literal(&mut c) {
                        // re-label the token so that it starts at the prefix
                        if let Some(t) = c.out.toks.last_mut() {
                            t.start = start;
                            t.text = chars[start..t.end].iter().collect();
                        }
                        continue;
                    }
                    c.i = save;
                }
            }
            c.push(Kind::Ident, start);
            continue;
        }
        if ch.is_ascii_digit() {
            c.i += 1;
            while c.i < n {
                let d = chars[c.i];
                if d.is_ascii_alphanumeric() || d == '_' {
                    c.i += 1;
                } else if d == '.' && c.peek(1).is_some_and(|x| x.is_ascii_digit()) {
                    c.i += 2;
                } else {
                    break;
                }
            }
            c.push(Kind::Num, start);
            continue;
        }
        c.i += 1;
        c.push(Kind::Punct(ch), start);
    }
    c.out
}

/// ECMAScript string / template literal starting at the current quote.
fn js_string(c: &mut Cur, q: char) {
    let start = c.i;
    let n = c.s.len();
    c.i += 1;
    let mut closed = false;
    while c.i < n {
        let ch = c.s[c.i];
        if ch == '\\' {
            // escape / line continuation: skip the next char (CR LF counts as one)
            if c.peek(1) == Some('\r') && c.peek(2) == Some('\n') {
                c.i += 3;
            } else {
                c.i += 2;
            }
            continue;
        }
        if ch == q {
            c.i += 1;
            closed = true;
            break;
        }
        // LF and CR may not appear raw in '..' / ".." (LS and PS may since ES2019)
        if q != '`' && (ch == '\n' || ch == '\r') {
            break;
        }
        c.i += 1;
    }
    c.i = c.i.min(n);
    if !closed {
        c.err(if q == '`' { "unterminated template literal" } else { "unterminated string literal" }, start);
    }
    c.push(Kind::Str, start);
}

/// `"…"` with backslash escapes, starting at the current quote. `no_newline`: a raw LF ends
/// the literal with an error (Motoko text may not contain control characters).
fn quoted(c: &mut Cur, q: char, no_newline: bool, what: &str) {
    let start = c.i;
    quoted_from(c, start, q, no_newline, what)
}
fn quoted_from(c: &mut Cur, start: usize, q: char, no_newline: bool, what: &str) {
    let n = c.s.len();
    c.i += 1; // opening quote
    let mut closed = false;
    while c.i < n {
        let ch = c.s[c.i];
        if ch == '\\' {
            c.i += 2;
            continue;
        }
        if ch == q {
            c.i += 1;
            closed = true;
            break;
        }
        if no_newline && ch == '\n' {
            break;
        }
        c.i += 1;
    }
    c.i = c.i.min(n);
    if !closed {
        c.err(what, start);
    }
    c.push(Kind::Str, start);
}

/// Rust raw string body; the cursor is just after the opening quote.
fn raw_string(c: &mut Cur, hashes: usize, start: usize) {
    let n = c.s.len();
    let mut closed = false;
    while c.i < n {
        if c.s[c.i] == '"' {
            let mut k = 0;
            while k < hashes && c.s.get(c.i + 1 + k) == Some(&'#') {
                k += 1;
            }
            if k == hashes {
                c.i += 1 + hashes;
                closed = true;
                break;
            }
        }
        c.i += 1;
    }
    if !closed {
        c.err("unterminated raw string literal", start);
    }
    c.push(Kind::Str, start);
}

/// `'x'`, `'\n'`, `'\u{..}'`, `'\x7f'` at the current `'`. Returns false (cursor untouched)
/// if the text is not a character literal.
fn char_literal(c: &mut Cur) -> bool {
    let start = c.i;
    let n = c.s.len();
    match c.peek(1) {
        Some('\\') => {
            // escape: scan to the closing quote on the same line, at most 12 chars
            let mut j = start + 3;
            while j < n && j < start + 14 && c.s[j] != '\'' && c.s[j] != '\n' {
                j += 1;
            }
            if j < n && c.s[j] == '\'' {
                c.i = j + 1;
                c.push(Kind::Char, start);
                true
            } else {
                false
            }
        }
        Some(x) if x != '\'' && x != '\n' && c.peek(2) == Some('\'') => {
            c.i = start + 3;
            c.push(Kind::Char, start);
            true
        }
        _ => false,
    }
}

/// Value of a JS / TS string literal token (`'..'` or `".."`), by the ECMAScript escape
/// rules. `None` if the token is malformed.
pub fn decode_js_string(tok: &str) -> Option<String> {
    let cs: Vec<char> = tok.chars().collect();
    if cs.len() < 2 || cs[0] != cs[cs.len() - 1] || !matches!(cs[0], '\'' | '"') {
        return None;
    }
    let body = &cs[1..cs.len() - 1];
    let mut out = String::new();
    let mut i = 0;
    while i < body.len() {
        let ch = body[i];
        if ch != '\\' {
            out.push(ch);
            i += 1;
            continue;
        }
        let e = *body.get(i + 1)?;
        i += 2;
        match e {
            'n' => out.push('\n'),
            'r' => out.push('\r'),
            't' => out.push('\t'),
            'b' => out.push('\u{8}'),
            'f' => out.push('\u{c}'),
            'v' => out.push('\u{b}'),
            '0' if !body.get(i).is_some_and(|d| d.is_ascii_digit()) => out.push('\0'),
            'x' => {
                let h: String = body.get(i..i + 2)?.iter().collect();
                out.push(char::from_u32(u32::from_str_radix(&h, 16).ok()?)?);
                i += 2;
            }
            'u' => {
                if body.get(i) == Some(&'{') {
                    let close = body[i..].iter().position(|c| *c == '}')? + i;
                    let h: String = body[i + 1..close].iter().collect();
                    out.push(char::from_u32(u32::from_str_radix(&h, 16).ok()?)?);
                    i = close + 1;
                } else {
                    let h: String = body.get(i..i + 4)?.iter().collect();
                    out.push(char::from_u32(u32::from_str_radix(&h, 16).ok()?)?);
                    i += 4;
                }
            }
            '\n' | '\u{2028}' | '\u{2029}' => {}
            '\r' => {
                if body.get(i) == Some(&'\n') {
                    i += 1;
                }
            }
            d if d.is_ascii_digit() => return None, // legacy octal: not allowed in modules
            other => out.push(other),
        }
    }
    Some(out)
}

/// Value of a Rust `"…"` string literal token by the Rust reference (2.6 string literals).
pub fn decode_rust_string(tok: &str) -> Option<String> {
    let cs: Vec<char> = tok.chars().collect();
    if cs.len() < 2 || cs[0] != '"' || cs[cs.len() - 1] != '"' {
        return None;
    }
    let body = &cs[1..cs.len() - 1];
    let mut out = String::new();
    let mut i = 0;
    while i < body.len() {
        let ch = body[i];
        if ch != '\\' {
            out.push(ch);
            i += 1;
            continue;
        }
        let e = *body.get(i + 1)?;
        i += 2;
        match e {
            'n' => out.push('\n'),
            'r' => out.push('\r'),
            't' => out.push('\t'),
            '0' => out.push('\0'),
            '\\' => out.push('\\'),
            '\'' => out.push('\''),
            '"' => out.push('"'),
            'x' => {
                let h: String = body.get(i..i + 2)?.iter().collect();
                let v = u32::from_str_radix(&h, 16).ok()?;
                if v > 0x7f {
                    return None;
                }
                out.push(char::from_u32(v)?);
                i += 2;
            }
            'u' => {
                if body.get(i) != Some(&'{') {
                    return None;
                }
                let close = body[i..].iter().position(|c| *c == '}')? + i;
                let h: String = body[i + 1..close].iter().filter(|c| **c != '_').collect();
                out.push(char::from_u32(u32::from_str_radix(&h, 16).ok()?)?);
                i = close + 1;
            }
            '\n' => {
                // line continuation: skip following whitespace
                while i < body.len() && body[i].is_whitespace() {
                    i += 1;
                }
            }
            _ => return None,
        }
    }
    Some(out)
}

#[cfg(test)]
mod tests {
    use super::*;
    fn kinds(s: &str, l: Lang) -> String {
        lex(s, l)
            .toks
            .iter()
            .map(|t| match t.kind {
                Kind::Ident => 'I',
                Kind::Str => 'S',
                Kind::Comment => 'C',
                Kind::Num => 'N',
                Kind::Lifetime => 'L',
                Kind::Char => 'H',
                Kind::Punct(c) => c,
            })
            .collect()
    }
    #[test]
    fn rust_basics() {
        assert_eq!(kinds("impl<'a> S<'a> { r#type: 'x', b'\\n' }", Lang::Rs), "I<L>I<L>{I:H,H}");
        assert_eq!(kinds(r###"*br#"a"b"# ; "x\"y" r"\" /* a /* b */ c */ z"###, Lang::Rs), "*S;SSCI");
        assert_eq!(lex("\"abc", Lang::Rs).errors.len(), 1);
        assert_eq!(lex("/* /* */", Lang::Rs).errors.len(), 1);
        assert_eq!(lex("/* /* */", Lang::Js).errors.len(), 0);
    }
    #[test]
    fn js_basics() {
        assert_eq!(kinds("const a = { 'x\\'y' : IDL.Nat }; // c\r b", Lang::Js), "II={S:I.I};CI");
        assert_eq!(lex("'a\nb'", Lang::Js).errors.len(), 2);
        assert_eq!(decode_js_string("'a\\u{7f}\\'\\\\'").unwrap(), "a\u{7f}'\\");
    }
}
