//! Text-level program construction for C19: a printer for `mclib::progs::Prog` that can put
//! a doc comment (`// ...` line(s) directly above) at every position where the Candid
//! grammar accepts one, enumeration of comment and name positions, name substitution, and
//! the check's own view of a program (reachable definitions, main-service methods).
use mclib::progs::{text_lit, PActor, PFunc, PLabel, PTy, Prog, CANDID_KEYWORDS};
use std::collections::{BTreeMap, BTreeSet};

pub fn is_candid_id(s: &str) -> bool {
    let mut cs = s.chars();
    match cs.next() {
        Some(c) if c.is_ascii_alphabetic() || c == '_' => {}
        _ => return false,
    }
    cs.all(|c| c.is_ascii_alphanumeric() || c == '_')
}

/// Bare identifier when the front end accepts one at a Name position, quoted text otherwise.
/// (A doc comment is only attached to a *bare* name: the tokenizer does not register trivia
/// in front of a text literal.)
fn name_did(s: &str) -> String {
    if is_candid_id(s) && !CANDID_KEYWORDS.contains(&s) && s != "true" && s != "false" {
        s.to_string()
    } else {
        text_lit(s)
    }
}

#[derive(Clone, Copy, Debug, PartialEq, Eq, PartialOrd, Ord, Hash)]
pub enum PosClass {
    /// above `type X = ...`
    Def,
    /// above a field of a record that is (nested in) a definition body
    RecordField,
    /// above a tag of a variant that is (nested in) a definition body
    VariantField,
    /// above a method of a service *type* (definition body or nested)
    ServiceTypeMethod,
    /// above `service : ...`
    Actor,
    /// above a method of the main service written inline
    ActorMethod,
    /// above a field of an anonymous type inside a function signature / init args
    SignatureField,
}
impl PosClass {
    pub fn name(self) -> &'static str {
        match self {
            PosClass::Def => "def",
            PosClass::RecordField => "record-field",
            PosClass::VariantField => "variant-field",
            PosClass::ServiceTypeMethod => "service-type-method",
            PosClass::Actor => "actor",
            PosClass::ActorMethod => "actor-method",
            PosClass::SignatureField => "signature-field",
        }
    }
}

/// Doc comments to place: position index -> lines (each printed as `// <line>`).
pub type Docs = BTreeMap<usize, Vec<String>>;

struct Printer<'a> {
    docs: &'a Docs,
    out: String,
    next: usize,
    classes: Vec<PosClass>,
}

impl Printer<'_> {
    fn doc(&mut self, class: PosClass, indent: usize) {
        let id = self.next;
        self.next += 1;
        self.classes.push(class);
        if let Some(lines) = self.docs.get(&id) {
            for l in lines {
                self.out.push_str(&" ".repeat(indent));
                self.out.push_str("// ");
                self.out.push_str(l);
                self.out.push('\n');
            }
        }
    }
    fn label(&mut self, l: &PLabel) {
        match l {
            PLabel::Id(n) => self.out.push_str(&n.to_string()),
            PLabel::Named(s) => self.out.push_str(&name_did(s)),
        }
    }
    fn ty(&mut self, t: &PTy, indent: usize, in_sig: bool) {
        match t {
            PTy::Prim(p) => self.out.push_str(p.name()),
            PTy::Var(v) => self.out.push_str(v),
            PTy::Blob => self.out.push_str("blob"),
            PTy::Opt(t) => {
                self.out.push_str("opt ");
                self.ty(t, indent, in_sig)
            }
            PTy::Vec(t) => {
                self.out.push_str("vec ");
                self.ty(t, indent, in_sig)
            }
            PTy::Record(fs) | PTy::Variant(fs) => {
                let is_rec = matches!(t, PTy::Record(_));
                self.out.push_str(if is_rec { "record {" } else { "variant {" });
                if fs.is_empty() {
                    self.out.push('}');
                    return;
                }
                self.out.push('\n');
                for (l, ft) in fs {
                    let class = if in_sig {
                        PosClass::SignatureField
                    } else if is_rec {
                        PosClass::RecordField
                    } else {
                        PosClass::VariantField
                    };
                    self.doc(class, indent + 2);
                    self.out.push_str(&" ".repeat(indent + 2));
                    self.label(l);
                    self.out.push_str(" : ");
                    self.ty(ft, indent + 2, in_sig);
                    self.out.push_str(";\n");
                }
                self.out.push_str(&" ".repeat(indent));
                self.out.push('}');
            }
            PTy::Func(f) => {
                self.out.push_str("func ");
                self.func(f, indent);
            }
            PTy::Service(ms) => {
                self.out.push_str("service ");
                self.meths(ms, indent, PosClass::ServiceTypeMethod);
            }
        }
    }
    fn args(&mut self, a: &[(Option<String>, PTy)], indent: usize) {
        self.out.push('(');
        for (i, (n, t)) in a.iter().enumerate() {
            if i > 0 {
                self.out.push_str(", ");
            }
            if let Some(n) = n {
                self.out.push_str(&name_did(n));
                self.out.push_str(" : ");
            }
            self.ty(t, indent, true);
        }
        self.out.push(')');
    }
    fn func(&mut self, f: &PFunc, indent: usize) {
        self.args(&f.args, indent);
        self.out.push_str(" -> ");
        self.args(&f.rets, indent);
        for m in &f.modes {
            self.out.push(' ');
            self.out.push_str(m.name());
        }
    }
    fn meths(&mut self, ms: &[(String, PTy)], indent: usize, class: PosClass) {
        if ms.is_empty() {
            self.out.push_str("{}");
            return;
        }
        self.out.push_str("{\n");
        for (n, t) in ms {
            self.doc(class, indent + 2);
            self.out.push_str(&" ".repeat(indent + 2));
            self.out.push_str(&name_did(n));
            self.out.push_str(" : ");
            match t {
                PTy::Func(f) => self.func(f, indent + 2),
                other => self.ty(other, indent + 2, true),
            }
            self.out.push_str(";\n");
        }
        self.out.push_str(&" ".repeat(indent));
        self.out.push('}');
    }
}

/// Print `p` with `docs`; returns the text and the class of every comment position (the
/// index into the vector is the position id accepted by `docs`).
pub fn print(p: &Prog, docs: &Docs) -> (String, Vec<PosClass>) {
    let mut pr = Printer { docs, out: String::new(), next: 0, classes: vec![] };
    for (n, t) in &p.defs {
        pr.doc(PosClass::Def, 0);
        pr.out.push_str(&format!("type {n} = "));
        pr.ty(t, 0, false);
        pr.out.push_str(";\n");
    }
    if let Some(a) = &p.actor {
        pr.doc(PosClass::Actor, 0);
        let name = p.actor_name.as_ref().map(|n| format!(" {n}")).unwrap_or_default();
        pr.out.push_str(&format!("service{name} : "));
        let body = match a {
            PActor::Service(t) => t,
            PActor::Class(args, t) => {
                pr.args(args, 0);
                pr.out.push_str(" -> ");
                t
            }
        };
        match body {
            PTy::Service(ms) => pr.meths(ms, 0, PosClass::ActorMethod),
            other => pr.ty(other, 0, false),
        }
        pr.out.push('\n');
    }
    (pr.out, pr.classes)
}

// ---------------------------------------------------------------------------------------
// name positions

#[derive(Clone, Copy, Debug, PartialEq, Eq, PartialOrd, Ord, Hash)]
pub enum NameClass {
    RecordField,
    VariantTag,
    ServiceTypeMethod,
    ActorMethod,
    ArgName,
    /// field / tag of an anonymous type inside a function signature or the init args
    SignatureField,
}
impl NameClass {
    pub fn name(self) -> &'static str {
        match self {
            NameClass::RecordField => "record-field",
            NameClass::VariantTag => "variant-tag",
            NameClass::ServiceTypeMethod => "service-type-method",
            NameClass::ActorMethod => "actor-method",
            NameClass::ArgName => "arg-name",
            NameClass::SignatureField => "signature-field",
        }
    }
}

struct Namer<'a> {
    next: usize,
    target: Option<(usize, &'a str)>,
    /// rename every name through this map (old -> new) instead of one position
    map: Option<&'a BTreeMap<String, String>>,
    classes: Vec<NameClass>,
    /// false if the substitution would create a duplicate name / hash among siblings
    ok: bool,
}
impl Namer<'_> {
    fn visit(&mut self, class: NameClass, current: &str) -> Option<String> {
        let id = self.next;
        self.next += 1;
        self.classes.push(class);
        if let Some(m) = self.map {
            return m.get(current).cloned();
        }
        match self.target {
            Some((k, s)) if k == id => Some(s.to_string()),
            _ => None,
        }
    }
    fn ty(&mut self, t: &mut PTy, in_sig: bool) {
        let is_rec = matches!(t, PTy::Record(_));
        match t {
            PTy::Prim(_) | PTy::Var(_) | PTy::Blob => {}
            PTy::Opt(t) | PTy::Vec(t) => self.ty(t, in_sig),
            PTy::Record(fs) | PTy::Variant(fs) => {
                let class = if in_sig {
                    NameClass::SignatureField
                } else if is_rec {
                    NameClass::RecordField
                } else {
                    NameClass::VariantTag
                };
                for i in 0..fs.len() {
                    if let PLabel::Named(cur) = fs[i].0.clone() {
                        if let Some(s) = self.visit(class, &cur) {
                            fs[i].0 = PLabel::Named(s);
                        }
                    }
                    let (_, ft) = &mut fs[i];
                    self.ty(ft, in_sig);
                }
                let ids: BTreeSet<u32> = fs.iter().map(|f| f.0.id()).collect();
                if ids.len() != fs.len() {
                    self.ok = false;
                }
            }
            PTy::Func(f) => self.func(f),
            PTy::Service(ms) => self.meths(ms, NameClass::ServiceTypeMethod),
        }
    }
    fn args(&mut self, a: &mut [(Option<String>, PTy)]) {
        for (n, t) in a.iter_mut() {
            if let Some(cur) = n.clone() {
                if let Some(s) = self.visit(NameClass::ArgName, &cur) {
                    *n = Some(s);
                }
            }
            self.ty(t, true);
        }
    }
    fn func(&mut self, f: &mut PFunc) {
        self.args(&mut f.args);
        self.args(&mut f.rets);
    }
    fn meths(&mut self, ms: &mut Vec<(String, PTy)>, class: NameClass) {
        for (n, t) in ms.iter_mut() {
            let cur = n.clone();
            if let Some(s) = self.visit(class, &cur) {
                *n = s;
            }
            match t {
                PTy::Func(f) => self.func(f),
                other => self.ty(other, true),
            }
        }
        // the front end rejects duplicate method names and (for the actor) hash collisions
        let names: BTreeSet<&String> = ms.iter().map(|m| &m.0).collect();
        let hashes: BTreeSet<u32> = ms.iter().map(|m| refmodel::hash::idl_hash(&m.0)).collect();
        if names.len() != ms.len() || hashes.len() != ms.len() {
            self.ok = false;
        }
    }
    fn prog(&mut self, p: &mut Prog) {
        for (_, t) in p.defs.iter_mut() {
            self.ty(t, false);
        }
        if let Some(a) = p.actor.as_mut() {
            let body = match a {
                PActor::Service(t) => t,
                PActor::Class(args, t) => {
                    self.args(args);
                    t
                }
            };
            match body {
                PTy::Service(ms) => self.meths(ms, NameClass::ActorMethod),
                other => self.ty(other, false),
            }
        }
    }
}

/// Classes of all (text) name positions of `p`, in traversal order.
pub fn name_positions(p: &Prog) -> Vec<NameClass> {
    let mut n = Namer { next: 0, target: None, map: None, classes: vec![], ok: true };
    let mut q = p.clone();
    n.prog(&mut q);
    n.classes
}

/// `p` with the name at position `k` replaced by `s`; `None` if that makes sibling names
/// (or their hashes) collide, i.e. the program would not be well-formed.
pub fn with_name(p: &Prog, k: usize, s: &str) -> Option<Prog> {
    let mut n = Namer { next: 0, target: Some((k, s)), map: None, classes: vec![], ok: true };
    let mut q = p.clone();
    n.prog(&mut q);
    if n.ok {
        Some(q)
    } else {
        None
    }
}

/// All distinct names (labels, method names, argument names) of `p`.
pub fn all_names(p: &Prog) -> BTreeSet<String> {
    fn ty(t: &PTy, out: &mut BTreeSet<String>) {
        match t {
            PTy::Record(fs) | PTy::Variant(fs) => {
                for (l, _) in fs {
                    if let PLabel::Named(s) = l {
                        out.insert(s.clone());
                    }
                }
            }
            PTy::Func(f) => {
                for (n, _) in f.args.iter().chain(f.rets.iter()) {
                    if let Some(n) = n {
                        out.insert(n.clone());
                    }
                }
            }
            PTy::Service(ms) => {
                for (n, _) in ms {
                    out.insert(n.clone());
                }
            }
            _ => {}
        }
        for c in t.children() {
            ty(c, out);
        }
    }
    let mut out = BTreeSet::new();
    for (_, t) in &p.defs {
        ty(t, &mut out);
    }
    match &p.actor {
        Some(PActor::Service(t)) => ty(t, &mut out),
        Some(PActor::Class(args, t)) => {
            for (n, a) in args {
                if let Some(n) = n {
                    out.insert(n.clone());
                }
                ty(a, &mut out);
            }
            ty(t, &mut out)
        }
        None => {}
    }
    out
}

/// `p` with every name renamed through `map`; `None` if the result is not well-formed.
pub fn rename_all(p: &Prog, map: &BTreeMap<String, String>) -> Option<Prog> {
    let mut n = Namer { next: 0, target: None, map: Some(map), classes: vec![], ok: true };
    let mut q = p.clone();
    n.prog(&mut q);
    if n.ok {
        Some(q)
    } else {
        None
    }
}

// ---------------------------------------------------------------------------------------
// the check's own view of a program

#[derive(Clone, Debug, Default)]
pub struct View {
    pub all_defs: Vec<String>,
    /// definitions reachable from the actor (including its init args); = all_defs if no actor
    pub reach_actor: BTreeSet<String>,
    /// definitions reachable from the init args only
    pub reach_init: BTreeSet<String>,
    pub has_actor: bool,
    pub has_init: bool,
    /// the methods of the main service (after resolving `service : X` through aliases)
    pub methods: Vec<String>,
    /// the definition that spells out the main service's methods; None = inline in the actor
    pub service_def: Option<String>,
    /// the identifier written directly after `service :` / `->` if the actor is a reference
    pub actor_ref: Option<String>,
    /// every method name of every service type in the program is a Candid identifier
    pub motoko_ok: bool,
}

fn reach(defs: &BTreeMap<&str, &PTy>, t: &PTy, seen: &mut BTreeSet<String>) {
    if let PTy::Var(v) = t {
        if seen.insert(v.clone()) {
            if let Some(d) = defs.get(v.as_str()) {
                reach(defs, d, seen);
            }
        }
        return;
    }
    for c in t.children() {
        reach(defs, c, seen);
    }
}

fn all_method_names<'a>(t: &'a PTy, out: &mut Vec<&'a String>) {
    if let PTy::Service(ms) = t {
        for (n, _) in ms {
            out.push(n);
        }
    }
    for c in t.children() {
        all_method_names(c, out);
    }
}

pub fn view(p: &Prog) -> View {
    let defs: BTreeMap<&str, &PTy> = p.defs.iter().map(|(n, t)| (n.as_str(), t)).collect();
    let mut v = View { all_defs: p.defs.iter().map(|d| d.0.clone()).collect(), ..Default::default() };
    let mut names = vec![];
    for (_, t) in &p.defs {
        all_method_names(t, &mut names);
    }
    match &p.actor {
        None => {
            v.reach_actor = v.all_defs.iter().cloned().collect();
        }
        Some(a) => {
            v.has_actor = true;
            let (args, body): (&[(Option<String>, PTy)], &PTy) = match a {
                PActor::Service(t) => (&[], t),
                PActor::Class(args, t) => {
                    v.has_init = true;
                    (args.as_slice(), t)
                }
            };
            for (_, t) in args {
                reach(&defs, t, &mut v.reach_init);
                all_method_names(t, &mut names);
            }
            v.reach_actor = v.reach_init.clone();
            reach(&defs, body, &mut v.reach_actor);
            all_method_names(body, &mut names);
            // resolve the main service
            let mut cur = body;
            let mut hops = 0;
            loop {
                match cur {
                    PTy::Service(ms) => {
                        v.methods = ms.iter().map(|m| m.0.clone()).collect();
                        break;
                    }
                    PTy::Var(x) if hops < 64 => {
                        if hops == 0 {
                            v.actor_ref = Some(x.clone());
                        }
                        hops += 1;
                        match defs.get(x.as_str()) {
                            Some(d) => {
                                v.service_def = Some(x.clone());
                                cur = d;
                            }
                            None => break,
                        }
                    }
                    _ => break,
                }
            }
        }
    }
    v.motoko_ok = names.iter().all(|n| is_candid_id(n));
    v
}
