//! The enumerated program space of C17 beyond `mclib::progs`: families aimed at the anchored
//! mechanisms (definition ordering, recursion inference, init-only types, named-service
//! actors, keyword escaping, key quoting, `_N_` spelling, tuples, references and modes).
//! Every family is a complete enumeration of the product it describes.
use crate::names::{wf, Alphabets};
use crate::Case;
use mclib::engine::Tier;
use mclib::progs::{self, PActor, PFunc, PLabel, PTy, Prog};
use refmodel::ty::{Mode, Prim};

pub type Gen = Box<dyn Fn() -> Vec<Case>>;

fn pr(p: Prim) -> PTy {
    PTy::Prim(p)
}
fn nat() -> PTy {
    pr(Prim::Nat)
}
fn text() -> PTy {
    pr(Prim::Text)
}
fn null() -> PTy {
    pr(Prim::Null)
}
fn v(s: &str) -> PTy {
    PTy::var(s)
}
fn nl(s: &str) -> PLabel {
    PLabel::named(s)
}
fn fun(a: Vec<PTy>, r: Vec<PTy>) -> PTy {
    PTy::func(a, r, vec![])
}
fn funm(a: Vec<PTy>, r: Vec<PTy>, m: Vec<Mode>) -> PTy {
    PTy::func(a, r, m)
}
fn svc(ms: Vec<(&str, PTy)>) -> PTy {
    PTy::Service(ms.into_iter().map(|(n, t)| (n.to_string(), t)).collect())
}
fn rec(fs: Vec<(PLabel, PTy)>) -> PTy {
    PTy::Record(fs)
}
fn var_(fs: Vec<(PLabel, PTy)>) -> PTy {
    PTy::Variant(fs)
}
fn prog(defs: Vec<(&str, PTy)>, actor: Option<PActor>) -> Prog {
    Prog { defs: defs.into_iter().map(|(n, t)| (n.to_string(), t)).collect(), actor, actor_name: None }
}
fn a_svc(ms: Vec<(&str, PTy)>) -> Option<PActor> {
    Some(PActor::Service(svc(ms)))
}
fn a_ty(t: PTy) -> Option<PActor> {
    Some(PActor::Service(t))
}
fn a_class(args: Vec<PTy>, t: PTy) -> Option<PActor> {
    Some(PActor::Class(args.into_iter().map(|t| (None, t)).collect(), t))
}
fn m0() -> PTy {
    svc(vec![("m", fun(vec![], vec![]))])
}

struct Out {
    v: Vec<Case>,
    fam: &'static str,
}
impl Out {
    fn new(fam: &'static str) -> Out {
        Out { v: vec![], fam }
    }
    fn push(&mut self, p: Prog) {
        if wf(&p) {
            self.v.push(Case { prog: p, shorthand: false, family: self.fam });
        }
    }
    fn push_sh(&mut self, p: Prog) {
        if wf(&p) {
            self.v.push(Case { prog: p, shorthand: true, family: self.fam });
        }
    }
}

// ---------------------------------------------------------------------------------------
// dependency graphs: all digraphs on k definitions

#[derive(Clone, Copy, PartialEq, Eq, Debug)]
pub enum Kind {
    Record,
    Variant,
    Func,
    Service,
}
#[derive(Clone, Copy, PartialEq, Eq, Debug)]
pub enum Wrap {
    Direct,
    Opt,
    Vec,
    FuncRet,
}
#[derive(Clone, PartialEq, Eq, Debug)]
pub enum GActor {
    None,
    Meths(Vec<usize>),
    Class { init: usize, svc: Option<usize> },
    Named(usize),
    ClassNamed { init: usize, svc: usize },
}

fn wrap(w: Wrap, t: PTy) -> PTy {
    match w {
        Wrap::Direct => t,
        Wrap::Opt => PTy::opt(t),
        Wrap::Vec => PTy::vec(t),
        Wrap::FuncRet => fun(vec![], vec![t]),
    }
}

const NODE_NAMES: [&str; 4] = ["na", "nb", "nc", "nd"];

fn perms(k: usize) -> Vec<Vec<usize>> {
    fn go(cur: &mut Vec<usize>, k: usize, out: &mut Vec<Vec<usize>>) {
        if cur.len() == k {
            out.push(cur.clone());
            return;
        }
        for i in 0..k {
            if !cur.contains(&i) {
                cur.push(i);
                go(cur, k, out);
                cur.pop();
            }
        }
    }
    let mut out = vec![];
    go(&mut vec![], k, &mut out);
    out
}

/// node i is named NODE_NAMES[perm[i]]; bit (i*k+j) of `mask` is the edge i -> j
fn graph_prog(k: usize, mask: u32, perm: &[usize], kinds: &[Kind], w: Wrap, rev_text: bool, actor: &GActor) -> Option<Prog> {
    let name = |i: usize| NODE_NAMES[perm[i]];
    let mut defs: Vec<(String, PTy)> = vec![];
    for i in 0..k {
        let targets: Vec<usize> = (0..k).filter(|j| mask & (1 << (i * k + j)) != 0).collect();
        let body = match kinds[i] {
            Kind::Record => {
                let mut fs: Vec<(PLabel, PTy)> = targets.iter().map(|j| (nl(&format!("e{j}")), wrap(w, v(name(*j))))).collect();
                fs.push((nl("n"), nat()));
                rec(fs)
            }
            Kind::Variant => {
                let mut fs: Vec<(PLabel, PTy)> = targets.iter().map(|j| (nl(&format!("e{j}")), wrap(w, v(name(*j))))).collect();
                fs.push((nl("n"), null()));
                var_(fs)
            }
            Kind::Func => fun(targets.iter().map(|j| wrap(w, v(name(*j)))).collect(), vec![nat()]),
            Kind::Service => {
                let mut ms: Vec<(String, PTy)> = targets.iter().map(|j| (format!("e{j}"), fun(vec![wrap(w, v(name(*j)))], vec![]))).collect();
                ms.push(("n".into(), fun(vec![], vec![])));
                PTy::Service(ms)
            }
        };
        defs.push((name(i).to_string(), body));
    }
    if rev_text {
        defs.reverse();
    }
    let meths = |es: &[usize]| -> PTy { PTy::Service(es.iter().enumerate().map(|(n, e)| (format!("m{n}"), fun(vec![v(name(*e))], vec![]))).collect()) };
    let actor = match actor {
        GActor::None => None,
        GActor::Meths(es) => Some(PActor::Service(meths(es))),
        GActor::Class { init, svc: s } => Some(PActor::Class(
            vec![(None, v(name(*init)))],
            match s {
                Some(e) => meths(&[*e]),
                None => m0(),
            },
        )),
        GActor::Named(e) => {
            if kinds[*e] != Kind::Service {
                return None;
            }
            Some(PActor::Service(v(name(*e))))
        }
        GActor::ClassNamed { init, svc: s } => {
            if kinds[*s] != Kind::Service {
                return None;
            }
            Some(PActor::Class(vec![(None, v(name(*init)))], v(name(*s))))
        }
    };
    Some(Prog { defs, actor, actor_name: None })
}

/// reduced actor set for the body-kind sweep on 3 nodes: every entry, every init position,
/// one service entry per init position, every named-service actor
fn graph_actors_reduced(k: usize) -> Vec<GActor> {
    let mut a = vec![GActor::None];
    for e in 0..k {
        a.push(GActor::Meths(vec![e]));
    }
    a.push(GActor::Meths((0..k).collect()));
    a.push(GActor::Meths((0..k).rev().collect()));
    for i in 0..k {
        a.push(GActor::Class { init: i, svc: None });
        a.push(GActor::Class { init: i, svc: Some((i + 1) % k) });
    }
    for e in 0..k {
        a.push(GActor::Named(e));
        a.push(GActor::ClassNamed { init: (e + 1) % k, svc: e });
    }
    a
}

fn graph_actors(k: usize, named: bool) -> Vec<GActor> {
    let mut a = vec![GActor::None];
    for e in 0..k {
        a.push(GActor::Meths(vec![e]));
    }
    if k > 1 {
        a.push(GActor::Meths((0..k).collect()));
        a.push(GActor::Meths((0..k).rev().collect()));
    }
    for i in 0..k {
        a.push(GActor::Class { init: i, svc: None });
        for s in 0..k {
            a.push(GActor::Class { init: i, svc: Some(s) });
        }
    }
    if named {
        for e in 0..k {
            a.push(GActor::Named(e));
            for i in 0..k {
                a.push(GActor::ClassNamed { init: i, svc: e });
            }
        }
    }
    a
}

fn graphs_small(fam: &'static str, ks: Vec<usize>, all_perms: bool, wraps: Vec<Wrap>) -> Gen {
    Box::new(move || {
        let mut out = Out::new(fam);
        for &k in &ks {
            let ps: Vec<Vec<usize>> = if all_perms { perms(k) } else { vec![(0..k).collect(), (0..k).rev().collect()] };
            let mut ps = ps;
            ps.dedup();
            let kinds = vec![Kind::Record; k];
            for mask in 0..(1u32 << (k * k)) {
                for (pi, p) in ps.iter().enumerate() {
                    for w in &wraps {
                        for a in graph_actors(k, false) {
                            if let Some(pg) = graph_prog(k, mask, p, &kinds, *w, (mask as usize + pi) % 2 == 1, &a) {
                                out.push(pg);
                            }
                        }
                    }
                }
            }
        }
        out.v
    })
}

/// every assignment of body kinds (record / func / service [/ variant]) to the nodes
fn graphs_kinds(fam: &'static str, k: usize, kinds_alpha: Vec<Kind>, w: Wrap) -> Gen {
    Box::new(move || {
        let mut out = Out::new(fam);
        let p: Vec<usize> = (0..k).collect();
        let nk = kinds_alpha.len();
        for kc in 0..nk.pow(k as u32) {
            let kinds: Vec<Kind> = (0..k).map(|i| kinds_alpha[(kc / nk.pow(i as u32)) % nk]).collect();
            if kinds.iter().all(|x| *x == Kind::Record) {
                continue; // covered by graphs_small
            }
            let actors = if k >= 3 { graph_actors_reduced(k) } else { graph_actors(k, true) };
            for mask in 0..(1u32 << (k * k)) {
                for a in &actors {
                    if let Some(pg) = graph_prog(k, mask, &p, &kinds, w, mask % 2 == 1, a) {
                        out.push(pg);
                    }
                }
            }
        }
        out.v
    })
}

fn graphs_four(fam: &'static str, actor: GActor, rev_names: bool) -> Gen {
    Box::new(move || {
        let mut out = Out::new(fam);
        let k = 4;
        let p: Vec<usize> = if rev_names { (0..k).rev().collect() } else { (0..k).collect() };
        let kinds = vec![Kind::Record; k];
        for mask in 0..(1u32 << 16) {
            if let Some(pg) = graph_prog(k, mask, &p, &kinds, Wrap::Opt, mask % 2 == 1, &actor) {
                out.push(pg);
            }
        }
        out.v
    })
}

// ---------------------------------------------------------------------------------------
// use-before-definition chains with aliases

#[derive(Clone, Copy, PartialEq, Eq, Debug)]
enum Link {
    Alias,
    Opt,
    Vec,
    Field,
    FuncArg,
}
#[derive(Clone, Copy, PartialEq, Eq, Debug)]
enum Leaf {
    Nat,
    EmptyRecord,
    Func,
    Service,
}

fn chains(fam: &'static str, ks: Vec<usize>, links: Vec<Link>) -> Gen {
    Box::new(move || {
        let mut out = Out::new(fam);
        for &k in &ks {
            let nl_ = links.len();
            for lc in 0..nl_.pow((k - 1) as u32) {
                let ls: Vec<Link> = (0..k - 1).map(|i| links[(lc / nl_.pow(i as u32)) % nl_]).collect();
                for leaf in [Leaf::Nat, Leaf::EmptyRecord, Leaf::Func, Leaf::Service] {
                    for close in [false, true] {
                        for desc in [false, true] {
                            for rev_text in [false, true] {
                                let name = |i: usize| -> String { format!("c{}", if desc { k - i } else { i + 1 }) };
                                let link = |l: Link, t: PTy| match l {
                                    Link::Alias => t,
                                    Link::Opt => PTy::opt(t),
                                    Link::Vec => PTy::vec(t),
                                    Link::Field => rec(vec![(nl("f"), t), (nl("g"), nat())]),
                                    Link::FuncArg => fun(vec![t], vec![]),
                                };
                                let mut defs: Vec<(String, PTy)> = vec![];
                                for i in 0..k - 1 {
                                    defs.push((name(i), link(ls[i], v(&name(i + 1)))));
                                }
                                let all_alias = ls.iter().all(|l| *l == Link::Alias);
                                let last = if close {
                                    if leaf != Leaf::Nat {
                                        continue; // one closing shape per chain
                                    }
                                    PTy::opt(v(&name(0)))
                                } else {
                                    match leaf {
                                        Leaf::Nat => nat(),
                                        Leaf::EmptyRecord => rec(vec![]),
                                        Leaf::Func => fun(vec![], vec![]),
                                        Leaf::Service => svc(vec![]),
                                    }
                                };
                                defs.push((name(k - 1), last));
                                if rev_text {
                                    defs.reverse();
                                }
                                let first = name(0);
                                let lastn = name(k - 1);
                                let mut actors: Vec<Option<PActor>> = vec![
                                    None,
                                    a_svc(vec![("m", fun(vec![v(&first)], vec![]))]),
                                    a_svc(vec![("m", fun(vec![v(&lastn)], vec![v(&first)]))]),
                                    a_svc(vec![("a", fun(vec![v(&lastn)], vec![])), ("b", fun(vec![v(&first)], vec![]))]),
                                    a_class(vec![v(&first)], m0()),
                                    a_class(vec![v(&lastn), v(&first)], svc(vec![("m", fun(vec![v(&first)], vec![]))])),
                                ];
                                if all_alias && !close && leaf == Leaf::Service {
                                    actors.push(a_ty(v(&first)));
                                    actors.push(a_class(vec![nat()], v(&first)));
                                }
                                if all_alias && !close && leaf == Leaf::Func {
                                    actors.push(a_svc(vec![("m", v(&first))]));
                                }
                                for a in actors {
                                    out.push(Prog { defs: defs.clone(), actor: a, actor_name: None });
                                }
                            }
                        }
                    }
                }
            }
        }
        out.v
    })
}

// ---------------------------------------------------------------------------------------
// named-service actors, definition names

fn named_actor_progs(s: &str, out: &mut Out) {
    let z = "zz_t";
    let msvc = || svc(vec![("m", fun(vec![], vec![]))]);
    let rsvc = |n: &str| svc(vec![("next", fun(vec![], vec![v(n)]))]);
    out.push(prog(vec![(s, svc(vec![]))], a_ty(v(s))));
    out.push(prog(vec![(s, msvc())], a_ty(v(s))));
    out.push(prog(vec![(s, rsvc(s))], a_ty(v(s))));
    out.push(prog(vec![(s, svc(vec![]))], a_class(vec![], v(s))));
    out.push(prog(vec![(s, msvc())], a_class(vec![nat()], v(s))));
    out.push(prog(vec![(s, rsvc(s))], a_class(vec![nat()], v(s))));
    // the class's init arg mentions the service as well
    out.push(prog(vec![(s, msvc())], a_class(vec![v(s)], v(s))));
    out.push(prog(vec![(s, rsvc(s))], a_class(vec![PTy::opt(v(s))], v(s))));
    if s != z {
        // alias chains in both directions
        out.push(prog(vec![(s, msvc()), (z, v(s))], a_ty(v(z))));
        out.push(prog(vec![(z, msvc()), (s, v(z))], a_ty(v(s))));
        out.push(prog(vec![(s, rsvc(s)), (z, v(s))], a_ty(v(z))));
        out.push(prog(vec![(z, rsvc(z)), (s, v(z))], a_ty(v(s))));
        out.push(prog(vec![(z, rsvc(s)), (s, v(z))], a_ty(v(s))));
        out.push(prog(vec![(z, rsvc(s)), (s, v(z))], a_class(vec![text()], v(s))));
        // mutually recursive services
        out.push(prog(vec![(s, rsvc(z)), (z, rsvc(s))], a_ty(v(s))));
        out.push(prog(vec![(s, rsvc(z)), (z, rsvc(s))], a_ty(v(z))));
    }
    // name after `service`
    let mut p = prog(vec![], a_svc(vec![("m", fun(vec![], vec![]))]));
    p.actor_name = Some(s.to_string());
    out.push(p);
    let mut p = prog(vec![(s, msvc())], a_ty(v(s)));
    p.actor_name = Some(s.to_string());
    out.push(p);
}

fn defname_progs(n: &str, out: &mut Out) {
    let z = "zz_t";
    let use1 = |n: &str| a_svc(vec![("m", fun(vec![v(n)], vec![PTy::opt(v(n))]))]);
    let data = || rec(vec![(nl("a"), nat())]);
    let list = |n: &str| PTy::opt(rec(vec![(PLabel::Id(0), nat()), (PLabel::Id(1), v(n))]));
    // data definition in argument / result position
    out.push(prog(vec![(n, data())], use1(n)));
    out.push(prog(vec![(n, nat())], use1(n)));
    out.push(prog(vec![(n, PTy::Blob)], use1(n)));
    // recursive definitions
    out.push(prog(vec![(n, list(n))], use1(n)));
    out.push(prog(vec![(n, rec(vec![(nl("a"), PTy::vec(v(n)))]))], use1(n)));
    out.push(prog(vec![(n, var_(vec![(nl("leaf"), null()), (nl("node"), rec(vec![(PLabel::Id(0), v(n)), (PLabel::Id(1), v(n))]))]))], use1(n)));
    // func definition as method type and as reference
    out.push(prog(vec![(n, fun(vec![nat()], vec![text()]))], a_svc(vec![("m", v(n))])));
    out.push(prog(vec![(n, funm(vec![], vec![nat()], vec![Mode::Query]))], a_svc(vec![("m", v(n)), ("k", fun(vec![v(n)], vec![]))])));
    out.push(prog(vec![(n, fun(vec![v(n)], vec![]))], a_svc(vec![("m", v(n))])));
    out.push(prog(vec![(n, fun(vec![v(n)], vec![]))], a_svc(vec![("m", fun(vec![v(n)], vec![]))])));
    // service definition as reference
    out.push(prog(vec![(n, m0())], a_svc(vec![("m", fun(vec![v(n)], vec![]))])));
    out.push(prog(vec![(n, svc(vec![("next", fun(vec![], vec![v(n)]))]))], a_svc(vec![("m", fun(vec![v(n)], vec![]))])));
    // only reachable from the init args
    out.push(prog(vec![(n, data())], a_class(vec![v(n)], m0())));
    out.push(prog(vec![(n, list(n))], a_class(vec![v(n)], m0())));
    out.push(prog(vec![(n, list(n))], a_class(vec![nat(), PTy::opt(v(n))], m0())));
    out.push(prog(vec![(n, list(n))], a_class(vec![v(n)], svc(vec![("m", fun(vec![v(n)], vec![]))]))));
    // no actor
    out.push(prog(vec![(n, data())], None));
    out.push(prog(vec![(n, list(n))], None));
    if n != z {
        // aliases in both directions, use-before-definition
        out.push(prog(vec![(n, v(z)), (z, data())], use1(n)));
        out.push(prog(vec![(z, v(n)), (n, data())], use1(z)));
        out.push(prog(vec![(n, PTy::vec(v(z))), (z, PTy::opt(v(n)))], use1(n)));
        out.push(prog(vec![(n, PTy::vec(v(z))), (z, PTy::opt(v(n)))], use1(z)));
        out.push(prog(vec![(n, v(z)), (z, data())], None));
        out.push(prog(vec![(n, PTy::vec(v(z))), (z, PTy::opt(v(n)))], None));
        out.push(prog(vec![(n, PTy::vec(v(z))), (z, PTy::opt(v(n)))], a_class(vec![v(z)], m0())));
    }
    // the escaped spelling of the name is taken by another definition
    let esc = format!("{n}_");
    out.push(prog(vec![(n, nat()), (&esc, text())], a_svc(vec![("m", fun(vec![v(n), v(&esc)], vec![]))])));
    out.push(prog(vec![(n, list(n)), (&esc, text())], a_svc(vec![("m", fun(vec![v(n), v(&esc)], vec![]))])));
    out.push(prog(vec![(n, nat()), (&esc, text())], None));
    // argument names
    out.push(prog(
        vec![],
        a_svc(vec![(
            "m",
            PTy::Func(PFunc { args: vec![(Some(n.to_string()), nat())], rets: vec![(Some(n.to_string()), text())], modes: vec![] }),
        )]),
    ));
    out.push(Prog {
        defs: vec![],
        actor: Some(PActor::Class(vec![(Some(n.to_string()), nat())], m0())),
        actor_name: None,
    });
}

fn defname_pair_progs(n: &str, m: &str, out: &mut Out) {
    let use2 = |a: &str, b: &str| a_svc(vec![("m", fun(vec![v(a)], vec![v(b)]))]);
    out.push(prog(vec![(n, rec(vec![(nl("a"), v(m))])), (m, PTy::opt(v(n)))], use2(n, m)));
    out.push(prog(vec![(n, PTy::vec(v(m))), (m, nat())], use2(n, m)));
    out.push(prog(vec![(n, svc(vec![("f", v(m))])), (m, fun(vec![v(n)], vec![]))], a_ty(v(n))));
}

// ---------------------------------------------------------------------------------------
// labels and method names at every position

fn label_progs(l: &PLabel, out: &mut Out) {
    let z = nl("zz");
    let use_t = || a_svc(vec![("m", fun(vec![v("t")], vec![]))]);
    out.push(prog(vec![("t", rec(vec![(l.clone(), nat())]))], use_t()));
    out.push(prog(vec![("t", var_(vec![(l.clone(), null())]))], a_svc(vec![("m", fun(vec![v("t")], vec![v("t")]))])));
    out.push(prog(vec![], a_svc(vec![("m", fun(vec![rec(vec![(l.clone(), text())])], vec![]))])));
    out.push(prog(vec![], a_svc(vec![("m", funm(vec![], vec![PTy::opt(var_(vec![(l.clone(), nat())]))], vec![Mode::Query]))])));
    out.push(prog(vec![("t", rec(vec![(nl("a"), PTy::vec(rec(vec![(l.clone(), text())])))]))], use_t()));
    out.push(prog(vec![("t", rec(vec![(l.clone(), nat()), (z.clone(), text())]))], use_t()));
    out.push(prog(vec![("t", rec(vec![(z.clone(), text()), (l.clone(), nat())]))], use_t()));
    out.push(prog(vec![("t", var_(vec![(z.clone(), text()), (l.clone(), nat())]))], use_t()));
    out.push(prog(vec![], a_class(vec![rec(vec![(l.clone(), nat())])], m0())));
    out.push(prog(vec![], a_class(vec![var_(vec![(l.clone(), null())]), nat()], m0())));
    out.push(prog(vec![("t", PTy::opt(rec(vec![(l.clone(), v("t"))])))], use_t()));
    out.push(prog(vec![("t", PTy::opt(rec(vec![(l.clone(), v("t"))])))], a_class(vec![v("t")], m0())));
    out.push(prog(vec![("t", rec(vec![(PLabel::Id(0), nat()), (l.clone(), text())]))], use_t()));
    out.push(prog(vec![("t", rec(vec![(l.clone(), text()), (PLabel::Id(1), nat())]))], use_t()));
    out.push(prog(vec![], a_svc(vec![("m", fun(vec![fun(vec![rec(vec![(l.clone(), nat())])], vec![])], vec![]))])));
    out.push(prog(vec![], a_svc(vec![("m", fun(vec![svc(vec![("mm", fun(vec![var_(vec![(l.clone(), null())])], vec![]))])], vec![]))])));
    out.push(prog(vec![("t", rec(vec![(l.clone(), nat())]))], None));
    out.push(prog(vec![("t", var_(vec![(l.clone(), rec(vec![(l.clone(), null())]))]))], None));
}

fn meth_progs(m: &str, out: &mut Out) {
    let f0 = || fun(vec![], vec![]);
    out.push(prog(vec![], a_svc(vec![(m, f0())])));
    out.push(prog(vec![], a_svc(vec![(m, funm(vec![nat()], vec![text()], vec![Mode::Query])), ("zz", f0())])));
    out.push(prog(vec![], a_svc(vec![("zz", f0()), (m, funm(vec![nat()], vec![], vec![Mode::Oneway]))])));
    out.push(prog(vec![("S", svc(vec![(m, f0())]))], a_ty(v("S"))));
    out.push(prog(vec![("S", svc(vec![(m, fun(vec![], vec![v("S")]))]))], a_ty(v("S"))));
    out.push(prog(vec![], a_class(vec![nat()], svc(vec![(m, f0())]))));
    out.push(prog(vec![("S", svc(vec![(m, f0())]))], a_class(vec![v("S")], v("S"))));
    out.push(prog(vec![], a_svc(vec![("mm", fun(vec![svc(vec![(m, funm(vec![], vec![], vec![Mode::Oneway]))])], vec![]))])));
    out.push(prog(vec![("S", svc(vec![(m, f0())]))], a_svc(vec![("zz", fun(vec![v("S")], vec![]))])));
    out.push(prog(vec![("F", f0())], a_svc(vec![(m, v("F"))])));
    out.push(prog(vec![("F", fun(vec![v("F")], vec![]))], a_svc(vec![(m, v("F"))])));
    out.push(prog(vec![("S", svc(vec![(m, f0())]))], None));
    out.push(prog(vec![], a_class(vec![svc(vec![(m, f0())])], m0())));
}

fn label_pair_progs(l1: &PLabel, l2: &PLabel, out: &mut Out) {
    let use_t = || a_svc(vec![("m", fun(vec![v("t")], vec![]))]);
    out.push(prog(vec![("t", rec(vec![(l1.clone(), nat()), (l2.clone(), text())]))], use_t()));
    out.push(prog(vec![], a_svc(vec![("m", fun(vec![], vec![var_(vec![(l1.clone(), null()), (l2.clone(), nat())])]))])));
    out.push(prog(vec![], a_class(vec![rec(vec![(l1.clone(), nat()), (l2.clone(), text())])], m0())));
}
fn meth_pair_progs(m1: &str, m2: &str, out: &mut Out) {
    out.push(prog(vec![], a_svc(vec![(m1, fun(vec![nat()], vec![])), (m2, fun(vec![], vec![text()]))])));
    out.push(prog(vec![("S", svc(vec![(m1, fun(vec![nat()], vec![])), (m2, fun(vec![], vec![text()]))]))], a_ty(v("S"))));
}

fn id_labels() -> Vec<PLabel> {
    [0u32, 1, 2, 3, 7, 9, 10, 123, 1 << 31, u32::MAX - 1, u32::MAX].iter().map(|n| PLabel::Id(*n)).collect()
}

// ---------------------------------------------------------------------------------------
// primitives, blob, references with every mode, tuples, wide programs, init-only recursion

fn misc(thorough: bool) -> Gen {
    Box::new(move || {
        let mut out = Out::new("misc");
        // every primitive at every position
        for p in Prim::ALL {
            let t = pr(p);
            out.push(prog(vec![], a_svc(vec![("m", fun(vec![t.clone()], vec![t.clone()]))])));
            out.push(prog(vec![("t", t.clone())], a_svc(vec![("m", fun(vec![v("t")], vec![PTy::vec(v("t"))]))])));
            out.push(prog(vec![("t", rec(vec![(nl("f"), t.clone()), (PLabel::Id(5), PTy::opt(t.clone()))]))], a_svc(vec![("m", fun(vec![v("t")], vec![]))])));
            out.push(prog(vec![("t", var_(vec![(nl("f"), t.clone())]))], a_svc(vec![("m", fun(vec![], vec![v("t")]))])));
            out.push(prog(vec![], a_class(vec![t.clone(), PTy::vec(t.clone())], m0())));
            out.push(prog(vec![("t", t.clone())], None));
            out.push(prog(vec![], a_svc(vec![("m", fun(vec![rec(vec![(PLabel::Id(0), t.clone()), (PLabel::Id(1), t.clone())])], vec![]))])));
        }
        // blob
        out.push(prog(vec![], a_svc(vec![("m", fun(vec![PTy::Blob], vec![PTy::vec(pr(Prim::Nat8))]))])));
        out.push(prog(vec![("b", PTy::Blob)], a_svc(vec![("m", fun(vec![v("b"), PTy::opt(PTy::Blob)], vec![]))])));
        out.push(prog(vec![("b", rec(vec![(nl("data"), PTy::Blob)]))], a_class(vec![PTy::Blob], svc(vec![("m", fun(vec![v("b")], vec![]))]))));
        // modes: every subset order of the three annotations (the front end decides which are legal)
        let ms = [Mode::Query, Mode::Oneway, Mode::CompositeQuery];
        let mut mode_sets: Vec<Vec<Mode>> = vec![vec![]];
        for a in ms {
            mode_sets.push(vec![a]);
            for b in ms {
                mode_sets.push(vec![a, b]);
            }
        }
        for m in &mode_sets {
            let oneway = m.contains(&Mode::Oneway);
            let rets = if oneway { vec![] } else { vec![nat()] };
            let f = funm(vec![text()], rets.clone(), m.clone());
            out.push(prog(vec![], a_svc(vec![("m", f.clone())])));
            out.push(prog(vec![("F", f.clone())], a_svc(vec![("m", v("F"))])));
            out.push(prog(vec![], a_svc(vec![("m", fun(vec![f.clone()], vec![PTy::opt(f.clone())]))])));
            out.push(prog(vec![("F", f.clone())], a_svc(vec![("m", fun(vec![v("F")], vec![]))])));
            out.push(prog(vec![], a_svc(vec![("m", fun(vec![svc(vec![("x", f.clone())])], vec![]))])));
            out.push(prog(vec![("S", svc(vec![("x", f.clone())]))], a_ty(v("S"))));
            out.push(prog(vec![], a_class(vec![f.clone()], svc(vec![("x", f.clone())]))));
            out.push(prog(vec![("R", rec(vec![(nl("cb"), f.clone())]))], a_svc(vec![("m", fun(vec![v("R")], vec![]))])));
        }
        // tuples and near-tuples, both spellings
        let comps = [nat(), text(), pr(Prim::Bool), pr(Prim::Int8), PTy::opt(nat())];
        for n in 1..=5usize {
            let tup = rec((0..n).map(|i| (PLabel::Id(i as u32), comps[i].clone())).collect());
            for sh in [false, true] {
                let ps = vec![
                    prog(vec![], a_svc(vec![("m", fun(vec![tup.clone()], vec![tup.clone()]))])),
                    prog(vec![("t", tup.clone())], a_svc(vec![("m", fun(vec![v("t")], vec![]))])),
                    prog(vec![("t", rec(vec![(PLabel::Id(0), tup.clone()), (PLabel::Id(1), PTy::vec(tup.clone()))]))], a_svc(vec![("m", fun(vec![v("t")], vec![]))])),
                    prog(vec![("t", PTy::opt(rec(vec![(PLabel::Id(0), nat()), (PLabel::Id(1), v("t"))])))], a_class(vec![v("t"), tup.clone()], m0())),
                    prog(vec![("t", var_(vec![(nl("a"), tup.clone())]))], None),
                ];
                for p in ps {
                    if sh {
                        out.push_sh(p);
                    } else {
                        out.push(p);
                    }
                }
            }
            // declared in reverse order (the front end sorts fields)
            let rev = rec((0..n).rev().map(|i| (PLabel::Id(i as u32), comps[i].clone())).collect());
            out.push(prog(vec![("t", rev)], a_svc(vec![("m", fun(vec![v("t")], vec![]))])));
        }
        for ids in [vec![1u32], vec![0, 2], vec![1, 2], vec![0, 1, 3], vec![2, 1], vec![0, 1, u32::MAX], vec![5], vec![0, 0x7fff_ffff]] {
            let r = rec(ids.iter().map(|i| (PLabel::Id(*i), nat())).collect());
            out.push(prog(vec![("t", r.clone())], a_svc(vec![("m", fun(vec![v("t")], vec![r.clone()]))])));
            let vr = var_(ids.iter().map(|i| (PLabel::Id(*i), nat())).collect());
            out.push(prog(vec![("t", vr.clone())], a_svc(vec![("m", fun(vec![v("t")], vec![vr.clone()]))])));
        }
        // variants shaped like tuples stay variants
        out.push(prog(vec![("t", var_(vec![(PLabel::Id(0), nat()), (PLabel::Id(1), text())]))], a_svc(vec![("m", fun(vec![v("t")], vec![]))])));
        // named fields whose names hash to 0,1 would be tuples: names mixing with ids
        out.push(prog(vec![("t", rec(vec![(PLabel::Id(0), nat()), (nl("a"), text())]))], a_svc(vec![("m", fun(vec![v("t")], vec![]))])));
        // empty things
        out.push(prog(vec![], a_svc(vec![])));
        out.push(prog(vec![], a_class(vec![], svc(vec![]))));
        out.push(prog(vec![("e", rec(vec![])), ("v", var_(vec![]))], a_svc(vec![("m", fun(vec![v("e")], vec![v("v")]))])));
        out.push(prog(vec![], None));
        // wide programs: the pretty printer switches to the multi-line layout with trailing commas
        let widths: Vec<usize> = if thorough { (1..=40).collect() } else { vec![1, 2, 3, 5, 8, 12, 13, 20, 40] };
        for n in widths {
            let big = rec((0..n).map(|i| (nl(&format!("field_number_{i}")), PTy::opt(PTy::vec(nat())))).collect());
            let tup = rec((0..n).map(|i| (PLabel::Id(i as u32), PTy::opt(text()))).collect());
            let bigv = var_((0..n).map(|i| (nl(&format!("tag_number_{i}")), null())).collect());
            let names: Vec<String> = (0..n).map(|i| format!("method_number_{i}")).collect();
            let wide_f = fun((0..n).map(|_| v("big")).collect(), (0..n).map(|_| v("tup")).collect());
            let meths: Vec<(&str, PTy)> = names.iter().map(|s| (s.as_str(), funm(vec![v("big"), v("tup")], vec![v("bigv")], vec![Mode::Query]))).collect();
            out.push(prog(vec![("big", big.clone()), ("tup", tup.clone()), ("bigv", bigv.clone())], a_svc(meths.clone())));
            out.push(prog(vec![("big", big.clone()), ("tup", tup.clone())], a_svc(vec![("m", wide_f.clone())])));
            out.push(prog(
                vec![("big", big.clone()), ("tup", tup.clone()), ("bigv", bigv.clone()), ("S", svc(meths.clone()))],
                a_class((0..n).map(|_| v("big")).collect(), v("S")),
            ));
            out.push(prog(vec![("big", big.clone()), ("tup", tup.clone())], None));
            let mut deep = nat();
            for i in 0..n {
                deep = if i % 2 == 0 { PTy::opt(deep) } else { PTy::vec(deep) };
            }
            out.push(prog(vec![("deep", deep.clone())], a_svc(vec![("m", fun(vec![v("deep")], vec![deep.clone()]))])));
            let long = "x".repeat(n * 7);
            out.push(prog(vec![(&long, rec(vec![(nl(&long), nat())]))], a_svc(vec![(&long, fun(vec![v(&long)], vec![v(&long)]))])));
        }
        // recursive types reached only from the init args
        let list = |n: &str| PTy::opt(rec(vec![(PLabel::Id(0), nat()), (PLabel::Id(1), v(n))]));
        out.push(prog(vec![("l", list("l"))], a_class(vec![v("l")], m0())));
        out.push(prog(vec![("l", list("l"))], a_class(vec![v("l"), v("l")], m0())));
        out.push(prog(vec![("l", list("l"))], a_class(vec![PTy::vec(v("l"))], m0())));
        out.push(prog(vec![("l", list("l")), ("u", nat())], a_class(vec![v("l")], svc(vec![("m", fun(vec![v("u")], vec![]))]))));
        out.push(prog(vec![("l", list("l")), ("u", nat())], a_class(vec![v("u")], svc(vec![("m", fun(vec![v("l")], vec![]))]))));
        out.push(prog(vec![("l", list("l")), ("k", v("l"))], a_class(vec![v("k")], m0())));
        out.push(prog(vec![("a", rec(vec![(nl("b"), PTy::opt(v("b")))])), ("b", rec(vec![(nl("a"), PTy::opt(v("a")))]))], a_class(vec![v("a")], m0())));
        out.push(prog(vec![("a", rec(vec![(nl("b"), PTy::opt(v("b")))])), ("b", rec(vec![(nl("a"), PTy::opt(v("a")))]))], a_class(vec![v("b")], svc(vec![("m", fun(vec![v("a")], vec![]))]))));
        out.push(prog(vec![("a", rec(vec![(nl("b"), PTy::opt(v("b")))])), ("b", rec(vec![(nl("a"), PTy::opt(v("a")))]))], a_class(vec![v("b"), v("a")], svc(vec![("m", fun(vec![v("b")], vec![]))]))));
        out.push(prog(vec![("f", fun(vec![v("f")], vec![]))], a_class(vec![v("f")], m0())));
        out.push(prog(vec![("s", svc(vec![("next", fun(vec![], vec![v("s")]))]))], a_class(vec![v("s")], m0())));
        out.push(prog(vec![("s", svc(vec![("next", fun(vec![], vec![v("s")]))]))], a_class(vec![v("s")], v("s"))));
        // a named type (plain, recursive, mutually recursive) reached from the init args only through each kind of
        // wrapper - in particular only from inside a function or service reference type
        {
            let ev = rec(vec![(nl("id"), nat()), (nl("note"), text())]);
            let wrappers: Vec<(&str, Box<dyn Fn(PTy) -> PTy>)> = vec![
                ("id", Box::new(|t| t)),
                ("opt", Box::new(PTy::opt)),
                ("vec", Box::new(PTy::vec)),
                ("record", Box::new(|t| rec(vec![(nl("sink"), t)]))),
                ("variant", Box::new(|t| var_(vec![(nl("some"), t), (nl("none"), null())]))),
                ("func-arg", Box::new(|t| funm(vec![t], vec![], vec![Mode::Oneway]))),
                ("func-ret", Box::new(|t| funm(vec![], vec![t], vec![Mode::Query]))),
                ("service", Box::new(|t| svc(vec![("notify", fun(vec![t], vec![]))]))),
                ("opt-func-ret", Box::new(|t| PTy::opt(funm(vec![], vec![t], vec![Mode::Query])))),
                ("record-service", Box::new(|t| rec(vec![(nl("sink"), svc(vec![("notify", fun(vec![t.clone()], vec![t]))]))]))),
            ];
            let named: Vec<(Vec<(&str, PTy)>, &str)> = vec![
                (vec![("Event", ev.clone())], "Event"),
                (vec![("Node", list("Node"))], "Node"),
                (vec![("A", rec(vec![(nl("b"), PTy::opt(v("B")))])), ("B", rec(vec![(nl("a"), PTy::opt(v("A")))]))], "A"),
                (vec![("F", fun(vec![v("F")], vec![]))], "F"),
                (vec![("Alias", v("Event")), ("Event", ev.clone())], "Alias"),
            ];
            for (_wn, w) in &wrappers {
                for (defs, n) in &named {
                    let arg = w(v(n));
                    out.push(prog(defs.clone(), a_class(vec![arg.clone()], m0())));
                    out.push(prog(defs.clone(), a_class(vec![arg.clone(), nat()], m0())));
                    out.push(prog(defs.clone(), a_class(vec![nat(), arg.clone()], svc(vec![("m", fun(vec![nat()], vec![]))]))));
                    // the same wrapper as a method argument of the service, the init args not mentioning the name
                    out.push(prog(defs.clone(), a_class(vec![nat()], svc(vec![("m", fun(vec![arg.clone()], vec![arg.clone()]))]))));
                    out.push(prog(defs.clone(), a_svc(vec![("m", fun(vec![arg.clone()], vec![]))])));
                }
            }
        }
        // diamonds
        out.push(prog(
            vec![("d", rec(vec![(nl("b"), v("b")), (nl("c"), v("c"))])), ("b", PTy::opt(v("a"))), ("c", PTy::vec(v("a"))), ("a", nat())],
            a_svc(vec![("m", fun(vec![v("d")], vec![]))]),
        ));
        out.push(prog(
            vec![("a", rec(vec![(nl("b"), v("b")), (nl("c"), v("c"))])), ("b", PTy::opt(v("d"))), ("c", PTy::vec(v("d"))), ("d", nat())],
            a_class(vec![v("c")], svc(vec![("m", fun(vec![v("a")], vec![v("b")]))])),
        ));
        out.v
    })
}

// ---------------------------------------------------------------------------------------

pub fn all(tier: Tier, alpha: &Alphabets) -> Vec<(&'static str, Gen)> {
    let thorough = tier == Tier::Thorough;
    let mut fams: Vec<(&'static str, Gen)> = vec![];
    fams.push((
        "lib-default",
        Box::new(|| progs::default_programs(10_000_000).into_iter().map(|p| Case { prog: p, shorthand: false, family: "lib-default" }).collect()),
    ));
    fams.push((
        "lib-plain",
        Box::new(|| progs::plain_programs(10_000_000).into_iter().map(|p| Case { prog: p, shorthand: false, family: "lib-plain" }).collect()),
    ));
    fams.push((
        "lib-shapes",
        Box::new(|| progs::shape_programs().into_iter().map(|p| Case { prog: p, shorthand: false, family: "lib-shapes" }).collect()),
    ));
    fams.push(("misc", misc(thorough)));

    let js = alpha.js_names.clone();
    fams.push((
        "named-service-actor",
        Box::new(move || {
            let mut out = Out::new("named-service-actor");
            for s in &js {
                named_actor_progs(s, &mut out);
            }
            out.v
        }),
    ));
    let dn = alpha.def_names.clone();
    fams.push((
        "definition-names",
        Box::new(move || {
            let mut out = Out::new("definition-names");
            for n in &dn {
                defname_progs(n, &mut out);
            }
            out.v
        }),
    ));
    let mut labels: Vec<PLabel> = id_labels();
    labels.extend(alpha.labels.iter().map(|s| PLabel::Named(s.clone())));
    let ls = labels.clone();
    fams.push((
        "labels",
        Box::new(move || {
            let mut out = Out::new("labels");
            for l in &ls {
                label_progs(l, &mut out);
            }
            out.v
        }),
    ));
    let ms = alpha.labels.clone();
    fams.push((
        "method-names",
        Box::new(move || {
            let mut out = Out::new("method-names");
            for m in &ms {
                meth_progs(m, &mut out);
            }
            out.v
        }),
    ));
    if thorough {
        fams.push(("chains", chains("chains", vec![2, 3, 4], vec![Link::Alias, Link::Opt, Link::Vec, Link::Field, Link::FuncArg])));
    } else {
        fams.push(("chains", chains("chains", vec![2, 3], vec![Link::Alias, Link::Opt, Link::Vec, Link::Field, Link::FuncArg])));
        fams.push(("chains-4", chains("chains-4", vec![4], vec![Link::Alias, Link::Opt, Link::Field])));
    }
    if thorough {
        fams.push(("graphs-1-2-3", graphs_small("graphs-1-2-3", vec![1, 2, 3], true, vec![Wrap::Direct, Wrap::Opt, Wrap::Vec, Wrap::FuncRet])));
        fams.push(("graphs-kinds-1", graphs_kinds("graphs-kinds-1", 1, vec![Kind::Record, Kind::Variant, Kind::Func, Kind::Service], Wrap::Opt)));
        fams.push(("graphs-kinds-2", graphs_kinds("graphs-kinds-2", 2, vec![Kind::Record, Kind::Variant, Kind::Func, Kind::Service], Wrap::Opt)));
        fams.push(("graphs-kinds-3", graphs_kinds("graphs-kinds-3", 3, vec![Kind::Record, Kind::Func, Kind::Service], Wrap::Opt)));
        fams.push(("graphs-4-entry0", graphs_four("graphs-4-entry0", GActor::Meths(vec![0]), false)));
        fams.push(("graphs-4-entry3-revnames", graphs_four("graphs-4-entry3-revnames", GActor::Meths(vec![3]), true)));
        fams.push(("graphs-4-class-init3-svc0", graphs_four("graphs-4-class-init3-svc0", GActor::Class { init: 3, svc: Some(0) }, false)));
        fams.push(("graphs-4-class-init0", graphs_four("graphs-4-class-init0", GActor::Class { init: 0, svc: None }, true)));
        fams.push(("graphs-4-noactor", graphs_four("graphs-4-noactor", GActor::None, true)));
        // pairs
        let dn = alpha.def_names.clone();
        fams.push((
            "definition-name-pairs",
            Box::new(move || {
                let mut out = Out::new("definition-name-pairs");
                for n in &dn {
                    for m in &dn {
                        if n != m {
                            defname_pair_progs(n, m, &mut out);
                        }
                    }
                }
                out.v
            }),
        ));
        let ls = labels.clone();
        fams.push((
            "label-pairs",
            Box::new(move || {
                let mut out = Out::new("label-pairs");
                for a in &ls {
                    for b in &ls {
                        if a != b {
                            label_pair_progs(a, b, &mut out);
                        }
                    }
                }
                out.v
            }),
        ));
        let ms = alpha.labels.clone();
        fams.push((
            "method-name-pairs",
            Box::new(move || {
                let mut out = Out::new("method-name-pairs");
                for a in &ms {
                    for b in &ms {
                        if a != b {
                            meth_pair_progs(a, b, &mut out);
                        }
                    }
                }
                out.v
            }),
        ));
    } else {
        fams.push(("graphs-1-2", graphs_small("graphs-1-2", vec![1, 2], true, vec![Wrap::Direct, Wrap::Opt, Wrap::Vec, Wrap::FuncRet])));
        fams.push(("graphs-3", graphs_small("graphs-3", vec![3], false, vec![Wrap::Opt])));
        fams.push(("graphs-kinds-1", graphs_kinds("graphs-kinds-1", 1, vec![Kind::Record, Kind::Variant, Kind::Func, Kind::Service], Wrap::Opt)));
        fams.push(("graphs-kinds-2", graphs_kinds("graphs-kinds-2", 2, vec![Kind::Record, Kind::Variant, Kind::Func, Kind::Service], Wrap::Opt)));
        // a fixed sub-alphabet of label pairs: ids against their `_N_` spellings and object keys
        let sub: Vec<PLabel> = vec![
            PLabel::Id(0),
            PLabel::Id(1),
            PLabel::Id(7),
            nl("_0_"),
            nl("_1_"),
            nl("_7_"),
            nl("_007_"),
            nl("0"),
            nl("1"),
            nl("a"),
            nl("__proto__"),
            nl("constructor"),
            nl(""),
            nl("'"),
            nl("\u{0}1"),
        ];
        fams.push((
            "label-pairs",
            Box::new(move || {
                let mut out = Out::new("label-pairs");
                for a in &sub {
                    for b in &sub {
                        if a != b {
                            label_pair_progs(a, b, &mut out);
                        }
                    }
                }
                out.v
            }),
        ));
    }
    fams
}
