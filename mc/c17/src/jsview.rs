//! Conversion of the type graph returned by mock_idl.js into reference-model terms, and a
//! first-difference explainer for two model types.
use refmodel::hash::idl_hash;
use refmodel::ty::{Env, FuncTy, Mode, Prim, Ty};
use serde_json::Value;
use std::collections::HashSet;

pub struct JsView {
    /// one binding per graph node: `js.n<i>`
    pub env: Env,
    pub service: Ty,
    pub init: Vec<Ty>,
    /// kind of the node idlFactory returned ("service", "rec", ...)
    pub root_kind: String,
    pub info: Vec<String>,
}

/// agent-js `idlLabelToId`: `/^_\d+_$/` and the number is a safe integer in [0, 2^32) => that
/// number; anything else is hashed (Candid label hash over the UTF-8 bytes).
pub fn decode_key(k: &str) -> u32 {
    let b = k.as_bytes();
    if b.len() >= 3 && b[0] == b'_' && b[b.len() - 1] == b'_' && b[1..b.len() - 1].iter().all(|c| c.is_ascii_digit()) {
        let digits = k[1..k.len() - 1].trim_start_matches('0');
        if digits.is_empty() {
            return 0;
        }
        if digits.len() <= 10 {
            if let Ok(n) = digits.parse::<u64>() {
                if n < (1u64 << 32) {
                    return n as u32;
                }
            }
        }
    }
    idl_hash(k)
}

fn name(i: u64) -> String {
    format!("js.n{i}")
}
fn var(v: &Value) -> Result<Ty, (String, String)> {
    v.as_u64().map(|i| Ty::Var(name(i))).ok_or_else(|| ("js-graph-malformed".to_string(), format!("node reference {v}")))
}

pub fn to_view(resp: &Value) -> Result<JsView, (String, String)> {
    let bad = |s: &str| ("js-graph-malformed".to_string(), s.to_string());
    let nodes = resp["nodes"].as_array().ok_or_else(|| bad("no nodes"))?;
    let mut env = Env::new();
    let mut info = vec![];
    for (i, n) in nodes.iter().enumerate() {
        let k = n["k"].as_str().ok_or_else(|| bad("node without kind"))?;
        let t = match k {
            "prim" => {
                let nm = n["name"].as_str().unwrap_or("");
                let p = Prim::ALL.iter().copied().find(|p| p.name() == nm).ok_or_else(|| bad("unknown primitive"))?;
                Ty::Prim(p)
            }
            "opt" => Ty::opt(var(&n["t"])?),
            "vec" => Ty::vec(var(&n["t"])?),
            "record" | "variant" => {
                let mut fs = vec![];
                for f in n["fields"].as_array().ok_or_else(|| bad("fields"))? {
                    let key = f[0].as_str().ok_or_else(|| bad("field key"))?;
                    fs.push((decode_key(key), var(&f[1])?, key.to_string()));
                }
                fs.sort_by_key(|f| f.0);
                for w in fs.windows(2) {
                    if w[0].0 == w[1].0 {
                        return Err((
                            "duplicate-field-id".into(),
                            format!("object keys {:?} and {:?} both decode to field id {} in agent-js", w[0].2, w[1].2, w[0].0),
                        ));
                    }
                }
                let fs: Vec<(u32, Ty)> = fs.into_iter().map(|f| (f.0, f.1)).collect();
                if k == "record" {
                    Ty::Record(fs)
                } else {
                    Ty::Variant(fs)
                }
            }
            "func" => {
                let list = |v: &Value| -> Result<Vec<Ty>, (String, String)> { v.as_array().ok_or_else(|| bad("func list"))?.iter().map(var).collect() };
                let mut modes = vec![];
                for m in n["modes"].as_array().ok_or_else(|| bad("modes"))? {
                    modes.push(match m.as_str() {
                        Some("query") => Mode::Query,
                        Some("oneway") => Mode::Oneway,
                        Some("composite_query") => Mode::CompositeQuery,
                        other => return Err(("unknown-annotation".into(), format!("function annotation {other:?}"))),
                    });
                }
                Ty::Func(FuncTy { args: list(&n["args"])?, rets: list(&n["rets"])?, modes })
            }
            "service" => {
                let mut ms = vec![];
                for m in n["methods"].as_array().ok_or_else(|| bad("methods"))? {
                    let key = m[0].as_str().ok_or_else(|| bad("method key"))?;
                    let target = m[1].as_u64().ok_or_else(|| bad("method target"))?;
                    if nodes.get(target as usize).map(|t| t["k"] == "rec").unwrap_or(false) && !info.contains(&"service-method-is-rec-node".to_string()) {
                        info.push("service-method-is-rec-node".to_string());
                    }
                    ms.push((key.to_string(), Ty::Var(name(target))));
                }
                Ty::service(ms)
            }
            "rec" => {
                if n["t"].is_null() {
                    return Err(("rec-unfilled".into(), "an IDL.Rec() reachable from the result was never filled".into()));
                }
                if n["fills"].as_u64() != Some(1) {
                    return Err(("rec-filled-twice".into(), format!("an IDL.Rec() was filled {} times", n["fills"])));
                }
                var(&n["t"])?
            }
            _ => return Err(bad("unknown node kind")),
        };
        env.0.insert(name(i as u64), t);
    }
    let root = resp["service"].as_u64().ok_or_else(|| bad("service root"))?;
    let root_kind = nodes.get(root as usize).and_then(|n| n["k"].as_str()).unwrap_or("?").to_string();
    let init = resp["init"].as_array().ok_or_else(|| bad("init roots"))?.iter().map(var).collect::<Result<Vec<_>, _>>()?;
    Ok(JsView { env, service: Ty::Var(name(root)), init, root_kind, info })
}

fn ctor(t: &Ty) -> &'static str {
    match t {
        Ty::Prim(p) => p.name(),
        Ty::Var(_) => "var",
        Ty::Opt(_) => "opt",
        Ty::Vec(_) => "vec",
        Ty::Record(_) => "record",
        Ty::Variant(_) => "variant",
        Ty::Func(_) => "func",
        Ty::Service(_) => "service",
        Ty::Class(..) => "class",
        Ty::Future(..) => "future",
    }
}

/// First difference between `a` (JavaScript side) and `b` (expected) as (kind, description).
pub fn diff(env: &Env, a: &Ty, b: &Ty, path: &str) -> Option<(String, String)> {
    let mut seen = HashSet::new();
    diff_(env, a, b, path, &mut seen)
}

fn diff_(env: &Env, a: &Ty, b: &Ty, path: &str, seen: &mut HashSet<(Ty, Ty)>) -> Option<(String, String)> {
    if !seen.insert((a.clone(), b.clone())) {
        return None;
    }
    let (ua, ub) = match (env.unf(a), env.unf(b)) {
        (Ok(x), Ok(y)) => (x, y),
        _ => return Some(("unbound-or-vacuous".into(), format!("{path}: a type variable does not resolve"))),
    };
    let list = |xs: &[Ty], ys: &[Ty], what: &str, seen: &mut HashSet<(Ty, Ty)>| -> Option<(String, String)> {
        if xs.len() != ys.len() {
            return Some((format!("{what}-count"), format!("{path}: {} {what}s in JavaScript, {} expected", xs.len(), ys.len())));
        }
        for (i, (x, y)) in xs.iter().zip(ys).enumerate() {
            if let Some(d) = diff_(env, x, y, &format!("{path}.{what}{i}"), seen) {
                return Some(d);
            }
        }
        None
    };
    match (ua, ub) {
        (Ty::Prim(p), Ty::Prim(q)) => {
            if p != q {
                Some(("primitive".into(), format!("{path}: {} in JavaScript, {} expected", p.name(), q.name())))
            } else {
                None
            }
        }
        (Ty::Opt(x), Ty::Opt(y)) => diff_(env, x, y, &format!("{path}.opt"), seen),
        (Ty::Vec(x), Ty::Vec(y)) => diff_(env, x, y, &format!("{path}.vec"), seen),
        (Ty::Record(f), Ty::Record(g)) | (Ty::Variant(f), Ty::Variant(g)) => {
            let fi: Vec<u32> = f.iter().map(|x| x.0).collect();
            let gi: Vec<u32> = g.iter().map(|x| x.0).collect();
            if fi != gi {
                let kind = if fi.len() != gi.len() { "field-count" } else { "field-ids" };
                return Some((kind.into(), format!("{path}: {} has field ids {fi:?} in JavaScript (agent-js decoding), expected {gi:?}", ctor(ua))));
            }
            for (x, y) in f.iter().zip(g) {
                if let Some(d) = diff_(env, &x.1, &y.1, &format!("{path}.{}", x.0), seen) {
                    return Some(d);
                }
            }
            None
        }
        (Ty::Func(f), Ty::Func(g)) => {
            let mut fm = f.modes.clone();
            let mut gm = g.modes.clone();
            fm.sort();
            fm.dedup();
            gm.sort();
            gm.dedup();
            if fm != gm {
                return Some(("annotations".into(), format!("{path}: annotations {fm:?} in JavaScript, expected {gm:?}")));
            }
            list(&f.args, &g.args, "arg", seen).or_else(|| list(&f.rets, &g.rets, "ret", seen))
        }
        (Ty::Service(m), Ty::Service(n)) => {
            let mi: Vec<&String> = m.iter().map(|x| &x.0).collect();
            let ni: Vec<&String> = n.iter().map(|x| &x.0).collect();
            if mi != ni {
                let kind = if mi.len() != ni.len() { "method-count" } else { "method-names" };
                return Some((kind.into(), format!("{path}: service has methods {mi:?} in JavaScript, expected {ni:?}")));
            }
            for (x, y) in m.iter().zip(n) {
                if let Some(d) = diff_(env, &x.1, &y.1, &format!("{path}.{:?}", x.0), seen) {
                    return Some(d);
                }
            }
            None
        }
        _ => Some(("constructor".into(), format!("{path}: {} in JavaScript, {} expected", ctor(ua), ctor(ub)))),
    }
}
