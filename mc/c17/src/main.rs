//! C17 check (see /verif/DESIGN.md section 5 and /verif/mc/README-dev.md).
use mclib::engine::{catch, finish, install_quiet_panic_hook, Ctx, Report, Tier};
use serde_json::json;

fn parse_args() -> (Tier, Option<String>, Vec<String>) {
    let args: Vec<String> = std::env::args().collect();
    let mut tier = match std::env::var("VERIF_TIER").as_deref() {
        Ok("thorough") => Tier::Thorough,
        _ => Tier::Quick,
    };
    let mut replay = None;
    let mut rest = vec![];
    let mut i = 1;
    while i < args.len() {
        match args[i].as_str() {
            "--tier" => {
                i += 1;
                tier = if args.get(i).map(|s| s.as_str()) == Some("thorough") { Tier::Thorough } else { Tier::Quick };
            }
            "--replay" => {
                i += 1;
                replay = args.get(i).cloned();
            }
            o => rest.push(o.to_string()),
        }
        i += 1;
    }
    (tier, replay, rest)
}

fn main() {
    install_quiet_panic_hook();
    let (tier, replay, _rest) = parse_args();
    if let Some(path) = replay {
        let _ = path;
        eprintln!("replay not implemented yet");
        std::process::exit(2);
    }
    let ctx = Ctx::new("C17", tier, tier.pick(120, 1200));
    let mut rep = Report::new();
    let _ = catch(|| ());
    rep.sample(json!("skeleton"));
    let code = finish(&ctx, rep, "skeleton", &[], json!({}));
    std::process::exit(code);
}
