//! C17 — the generated JavaScript binding denotes the same service interface.
//! (see /verif/DESIGN.md section 5 and /verif/mc/README-dev.md)
//!
//! Subject: `candid_parser::bindings::javascript::compile(&TypeEnv, &Option<Type>)`.
//! For every program of an explicitly enumerated space the .did text is parsed and checked
//! with the real front end, compiled to JavaScript (twice: determinism), and the module text
//! is evaluated by one long-running `node /verif/js/mock_idl.js` per worker (R9: a mock of
//! the agent-js `IDL` builder). The type graph built by `idlFactory({IDL})` / `init({IDL})`
//! is converted to reference-model terms and compared (R3 structural equality) with the
//! program's denotation given by the generator (`Prog::to_model`) and, as a cross-check of
//! the harness, with the real front end's own view through the bridge.
mod families;
mod jsview;
mod names;

use candid::types::{Type, TypeEnv};
use mclib::bridge;
use mclib::engine::{catch, finish, install_quiet_panic_hook, Ctx, Report, Tier};
use mclib::progs::Prog;
use refmodel::sub;
use refmodel::ty::{Env, Ty};
use serde_json::{json, Value};
use std::collections::BTreeMap;
use std::io::{BufRead, BufReader, Write};
use std::process::{Child, ChildStdin, ChildStdout, Command, Stdio};
use std::sync::Mutex;

pub static T_PARSE: std::sync::atomic::AtomicU64 = std::sync::atomic::AtomicU64::new(0);
pub static T_BRIDGE: std::sync::atomic::AtomicU64 = std::sync::atomic::AtomicU64::new(0);
pub static T_MODEL: std::sync::atomic::AtomicU64 = std::sync::atomic::AtomicU64::new(0);
pub static T_COMPILE: std::sync::atomic::AtomicU64 = std::sync::atomic::AtomicU64::new(0);
pub static T_NODE: std::sync::atomic::AtomicU64 = std::sync::atomic::AtomicU64::new(0);
pub static T_BACK: std::sync::atomic::AtomicU64 = std::sync::atomic::AtomicU64::new(0);
fn tick(c: &std::sync::atomic::AtomicU64, t: std::time::Instant) -> std::time::Instant {
    c.fetch_add(t.elapsed().as_micros() as u64, std::sync::atomic::Ordering::Relaxed);
    std::time::Instant::now()
}
pub const MOCK: &str = "/verif/js/mock_idl.js";

pub fn machinery(msg: &str) -> ! {
    eprintln!("MACHINERY-FAILURE: {msg}");
    std::process::exit(2)
}

fn node_bin() -> String {
    if let Ok(p) = std::env::var("VERIF_NODE") {
        return p;
    }
    if std::path::Path::new("/usr/bin/node").exists() {
        "/usr/bin/node".into()
    } else {
        "node".into()
    }
}

/// One long-running evaluator process (line protocol; responses come back in request order).
/// A reader thread drains the child's stdout so that a whole batch of requests can be written
/// before the answers are collected.
pub struct Node {
    child: Child,
    inp: Option<ChildStdin>,
    rx: std::sync::mpsc::Receiver<String>,
    next_id: u64,
    pub evals: u64,
}

impl Node {
    pub fn spawn() -> Node {
        if !std::path::Path::new(MOCK).exists() {
            machinery(&format!("{MOCK} is missing"));
        }
        let mut child = match Command::new(node_bin())
            .arg(MOCK)
            .stdin(Stdio::piped())
            .stdout(Stdio::piped())
            .stderr(Stdio::inherit())
            .spawn()
        {
            Ok(c) => c,
            Err(e) => machinery(&format!("cannot start node ({}): {e}", node_bin())),
        };
        let inp = child.stdin.take();
        let out: ChildStdout = child.stdout.take().unwrap();
        let (tx, rx) = std::sync::mpsc::channel();
        std::thread::spawn(move || {
            let mut r = BufReader::new(out);
            loop {
                let mut line = String::new();
                match r.read_line(&mut line) {
                    Ok(n) if n > 0 => {
                        if tx.send(line).is_err() {
                            break;
                        }
                    }
                    _ => break,
                }
            }
        });
        Node { child, inp, rx, next_id: 0, evals: 0 }
    }
    pub fn eval(&mut self, js: &str, actor: bool) -> Value {
        self.eval_batch(&[(js, actor)]).pop().unwrap()
    }
    pub fn eval_batch(&mut self, reqs: &[(&str, bool)]) -> Vec<Value> {
        let first = self.next_id + 1;
        let mut buf = String::new();
        for (js, actor) in reqs {
            self.next_id += 1;
            self.evals += 1;
            buf.push_str(&json!({"id": self.next_id, "js": js, "actor": actor}).to_string());
            buf.push('\n');
        }
        let w = self.inp.as_mut().unwrap();
        if w.write_all(buf.as_bytes()).and_then(|_| w.flush()).is_err() {
            machinery("node evaluator died (write failed)");
        }
        let mut out = Vec::with_capacity(reqs.len());
        for k in 0..reqs.len() as u64 {
            let resp = match self.rx.recv() {
                Ok(l) => l,
                Err(_) => machinery("node evaluator died (no response)"),
            };
            let v: Value = match serde_json::from_str(&resp) {
                Ok(v) => v,
                Err(e) => machinery(&format!("node evaluator sent unparsable line: {e}: {resp}")),
            };
            if v["id"].as_u64() != Some(first + k) {
                machinery(&format!("node evaluator out of sync: expected id {}, got {}", first + k, v["id"]));
            }
            if v["stage"] == "mock" {
                machinery(&format!("mock_idl.js internal error: {}", v["message"]));
            }
            out.push(v);
        }
        out
    }
}
impl Drop for Node {
    fn drop(&mut self) {
        self.inp.take();
        let _ = self.child.wait();
    }
}

/// Evaluator processes are reused across levels (starting node costs far more than an
/// evaluation): a worker takes one from the pool and puts it back when its level ends.
static POOL: Mutex<Vec<Node>> = Mutex::new(Vec::new());
pub struct Pooled(Option<Node>);
impl Pooled {
    pub fn take() -> Pooled {
        let n = POOL.lock().unwrap().pop();
        Pooled(Some(n.unwrap_or_else(Node::spawn)))
    }
    pub fn node(&mut self) -> &mut Node {
        self.0.as_mut().unwrap()
    }
}
impl Drop for Pooled {
    fn drop(&mut self) {
        if let Some(n) = self.0.take() {
            POOL.lock().unwrap().push(n);
        }
    }
}

#[derive(Clone, Debug)]
pub struct Case {
    pub prog: Prog,
    /// print tuple-shaped records as `record { t0; t1 }` (labels become `Unnamed`)
    pub shorthand: bool,
    pub family: &'static str,
}
impl Case {
    pub fn did(&self) -> String {
        if self.shorthand {
            names::did_shorthand(&self.prog)
        } else {
            self.prog.to_did()
        }
    }
}

#[derive(Clone, Debug, PartialEq, Eq)]
pub struct Fail {
    /// failure class: SyntaxError / ReferenceError / TypeError / ... (exception name),
    /// type-differs, actor-not-service, panic, nondeterministic
    pub class: String,
    /// sub-kind with program specific names masked (part of the key)
    pub kind: String,
    pub detail: String,
}

#[derive(Default)]
pub struct Obs {
    pub rejected: Option<String>,
    pub with_actor: bool,
    pub is_class: bool,
    pub fail: Option<Fail>,
    pub js: Option<String>,
    pub resp: Option<Value>,
    pub harness: Option<String>,
    pub info: Vec<String>,
    pub compiles: u64,
    pub node_evals: u64,
}

/// mask program specific names in an engine message: 'quoted' pieces and `<id> is not defined`
pub fn mask(msg: &str) -> String {
    let mut out = String::new();
    let mut in_q = false;
    for c in msg.chars() {
        if c == '\'' {
            if in_q {
                out.push_str("_'");
            } else {
                out.push('\'');
            }
            in_q = !in_q;
        } else if !in_q {
            out.push(c);
        }
    }
    if let Some(rest) = out.strip_suffix(" is not defined") {
        if !rest.contains(' ') {
            return "_ is not defined".into();
        }
    }
    if let Some(rest) = out.strip_suffix(" is not a function") {
        if let Some((obj, prop)) = rest.split_once('.') {
            if !obj.contains(' ') && !prop.contains(' ') {
                return format!("_.{prop} is not a function");
            }
        }
    }
    out
}

fn expected_parts(env: &Env, actor: &Ty, prefix: &str) -> (Env, Ty, Vec<Ty>) {
    let f = |s: &str| format!("{prefix}{s}");
    let e = env.rename(&f);
    match actor.rename(&f) {
        Ty::Class(args, s) => (e, *s, args),
        other => (e, other, vec![]),
    }
}

/// Compare the JS view with an expectation (environment already prefixed).
fn judge(eenv: &Env, eservice: &Ty, einit: &[Ty], js: &jsview::JsView) -> Option<Fail> {
    let merged = eenv.merge_disjoint(&js.env);
    if !sub::equal(&merged, &js.service, eservice) {
        let (kind, path) = jsview::diff(&merged, &js.service, eservice, "service")
            .unwrap_or(("unknown".into(), "service".into()));
        return Some(Fail { class: "type-differs".into(), kind, detail: format!("service type built by idlFactory differs from the program's: {path}") });
    }
    if js.init.len() != einit.len() {
        return Some(Fail {
            class: "type-differs".into(),
            kind: "init-arity".into(),
            detail: format!("init returns {} types, the class has {} init args", js.init.len(), einit.len()),
        });
    }
    for (i, (j, e)) in js.init.iter().zip(einit).enumerate() {
        if !sub::equal(&merged, j, e) {
            let (kind, path) =
                jsview::diff(&merged, j, e, &format!("init[{i}]")).unwrap_or(("unknown".into(), format!("init[{i}]")));
            return Some(Fail { class: "type-differs".into(), kind, detail: format!("init arg {i} differs: {path}") });
        }
    }
    if js.root_kind != "service" {
        return Some(Fail {
            class: "actor-not-service".into(),
            kind: format!("root-is-{}", js.root_kind),
            detail: format!(
                "idlFactory returns a {} node, not the service type itself (agent-js iterates `service._fields` of the returned object)",
                js.root_kind
            ),
        });
    }
    None
}

/// What the front half of the pipeline hands to the back half.
pub struct Front {
    pub obs: Obs,
    /// present when the program reached the evaluator: (js, has actor, front end's env, actor)
    pub pending: Option<(String, bool, Env, Option<Ty>)>,
}

/// The whole pipeline for one program text. `model`: the generator's denotation (absent in
/// replay, where the front end's own view is the expectation).
pub fn pipeline(did: &str, model: Option<&(Env, Option<Ty>)>, node: &mut Node) -> Obs {
    let f = front(did, model);
    match &f.pending {
        None => f.obs,
        Some((js, actor, _, _)) => {
            let resp = node.eval(js, *actor);
            back(f, model, resp)
        }
    }
}

/// Front half: real front end, bridge view, model-vs-real consistency, compile twice.
pub fn front(did: &str, model: Option<&(Env, Option<Ty>)>) -> Front {
    let o = front_(did, model);
    match o {
        Ok((obs, js, has_actor, renv, ractor)) => Front { obs, pending: Some((js, has_actor, renv, ractor)) },
        Err(obs) => Front { obs, pending: None },
    }
}

#[allow(clippy::type_complexity)]
fn front_(did: &str, model: Option<&(Env, Option<Ty>)>) -> Result<(Obs, String, bool, Env, Option<Ty>), Obs> {
    let mut o = Obs::default();
    let tt = std::time::Instant::now();
    // --- real front end
    let parsed = catch(|| did.parse::<candid_parser::IDLProg>());
    let ast = match parsed {
        Ok(Ok(a)) => a,
        Ok(Err(e)) => {
            o.rejected = Some(format!("parse: {e}"));
            return Err(o);
        }
        Err(p) => {
            o.rejected = Some(format!("parse panicked: {p}"));
            return Err(o);
        }
    };
    let mut te = TypeEnv::new();
    let checked = catch(|| candid_parser::check_prog(&mut te, &ast));
    let actor: Option<Type> = match checked {
        Ok(Ok(a)) => a,
        Ok(Err(e)) => {
            o.rejected = Some(format!("check: {e}"));
            return Err(o);
        }
        Err(p) => {
            o.rejected = Some(format!("check panicked: {p}"));
            return Err(o);
        }
    };
    o.with_actor = actor.is_some();
    let tt = tick(&T_PARSE, tt);
    // --- the front end's own view through the bridge
    let renv = match bridge::from_real_env(&te) {
        Ok(e) => e,
        Err(e) => {
            o.harness = Some(format!("bridge::from_real_env: {e}"));
            return Err(o);
        }
    };
    let mut knots = Env::new();
    let ractor = match actor.as_ref().map(|a| bridge::from_real_ty(a, &mut knots)).transpose() {
        Ok(a) => a,
        Err(e) => {
            o.harness = Some(format!("bridge::from_real_ty(actor): {e}"));
            return Err(o);
        }
    };
    o.is_class = matches!(ractor, Some(Ty::Class(..)));
    let tt = tick(&T_BRIDGE, tt);
    // --- model vs real (harness consistency)
    if let Some((menv, mactor)) = model {
        let merged = menv.rename(&|s| format!("m.{s}")).merge_disjoint(&renv.rename(&|s| format!("r.{s}")));
        for (k, t) in &menv.0 {
            match renv.0.get(k) {
                None => {
                    o.harness = Some(format!("definition {k} missing in the checked environment"));
                    return Err(o);
                }
                Some(rt) => {
                    if !sub::equal(&merged, &t.rename(&|s| format!("m.{s}")), &rt.rename(&|s| format!("r.{s}"))) {
                        o.harness = Some(format!("definition {k}: generator model and front end disagree"));
                        return Err(o);
                    }
                }
            }
        }
        match (mactor, &ractor) {
            (None, None) => {}
            (Some(m), Some(r)) => {
                if !sub::equal(&merged, &m.rename(&|s| format!("m.{s}")), &r.rename(&|s| format!("r.{s}"))) {
                    o.harness = Some("actor: generator model and front end disagree".into());
                    return Err(o);
                }
                if matches!(m, Ty::Class(..)) != matches!(r, Ty::Class(..)) {
                    o.harness = Some("actor: class-ness differs between model and front end".into());
                    return Err(o);
                }
            }
            _ => {
                o.harness = Some("actor presence differs between model and front end".into());
                return Err(o);
            }
        }
    }
    let tt = tick(&T_MODEL, tt);
    // --- subject: compile twice
    let c1 = catch(|| candid_parser::bindings::javascript::compile(&te, &actor));
    let c2 = catch(|| candid_parser::bindings::javascript::compile(&te, &actor));
    o.compiles = 2;
    let js = match (c1, c2) {
        (Ok(a), Ok(b)) => {
            if a != b {
                o.js = Some(a);
                o.fail = Some(Fail { class: "nondeterministic".into(), kind: "two-compiles-differ".into(), detail: "two compile calls on the same input returned different text".into() });
                return Err(o);
            }
            a
        }
        (Err(p), _) | (_, Err(p)) => {
            let loc = p.rsplit(" @ ").next().unwrap_or("").to_string();
            o.fail = Some(Fail { class: "panic".into(), kind: loc, detail: format!("javascript::compile panicked: {p}") });
            return Err(o);
        }
    };
    tick(&T_COMPILE, tt);
    o.js = Some(js.clone());
    Ok((o, js, actor.is_some(), renv, ractor))
}

/// Back half: interpret the evaluator's answer.
pub fn back(f: Front, model: Option<&(Env, Option<Ty>)>, resp: Value) -> Obs {
    let mut o = f.obs;
    let (_js, has_actor, renv, ractor) = f.pending.unwrap();
    o.node_evals = 1;
    o.resp = Some(resp.clone());
    if resp["ok"] != true {
        let name = resp["name"].as_str().unwrap_or("Unknown").to_string();
        let msg = resp["message"].as_str().unwrap_or("").to_string();
        let stage = resp["stage"].as_str().unwrap_or("?");
        let class = if stage == "result" { "result-not-a-type".to_string() } else { name.clone() };
        o.fail = Some(Fail { class, kind: mask(&msg), detail: format!("{name} at stage {stage}: {msg}") });
        return o;
    }
    if !has_actor {
        if let Some(n) = resp["run"]["name"].as_str() {
            o.info.push(format!("noactor-run:{n}"));
        }
        return o;
    }
    let view = match jsview::to_view(&resp) {
        Ok(v) => v,
        Err((kind, detail)) => {
            o.fail = Some(Fail { class: "type-differs".into(), kind, detail });
            return o;
        }
    };
    o.info.extend(view.info.iter().cloned());
    let ractor = ractor.unwrap();
    let (eenv, esvc, einit) = expected_parts(&renv, &ractor, "r.");
    let by_real = judge(&eenv, &esvc, &einit, &view);
    if let Some((menv, Some(mactor))) = model {
        let (eenv, esvc, einit) = expected_parts(menv, mactor, "m.");
        let by_model = judge(&eenv, &esvc, &einit, &view);
        let same = match (&by_model, &by_real) {
            (None, None) => true,
            (Some(a), Some(b)) => a.class == b.class && a.kind == b.kind,
            _ => false,
        };
        if !same {
            o.harness = Some(format!("verdict against the generator model ({by_model:?}) differs from the verdict against the front end's view ({by_real:?})"));
            return o;
        }
        o.fail = by_model;
    } else {
        o.fail = by_real;
    }
    o
}

#[derive(Clone)]
struct Failure {
    case: Case,
    did: String,
    fail: Fail,
    js: Option<String>,
    resp: Option<Value>,
}

fn parse_args() -> (Tier, Option<String>, Vec<String>) {
    let args: Vec<String> = std::env::args().collect();
    let mut tier = match std::env::var("VERIF_TIER").as_deref() {
        Ok("thorough") => Tier::Thorough,
        _ => Tier::Quick,
    };
    let mut replay = None;
    let mut rest = vec![];
    let mut i = 1;
    while i < args.len() {
        match args[i].as_str() {
            "--tier" => {
                i += 1;
                tier = if args.get(i).map(|s| s.as_str()) == Some("thorough") { Tier::Thorough } else { Tier::Quick };
            }
            "--replay" => {
                i += 1;
                replay = args.get(i).cloned();
            }
            o => rest.push(o.to_string()),
        }
        i += 1;
    }
    (tier, replay, rest)
}

fn check_node_available() {
    match Command::new(node_bin()).arg("--version").output() {
        Ok(o) if o.status.success() => {}
        Ok(o) => machinery(&format!("`node --version` failed: {}", String::from_utf8_lossy(&o.stderr))),
        Err(e) => machinery(&format!("node is not available ({}): {e}", node_bin())),
    }
    if !std::path::Path::new(MOCK).exists() {
        machinery(&format!("{MOCK} is missing"));
    }
}

fn replay(path: &str) -> i32 {
    let body = match std::fs::read_to_string(path) {
        Ok(b) => b,
        Err(e) => machinery(&format!("cannot read {path}: {e}")),
    };
    let v: Value = match serde_json::from_str(&body) {
        Ok(v) => v,
        Err(e) => machinery(&format!("cannot parse {path}: {e}")),
    };
    let case = if v.get("case").is_some() { &v["case"] } else { &v };
    let Some(did) = case["did"].as_str() else { machinery("replay file has no case.did") };
    let want = case["class"].as_str().unwrap_or("");
    let mut node = Node::spawn();
    let o1 = pipeline(did, None, &mut node);
    let o2 = pipeline(did, None, &mut node);
    println!("--- program\n{did}");
    if let Some(js) = &o1.js {
        println!("--- generated JavaScript\n{js}");
    }
    if let Some(r) = &o1.rejected {
        println!("NOT-REPRODUCED: the front end rejects the program: {r}");
        return 0;
    }
    if let Some(h) = &o1.harness {
        machinery(&format!("harness inconsistency during replay: {h}"));
    }
    if o1.fail != o2.fail {
        println!("UNSTABLE: two runs observed {:?} and {:?}", o1.fail, o2.fail);
        return 1;
    }
    match &o1.fail {
        Some(f) => {
            let same = want.is_empty() || want == f.class;
            println!(
                "REPRODUCED property=C17 class={} kind={} :: {}{}",
                f.class,
                f.kind,
                f.detail,
                if same { String::new() } else { format!(" (recorded class was {want})") }
            );
            1
        }
        None => {
            println!("NOT-REPRODUCED: the generated JavaScript evaluates to the program's interface");
            0
        }
    }
}

/// Vacuity guard of the oracle itself: hand-made mutations of a correct generated module must
/// all be reported with the expected failure class/kind; otherwise the harness is broken.
fn mutation_controls(node: &mut Node) -> u64 {
    let did = "type t = opt record { a : nat; 1 : t };\nservice : (t, text) -> { m : (t, nat) -> (text) query; n : () -> () }\n";
    let base = front(did, None);
    let Some((js, _, _, _)) = base.pending.clone() else { machinery("mutation control: the control program did not compile") };
    let resp = node.eval(&js, true);
    let o = back(base, None, resp);
    if o.fail.is_some() || o.harness.is_some() {
        machinery(&format!("mutation control: the unmodified control program is reported as failing: {:?}", o.fail));
    }
    let muts: [(&str, &str, &str, &str); 13] = [
        ("['query']", "[]", "type-differs", "annotations"),
        ("[IDL.Text], ['query']", "[IDL.Int], ['query']", "type-differs", "primitive"),
        ("'a' : IDL.Nat", "'b' : IDL.Nat", "type-differs", "field-ids"),
        ("[t, IDL.Nat]", "[IDL.Nat, t]", "type-differs", ""),
        ("'n' : IDL.Func", "'nn' : IDL.Func", "type-differs", "method-names"),
        ("return [t, IDL.Text];", "return [IDL.Text, t];", "type-differs", ""),
        ("return [t, IDL.Text];", "return [t];", "type-differs", "init-arity"),
        ("_1_ : t", "_2_ : t", "type-differs", "field-ids"),
        ("IDL.Opt(IDL.Record", "IDL.Vec(IDL.Record", "type-differs", "constructor"),
        ("    'n' : IDL.Func([], [], []),\n", "", "type-differs", "method-count"),
        ("  t.fill(IDL.Opt(IDL.Record({ _1_ : t, 'a' : IDL.Nat })));\n  return IDL.Service", "  return IDL.Service", "type-differs", "rec-unfilled"),
        ("export const init", "export const inti", "ReferenceError", ""),
        ("return IDL.Service({", "return IDL.Opt(IDL.Service({", "SyntaxError", ""),
    ];
    let mut n = 0;
    for (pat, rep, class, kind) in muts {
        if !js.contains(pat) {
            machinery(&format!("mutation control: pattern {pat:?} not found in the generated module (output format changed?)\n{js}"));
        }
        let mutated = js.replacen(pat, rep, 1);
        let resp = node.eval(&mutated, true);
        let o = back(front(did, None), None, resp);
        match &o.fail {
            Some(f) if f.class == class && (kind.is_empty() || f.kind == kind) => n += 1,
            other => machinery(&format!("mutation control: {pat:?} -> {rep:?} expected {class}/{kind}, observed {other:?}")),
        }
    }
    n
}

/// hidden helper: `c17 --emit file.did` prints the generated JS and the mock's answer
fn emit(path: &str) -> i32 {
    let did = std::fs::read_to_string(path).unwrap_or_else(|e| machinery(&format!("{path}: {e}")));
    let mut node = Node::spawn();
    let o = pipeline(&did, None, &mut node);
    println!("rejected={:?}\nfail={:?}\ninfo={:?}\n--- js\n{}\n--- resp\n{}", o.rejected, o.fail, o.info, o.js.unwrap_or_default(), o.resp.unwrap_or(Value::Null));
    0
}

fn main() {
    install_quiet_panic_hook();
    let (tier, replay_file, rest) = parse_args();
    check_node_available();
    if let Some(path) = replay_file {
        std::process::exit(replay(&path));
    }
    if rest.len() == 2 && rest[0] == "--emit" {
        std::process::exit(emit(&rest[1]));
    }
    let ctx = Ctx::new("C17", tier, tier.pick(240, 900));
    let mut rep = Report::new();
    let failures: Mutex<Vec<Failure>> = Mutex::new(vec![]);
    let harness: Mutex<Vec<String>> = Mutex::new(vec![]);
    let rejected: Mutex<BTreeMap<String, (u64, String)>> = Mutex::new(BTreeMap::new());

    let controls = {
        let mut p = Pooled::take();
        mutation_controls(p.node())
    };
    let alpha = names::Alphabets::probe();
    let fams = families::all(tier, &alpha);
    let mut fam_stats = vec![];
    let mut total_programs = 0u64;
    let only = std::env::var("C17_ONLY").ok();
    for (fname, gen) in fams {
        if let Some(o) = &only {
            if o != fname {
                continue;
            }
        }
        let t0 = std::time::Instant::now();
        if ctx.timed_out() {
            rep.level(fname, 0, false);
            rep.notes.push(format!("family {fname}: not started (wall cap)"));
            continue;
        }
        let cases: Vec<Case> = gen();
        let n = cases.len() as u64;
        total_programs += n;
        const BATCH: u64 = 64;
        let record = |case: &Case, did: String, o: Obs, rep: &mut Report| {
            rep.evaluations += 1;
            rep.states += 1;
            rep.count("programs", 1);
            rep.count("compile_calls", o.compiles);
            rep.count("node_evaluations", o.node_evals);
            rep.transitions += o.compiles + o.node_evals;
            let fam = case.family;
            if let Some(h) = o.harness {
                rep.outcome(&format!("{fam}:HARNESS"));
                let mut hs = harness.lock().unwrap();
                if hs.len() < 20 {
                    hs.push(format!("[{fam}] {h}\n{did}"));
                }
                return;
            }
            if let Some(r) = o.rejected {
                rep.count("frontend_rejected", 1);
                rep.outcome(&format!("{fam}:frontend-rejected"));
                let mut rj = rejected.lock().unwrap();
                let e = rj.entry(fam.to_string()).or_insert((0, format!("{r} :: {did}")));
                e.0 += 1;
                return;
            }
            if o.with_actor {
                rep.count("programs_with_actor", 1);
                if o.is_class {
                    rep.count("programs_with_class_actor", 1);
                }
            }
            for i in &o.info {
                rep.count(&format!("info:{i}"), 1);
            }
            rep.traces_validated += 1;
            match o.fail {
                None => {
                    if o.with_actor && !case.prog.defs.is_empty() {
                        rep.nontrivial += 1;
                    }
                    let cls = if !o.with_actor {
                        "ok-noactor-valid-js"
                    } else if o.is_class {
                        "ok-class-equal"
                    } else {
                        "ok-service-equal"
                    };
                    rep.outcome(&format!("{fam}:{cls}"));
                }
                Some(f) => {
                    rep.outcome(&format!("{fam}:{}", f.class));
                    rep.count("failing_programs", 1);
                    failures.lock().unwrap().push(Failure { case: case.clone(), did, fail: f, js: o.js, resp: o.resp });
                }
            }
        };
        type Pending = Vec<(usize, String, (Env, Option<Ty>), Front)>;
        let r = ctx.par_range(
            fname,
            n,
            BATCH,
            || (Pooled::take(), Pending::new()),
            |st, i, rep| {
                let (pooled, pending) = st;
                let node = pooled.node();
                let case = &cases[i as usize];
                let did = case.did();
                let model = case.prog.to_model();
                let f = front(&did, Some(&model));
                pending.push((i as usize, did, model, f));
                // par_range hands out whole chunks of BATCH consecutive indices to one worker
                if (i + 1) % BATCH != 0 && i + 1 != n {
                    return;
                }
                let reqs: Vec<(&str, bool)> = pending.iter().filter_map(|p| p.3.pending.as_ref().map(|(js, a, _, _)| (js.as_str(), *a))).collect();
                let tt = std::time::Instant::now();
                let mut resps = node.eval_batch(&reqs).into_iter();
                let tt = tick(&T_NODE, tt);
                for (idx, did, model, f) in pending.drain(..) {
                    let o = if f.pending.is_some() { back(f, Some(&model), resps.next().unwrap()) } else { f.obs };
                    record(&cases[idx], did, o, rep);
                }
                tick(&T_BACK, tt);
            },
        );
        if std::env::var("C17_TIMING").is_ok() {
            let g = |c: &std::sync::atomic::AtomicU64| c.swap(0, std::sync::atomic::Ordering::Relaxed) / 1000;
            eprintln!("family {fname}: {n} programs in {:.2}s  [cpu ms: parse+check {} bridge {} model-eq {} compile {} node {} back {}]", t0.elapsed().as_secs_f64(), g(&T_PARSE), g(&T_BRIDGE), g(&T_MODEL), g(&T_COMPILE), g(&T_NODE), g(&T_BACK));
        }
        fam_stats.push(json!({"family": fname, "programs": n}));
        rep.merge(r);
    }

    let hs = harness.into_inner().unwrap();
    if !hs.is_empty() {
        for h in &hs {
            eprintln!("HARNESS-INCONSISTENCY: {h}");
        }
        machinery("the generator model, the front end's view and the mock conversion disagree (see above)");
    }
    for (fam, (n, ex)) in rejected.into_inner().unwrap() {
        rep.notes.push(format!("family {fam}: {n} generated programs rejected by the front end (outside the domain), e.g. {ex}"));
    }

    // ---- attribute every failing program to the names that trigger it, pick minimal programs
    let mut fl = failures.into_inner().unwrap();
    fl.sort_by(|a, b| (a.did.len(), &a.did, a.case.family).cmp(&(b.did.len(), &b.did, b.case.family)));
    fl.dedup_by(|a, b| a.did == b.did);
    let keyed: Mutex<Vec<(usize, String, names::Attribution, bool)>> = Mutex::new(vec![]);
    // every failing program must end in a verdict, also when the exploration above ran into its wall cap: the
    // attribution phase has a clock of its own (and looks at the 600 smallest failing programs, which carry the
    // minimal witnesses of every failure class; the others are counted)
    if fl.len() > 600 {
        rep.notes.push(format!("{} failing programs; attribution on the 600 smallest", fl.len()));
        fl.truncate(600);
    }
    let nfail = fl.len() as u64;
    let actx = Ctx::new("C17", tier, 3600);
    let r = actx.par_range("attribution-and-recheck", nfail, 8, Pooled::take, |pooled, i, rep| {
        let node = pooled.node();
        let f = &fl[i as usize];
        // same input once more => same observation
        let again = pipeline(&f.did, Some(&f.case.prog.to_model()), node);
        rep.count("node_evaluations", again.node_evals);
        rep.count("compile_calls", again.compiles);
        let stable = again.fail.as_ref() == Some(&f.fail);
        let at = names::attribute(&f.case, &f.fail, &f.js, &f.resp, node);
        rep.count("node_evaluations", at.runs);
        rep.count("compile_calls", 2 * at.runs);
        rep.count("attribution_runs", at.runs);
        let key = if at.triggers.is_empty() {
            format!("{}|{}|prog={}", at.min_fail.class, at.min_fail.kind, at.min.did())
        } else {
            format!("{}|{}|{}", at.min_fail.class, at.min_fail.kind, at.triggers.join(","))
        };
        keyed.lock().unwrap().push((i as usize, key, at, stable));
    });
    rep.merge(r);
    let mut keyed = keyed.into_inner().unwrap();
    keyed.sort_by(|a, b| a.0.cmp(&b.0));
    let mut seen_keys: BTreeMap<String, u64> = BTreeMap::new();
    let mut groups: BTreeMap<String, (u64, u64)> = BTreeMap::new();
    for (i, key, at, stable) in &keyed {
        let f = &fl[*i];
        if !stable {
            rep.violation(
                &format!("unstable|{}", f.did),
                "the same program gave two different observations".into(),
                json!({"did": f.did, "class": "unstable"}),
            );
            continue;
        }
        let roles: Vec<&str> = at.triggers.iter().map(|t| t.split(':').next().unwrap_or("")).collect();
        let g = groups.entry(format!("{}|{}|{}", at.min_fail.class, at.min_fail.kind, roles.join(","))).or_insert((0, 0));
        g.1 += 1;
        let c = seen_keys.entry(key.clone()).or_insert(0);
        *c += 1;
        if *c > 1 {
            // same failure class, same triggering names: the smaller program was recorded
            continue;
        }
        g.0 += 1;
        let did = at.min.did();
        let resp = at.min_resp.clone().unwrap_or(Value::Null);
        rep.violation(
            key,
            format!("{} [{}] minimal program: {}", at.min_fail.detail, at.min_fail.class, did.replace('\n', " ")),
            json!({
                "did": did,
                "class": at.min_fail.class,
                "kind": at.min_fail.kind,
                "detail": at.min_fail.detail,
                "triggering_names": at.triggers,
                "smallest_generated_program": f.did,
                "family": f.case.family,
                "js": at.min_js,
                "node_response": if resp["ok"] == true { resp.clone() } else { json!({"stage": resp["stage"], "name": resp["name"], "message": resp["message"]}) },
            }),
        );
    }
    // violation_count counts distinct keys here; the number of failing programs is a counter
    rep.violation_count = rep.violations.len() as u64;
    let per_key: Vec<Value> = seen_keys.iter().map(|(k, n)| json!({"key": k, "failing_programs": n})).collect();

    rep.sample(json!({"did": "type class = service {}; service : class", "expect": "idlFactory returns a service with no methods"}));
    rep.sample(json!({"did": "type t = opt record { 0 : nat; 1 : t }; service : (t) -> { m : () -> () }", "expect": "init returns [t] with t recursive, reachable only from init"}));
    let rule = "for every generated well-formed program: parse+check with the real front end, javascript::compile twice (identical, no panic); programs without actor: output is syntactically valid strict-mode JS; programs with actor: node evaluates the module against the mock IDL, no exception, idlFactory's result is the service type itself and is R3-equal to the program's service, init returns the class's init arg types in order (R3-equal each); object keys decoded as agent-js does (_N_ => id N, else Candid hash). non-trivial = actor present and at least one definition";
    let assumptions = [
        "R9: /verif/js/mock_idl.js mirrors the agent-js IDL surface used by the generator (constructors, Rec.fill/getType, Object.entries on field objects, Tuple => _i_ keys, idlLabelToId key decoding); agent-js semantics beyond type construction are out of scope",
        "module text is evaluated as strict-mode script code after rewriting `export const` at line starts to `const` (module-only reserved word `await` is then an ordinary identifier)",
        "the generator model (Prog::to_model) and the real front end's view agree on every program (checked for every program; disagreement is a machinery failure)",
        "programs without an actor: only syntactic validity is required; their run-time behaviour is counted for information",
    ];
    let extra = json!({
        "programs": total_programs,
        "oracle_mutation_controls_detected": controls,
        "families": fam_stats,
        "failing_programs_distinct": nfail,
        "failing_programs_per_key": per_key,
        "failure_groups_by_class_kind_and_trigger_roles": groups.iter().map(|(k, (keys, progs))| json!({"group": k, "distinct_keys": keys, "failing_programs": progs})).collect::<Vec<_>>(),
        "def_name_alphabet": alpha.def_names.len(),
        "label_alphabet": alpha.labels.len(),
        "names_rejected_by_frontend_as_definition_names": alpha.rejected_defs,
    });
    POOL.lock().unwrap().clear();
    // replay files of earlier runs of this property are stale once this run reports
    if let Ok(rd) = std::fs::read_dir("/verif/replays/C17") {
        for e in rd.flatten() {
            if e.path().extension().map(|x| x == "json").unwrap_or(false) {
                let _ = std::fs::remove_file(e.path());
            }
        }
    }
    println!(
        "C17-COUNTS programs={} with_actor={} class_actors={} frontend_rejected={} node_evaluations={} compile_calls={} failing_programs={} distinct_failing_programs={} violation_keys={} outcome_classes={}",
        rep.counters.get("programs").copied().unwrap_or(0),
        rep.counters.get("programs_with_actor").copied().unwrap_or(0),
        rep.counters.get("programs_with_class_actor").copied().unwrap_or(0),
        rep.counters.get("frontend_rejected").copied().unwrap_or(0),
        rep.counters.get("node_evaluations").copied().unwrap_or(0),
        rep.counters.get("compile_calls").copied().unwrap_or(0),
        rep.counters.get("failing_programs").copied().unwrap_or(0),
        nfail,
        rep.violations.len(),
        rep.outcomes.len()
    );
    let code = finish(&ctx, rep, rule, &assumptions, extra);
    std::process::exit(code);
}
