//! Name alphabets (written from the ECMAScript lexical grammar and the agent-js key
//! conventions, not from the generator's own keyword table), a printer with tuple shorthand,
//! well-formedness of generated programs, renaming, and the attribution of a failure to the
//! names that trigger it.
use crate::{pipeline, Case, Fail, Node};
use mclib::progs::{self, text_lit, PActor, PFunc, PLabel, PTy, Prog};
use std::collections::BTreeSet;

/// ECMAScript 2023, 12.7.2: reserved words (always), incl. `await`/`yield`, null/true/false.
pub const JS_RESERVED: &[&str] = &[
    "await", "break", "case", "catch", "class", "const", "continue", "debugger", "default", "delete", "do", "else",
    "enum", "export", "extends", "false", "finally", "for", "function", "if", "import", "in", "instanceof", "new",
    "null", "return", "super", "switch", "this", "throw", "true", "try", "typeof", "var", "void", "while", "with",
    "yield",
];
/// reserved in strict mode code (modules are strict)
pub const JS_STRICT_RESERVED: &[&str] = &["implements", "interface", "let", "package", "private", "protected", "public", "static"];
/// may not be bound in strict mode code
pub const JS_RESTRICTED: &[&str] = &["eval", "arguments"];
/// ES3 future reserved words (legal identifiers today)
pub const JS_OLD_RESERVED: &[&str] = &[
    "abstract", "boolean", "byte", "char", "double", "final", "float", "goto", "int", "long", "native", "short",
    "synchronized", "throws", "transient", "volatile",
];
/// contextual keywords, well-known globals and property names, and names the generated module
/// itself uses
pub const JS_SPECIAL: &[&str] = &[
    "async", "of", "get", "set", "target", "from", "as", "undefined", "NaN", "Infinity", "globalThis", "Object", "Function",
    "Array", "Symbol", "Proxy", "Reflect", "JSON", "Math", "Error", "constructor", "prototype", "__proto__", "toString",
    "valueOf", "hasOwnProperty", "then", "IDL", "idlFactory", "init", "Rec", "fill", "getType", "exports", "module",
    "require", "process", "_", "__", "$", "A", "a", "t", "T_", "_a", "a1", "class_", "return_", "IDL_",
];

/// Field / tag / method names aimed at key quoting and agent-js key decoding.
pub fn extra_labels() -> Vec<String> {
    [
        // agent-js spelling of numeric ids
        "_0_", "_1_", "_2_", "_7_", "_123_", "_007_", "_4294967295_", "_4294967296_", "_99999999999999999999_", "_-1_", "_1", "1_",
        "_a_", "__", "_", "___", "_1__", "__1_", "_1_2_", "_\u{661}_", "_0x10_", "_1e3_", " _1_", "_1_ ",
        // numeric-looking names (integer-index object keys are reordered by JS engines)
        "0", "1", "2", "10", "42", "007", "4294967295", "4294967296", "-1", "1.5", "0x10", "1e3", "1a", "9007199254740993",
        // quoting
        "", " ", "a b", "a'b", "'", "''", "\"", "a\"b", "\\", "\\\\", "\\'", "a\\", "\\n", "\\u0041", "\\x41", "\\u{41}", "`", "${x}",
        "*/", "/*", "//", "</script>", "a\nb", "a\tb", "a\rb", "\r\n", "\u{0}", "\u{0}1", "a\u{0}7", "\u{0}8", "\u{0}a", "\u{1}", "\u{8}", "\u{b}",
        "\u{c}", "\u{1b}", "\u{7f}", "\u{80}", "\u{85}", "\u{a0}", "\u{2028}", "\u{2029}", "\u{feff}", "\u{200b}", "\u{200d}", "\u{301}",
        "e\u{301}", "\u{e9}", "\u{1f600}", "\u{10ffff}", "\u{fffd}", "\u{ffff}", "\u{d7ff}", "\u{e000}", "\u{3b1}\u{3b2}", "\u{4e2d}\u{6587}",
        // property names with special meaning on JavaScript objects
        "__proto__", "constructor", "prototype", "toString", "valueOf", "hasOwnProperty", "__defineGetter__", "then", "length", "name",
        "fill", "getType", "k", "_fields",
    ]
    .iter()
    .map(|s| s.to_string())
    .collect()
}

pub struct Alphabets {
    /// names the front end accepts as definition names (and resolves as type variables)
    pub def_names: Vec<String>,
    pub rejected_defs: Vec<String>,
    /// names that are JavaScript keywords of some sort (subset of def_names)
    pub js_names: Vec<String>,
    /// label / method name alphabet
    pub labels: Vec<String>,
}

impl Alphabets {
    /// The front end defines the domain: a candidate definition name is kept when
    /// `type N = nat; service : { m : (N) -> () }` checks and the argument is the variable N.
    pub fn probe() -> Alphabets {
        let mut cands: Vec<String> = vec![];
        let push = |v: &mut Vec<String>, s: &str| {
            if !v.iter().any(|x| x == s) {
                v.push(s.to_string());
            }
        };
        for s in JS_RESERVED.iter().chain(JS_STRICT_RESERVED).chain(JS_RESTRICTED).chain(JS_OLD_RESERVED).chain(JS_SPECIAL) {
            push(&mut cands, s);
        }
        let njs = cands.len();
        for s in progs::def_names() {
            push(&mut cands, &s);
        }
        let mut def_names = vec![];
        let mut js_names = vec![];
        let mut rejected_defs = vec![];
        for (i, n) in cands.iter().enumerate() {
            let src = format!("type {n} = nat; service : {{ m : ({n}) -> () }}");
            let ok = mclib::engine::catch(|| {
                let ast: candid_parser::IDLProg = src.parse().ok()?;
                let mut te = candid::TypeEnv::new();
                let actor = candid_parser::check_prog(&mut te, &ast).ok()??;
                let s = te.as_service(&actor).ok()?;
                let f = te.as_func(&s[0].1).ok()?;
                match f.args[0].as_ref() {
                    candid::types::TypeInner::Var(v) if v == n => Some(()),
                    _ => None,
                }
            });
            if matches!(ok, Ok(Some(()))) {
                def_names.push(n.clone());
                if i < njs {
                    js_names.push(n.clone());
                }
            } else {
                rejected_defs.push(n.clone());
            }
        }
        let mut labels: Vec<String> = vec![];
        for s in progs::hostile_names().into_iter().chain(extra_labels()).chain(progs::escape_pair_names()) {
            if !labels.contains(&s) {
                labels.push(s);
            }
        }
        for s in JS_RESERVED.iter().chain(JS_STRICT_RESERVED).chain(JS_RESTRICTED).chain(JS_OLD_RESERVED) {
            if !labels.iter().any(|x| x == s) {
                labels.push(s.to_string());
            }
        }
        Alphabets { def_names, rejected_defs, js_names, labels }
    }
}

// ---------------------------------------------------------------------------------------
// printer with tuple shorthand (`record { nat; text }` gives Unnamed labels in the front end)

fn is_tuple_shape(fs: &[(PLabel, PTy)]) -> bool {
    !fs.is_empty() && fs.iter().enumerate().all(|(i, f)| f.0 == PLabel::Id(i as u32))
}
fn label_did(l: &PLabel) -> String {
    match l {
        PLabel::Id(n) => n.to_string(),
        PLabel::Named(s) => text_lit(s),
    }
}
fn ty_did(t: &PTy) -> String {
    match t {
        PTy::Prim(p) => p.name().to_string(),
        PTy::Var(v) => v.clone(),
        PTy::Opt(t) => format!("opt {}", ty_did(t)),
        PTy::Vec(t) => format!("vec {}", ty_did(t)),
        PTy::Blob => "blob".into(),
        PTy::Record(fs) if is_tuple_shape(fs) => format!("record {{ {} }}", fs.iter().map(|f| ty_did(&f.1)).collect::<Vec<_>>().join("; ")),
        PTy::Record(fs) => format!("record {{ {} }}", fields_did(fs)),
        PTy::Variant(fs) => format!("variant {{ {} }}", fields_did(fs)),
        PTy::Func(f) => format!("func {}", func_did(f)),
        PTy::Service(ms) => format!("service {{ {} }}", meths_did(ms)),
    }
}
fn fields_did(fs: &[(PLabel, PTy)]) -> String {
    fs.iter().map(|(l, t)| format!("{} : {}", label_did(l), ty_did(t))).collect::<Vec<_>>().join("; ")
}
fn args_did(a: &[(Option<String>, PTy)]) -> String {
    format!(
        "({})",
        a.iter()
            .map(|(n, t)| match n {
                Some(n) => format!("{} : {}", n, ty_did(t)),
                None => ty_did(t),
            })
            .collect::<Vec<_>>()
            .join(", ")
    )
}
fn func_did(f: &PFunc) -> String {
    let mut s = format!("{} -> {}", args_did(&f.args), args_did(&f.rets));
    for m in &f.modes {
        s.push(' ');
        s.push_str(m.name());
    }
    s
}
fn meths_did(ms: &[(String, PTy)]) -> String {
    ms.iter()
        .map(|(n, t)| match t {
            PTy::Func(f) => format!("{} : {}", text_lit(n), func_did(f)),
            other => format!("{} : {}", text_lit(n), ty_did(other)),
        })
        .collect::<Vec<_>>()
        .join("; ")
}
pub fn did_shorthand(p: &Prog) -> String {
    let mut s = String::new();
    for (n, t) in &p.defs {
        s.push_str(&format!("type {} = {};\n", n, ty_did(t)));
    }
    if let Some(a) = &p.actor {
        let name = p.actor_name.as_ref().map(|n| format!(" {n}")).unwrap_or_default();
        let body = |t: &PTy| match t {
            PTy::Service(ms) => format!("{{ {} }}", meths_did(ms)),
            other => ty_did(other),
        };
        match a {
            PActor::Service(t) => s.push_str(&format!("service{name} : {}\n", body(t))),
            PActor::Class(args, t) => s.push_str(&format!("service{name} : {} -> {}\n", args_did(args), body(t))),
        }
    }
    s
}

// ---------------------------------------------------------------------------------------
// well-formedness of a generated program (what "by construction" has to guarantee)

fn wf_ty(t: &PTy, defs: &BTreeSet<&str>) -> bool {
    match t {
        PTy::Var(v) => defs.contains(v.as_str()),
        PTy::Record(fs) | PTy::Variant(fs) => {
            let mut ids = BTreeSet::new();
            fs.iter().all(|f| ids.insert(f.0.id()) && wf_ty(&f.1, defs))
        }
        PTy::Service(ms) => {
            let mut ns = BTreeSet::new();
            ms.iter().all(|m| ns.insert(m.0.as_str()) && matches!(m.1, PTy::Func(_) | PTy::Var(_)) && wf_ty(&m.1, defs))
        }
        other => other.children().iter().all(|c| wf_ty(c, defs)),
    }
}
pub fn wf(p: &Prog) -> bool {
    let mut defs = BTreeSet::new();
    for d in &p.defs {
        if !defs.insert(d.0.as_str()) {
            return false;
        }
    }
    if !p.defs.iter().all(|d| wf_ty(&d.1, &defs)) {
        return false;
    }
    match &p.actor {
        None => true,
        Some(PActor::Service(t)) => wf_ty(t, &defs),
        Some(PActor::Class(a, t)) => a.iter().all(|x| wf_ty(&x.1, &defs)) && wf_ty(t, &defs),
    }
}

// ---------------------------------------------------------------------------------------
// names of a program and renaming

pub struct Occ(Vec<NameRef>);
impl Occ {
    fn insert(&mut self, r: NameRef) {
        if !self.0.contains(&r) {
            self.0.push(r);
        }
    }
}

#[derive(Clone, Debug, PartialEq, Eq, PartialOrd, Ord)]
pub enum NameRef {
    Def(String),
    Label(String),
    LabelId(u32),
    Meth(String),
    ArgName(String),
    ActorName(String),
}
impl NameRef {
    pub fn show(&self) -> String {
        match self {
            NameRef::Def(s) => format!("def:{s}"),
            NameRef::Label(s) => format!("label:{}", text_lit(s)),
            NameRef::LabelId(n) => format!("label-id:{n}"),
            NameRef::Meth(s) => format!("method:{}", text_lit(s)),
            NameRef::ArgName(s) => format!("arg-name:{s}"),
            NameRef::ActorName(s) => format!("actor-name:{s}"),
        }
    }
}

fn names_ty(t: &PTy, out: &mut Occ) {
    match t {
        PTy::Record(fs) | PTy::Variant(fs) => {
            for f in fs {
                out.insert(match &f.0 {
                    PLabel::Id(n) => NameRef::LabelId(*n),
                    PLabel::Named(s) => NameRef::Label(s.clone()),
                });
            }
        }
        PTy::Service(ms) => {
            for m in ms {
                out.insert(NameRef::Meth(m.0.clone()));
            }
        }
        PTy::Func(f) => {
            for a in f.args.iter().chain(f.rets.iter()) {
                if let Some(n) = &a.0 {
                    out.insert(NameRef::ArgName(n.clone()));
                }
            }
        }
        _ => {}
    }
    for c in t.children() {
        names_ty(c, out);
    }
}
/// names in order of first occurrence
pub fn names_of(p: &Prog) -> Vec<NameRef> {
    let mut out = Occ(vec![]);
    for d in &p.defs {
        out.insert(NameRef::Def(d.0.clone()));
        names_ty(&d.1, &mut out);
    }
    match &p.actor {
        None => {}
        Some(PActor::Service(t)) => names_ty(t, &mut out),
        Some(PActor::Class(a, t)) => {
            for x in a {
                if let Some(n) = &x.0 {
                    out.insert(NameRef::ArgName(n.clone()));
                }
                names_ty(&x.1, &mut out);
            }
            names_ty(t, &mut out);
        }
    }
    if let Some(n) = &p.actor_name {
        out.insert(NameRef::ActorName(n.clone()));
    }
    out.0
}

fn ren_args(a: &[(Option<String>, PTy)], r: &NameRef, fresh: &str) -> Vec<(Option<String>, PTy)> {
    a.iter()
        .map(|(n, t)| {
            let n = match (n, r) {
                (Some(n), NameRef::ArgName(x)) if n == x => Some(fresh.to_string()),
                _ => n.clone(),
            };
            (n, ren_ty(t, r, fresh))
        })
        .collect()
}
fn ren_ty(t: &PTy, r: &NameRef, fresh: &str) -> PTy {
    let lab = |l: &PLabel| -> PLabel {
        match (l, r) {
            (PLabel::Named(s), NameRef::Label(x)) if s == x => PLabel::Named(fresh.to_string()),
            (PLabel::Id(n), NameRef::LabelId(x)) if n == x => PLabel::Named(fresh.to_string()),
            _ => l.clone(),
        }
    };
    match t {
        PTy::Prim(_) | PTy::Blob => t.clone(),
        PTy::Var(v) => match r {
            NameRef::Def(x) if x == v => PTy::Var(fresh.to_string()),
            _ => t.clone(),
        },
        PTy::Opt(t) => PTy::opt(ren_ty(t, r, fresh)),
        PTy::Vec(t) => PTy::vec(ren_ty(t, r, fresh)),
        PTy::Record(fs) => PTy::Record(fs.iter().map(|f| (lab(&f.0), ren_ty(&f.1, r, fresh))).collect()),
        PTy::Variant(fs) => PTy::Variant(fs.iter().map(|f| (lab(&f.0), ren_ty(&f.1, r, fresh))).collect()),
        PTy::Func(f) => PTy::Func(PFunc { args: ren_args(&f.args, r, fresh), rets: ren_args(&f.rets, r, fresh), modes: f.modes.clone() }),
        PTy::Service(ms) => PTy::Service(
            ms.iter()
                .map(|(n, t)| {
                    let n = match r {
                        NameRef::Meth(x) if x == n => fresh.to_string(),
                        _ => n.clone(),
                    };
                    (n, ren_ty(t, r, fresh))
                })
                .collect(),
        ),
    }
}
pub fn rename(p: &Prog, r: &NameRef, fresh: &str) -> Prog {
    Prog {
        defs: p
            .defs
            .iter()
            .map(|(n, t)| {
                let n = match r {
                    NameRef::Def(x) if x == n => fresh.to_string(),
                    _ => n.clone(),
                };
                (n, ren_ty(t, r, fresh))
            })
            .collect(),
        actor: p.actor.as_ref().map(|a| match a {
            PActor::Service(t) => PActor::Service(ren_ty(t, r, fresh)),
            PActor::Class(a, t) => PActor::Class(ren_args(a, r, fresh), ren_ty(t, r, fresh)),
        }),
        actor_name: match (&p.actor_name, r) {
            (Some(n), NameRef::ActorName(x)) if n == x => Some(fresh.to_string()),
            (n, _) => n.clone(),
        },
    }
}

fn fresh_for(r: &NameRef, i: usize) -> String {
    match r {
        NameRef::Def(_) => format!("zq{i}"),
        NameRef::Label(_) | NameRef::LabelId(_) => format!("zl{i}"),
        NameRef::Meth(_) => format!("zm{i}"),
        NameRef::ArgName(_) => format!("za{i}"),
        NameRef::ActorName(_) => format!("zs{i}"),
    }
}

pub struct Attribution {
    /// names that cannot be replaced by fresh benign identifiers without losing the failure
    pub triggers: Vec<String>,
    /// the program with every other name replaced (a real, executed, failing program)
    pub min: Case,
    pub min_fail: Fail,
    pub min_js: Option<String>,
    pub min_resp: Option<serde_json::Value>,
    pub runs: u64,
}

/// Greedy minimisation over names: in order of occurrence, replace a name (everywhere) by a
/// fresh benign identifier; keep the replacement when the failure class persists. The names
/// that could not be replaced trigger the failure (a 1-minimal set).
pub fn attribute(case: &Case, fail: &Fail, js: &Option<String>, resp: &Option<serde_json::Value>, node: &mut Node) -> Attribution {
    let mut at = Attribution { triggers: vec![], min: case.clone(), min_fail: fail.clone(), min_js: js.clone(), min_resp: resp.clone(), runs: 0 };
    let all: Vec<NameRef> = names_of(&case.prog);
    for (i, r) in all.iter().enumerate() {
        let p2 = rename(&at.min.prog, r, &fresh_for(r, i));
        if !wf(&p2) {
            continue;
        }
        let c = Case { prog: p2, shorthand: case.shorthand, family: case.family };
        let o = pipeline(&c.did(), Some(&c.prog.to_model()), node);
        at.runs += 1;
        if o.rejected.is_some() || o.harness.is_some() {
            continue;
        }
        match o.fail {
            Some(f) if f.class == fail.class => {
                at.min = c;
                at.min_fail = f;
                at.min_js = o.js;
                at.min_resp = o.resp;
            }
            _ => at.triggers.push(r.show()),
        }
    }
    at.triggers.sort();
    at
}
