//! C14 — the type checker accepts exactly the well-formed programs (E1 + E3), and every
//! accepted environment is closed (see /verif/DESIGN.md section 5, /verif/mc/README-dev.md).
//!
//! Process structure: the default invocation is a *supervisor* that runs the exploration
//! in a child process (`--worker`) whose threads have a declared 16 MiB stack and write
//! the case they are about to run into a per-thread journal. If the child dies (stack
//! overflow, abort) or does not finish, the in-flight cases are re-run one by one in
//! their own child; the ones that die or hang are violations ("worker-death" /
//! "non-termination") and the exploration is repeated without them.
mod ast_json;
mod collide;
mod mutate;
mod subject;
mod universe;
mod wf;

use collide::Preimage;
use mclib::engine::{finish, install_quiet_panic_hook, Ctx, Report, Tier};
use mclib::progs::{self, PActor, PTy, Prog};
use serde_json::{json, Value};
use std::collections::{BTreeSet, HashSet};
use std::fs::File;
use std::os::unix::fs::FileExt;
use std::os::unix::process::ExitStatusExt;
use std::path::PathBuf;
use std::sync::atomic::{AtomicUsize, Ordering};
use std::time::{Duration, Instant};
use subject::Verdict;
use universe::Universe;

const STACK_BYTES: usize = 16 * 1024 * 1024;

// ---------------------------------------------------------------------------------------
// scope

#[derive(Clone, Debug, PartialEq)]
enum Kind {
    /// text -> parse -> check_prog
    Program,
    /// `<defs> (<init args>)` -> check_init_args
    InitArgs,
    /// check_file; the variant says how the program is split over files
    File(FileVariant),
    /// program text outside the neutral AST (record tuple shorthand, enumeration
    /// shorthand) with the verdict of the small model in `shorthand_cases`
    Raw { text: String, expect_accept: bool, why: String },
}

#[derive(Clone, Copy, Debug, PartialEq)]
enum FileVariant {
    Single,
    ImportTypes,
    ImportService,
    ImportServicePlusOwnMethod,
    ImportServiceSameMethod,
    ImportServiceCollidingMethod,
}
const FILE_VARIANTS: [FileVariant; 6] = [
    FileVariant::Single,
    FileVariant::ImportTypes,
    FileVariant::ImportService,
    FileVariant::ImportServicePlusOwnMethod,
    FileVariant::ImportServiceSameMethod,
    FileVariant::ImportServiceCollidingMethod,
];
impl FileVariant {
    fn name(self) -> &'static str {
        match self {
            FileVariant::Single => "single-file",
            FileVariant::ImportTypes => "import-types",
            FileVariant::ImportService => "import-service",
            FileVariant::ImportServicePlusOwnMethod => "import-service-plus-own-method",
            FileVariant::ImportServiceSameMethod => "import-service-same-method",
            FileVariant::ImportServiceCollidingMethod => "import-service-colliding-method",
        }
    }
    fn from_name(s: &str) -> Option<FileVariant> {
        FILE_VARIANTS.iter().copied().find(|v| v.name() == s)
    }
}
impl Kind {
    fn name(&self) -> String {
        match self {
            Kind::Program => "program".into(),
            Kind::InitArgs => "init-args".into(),
            Kind::File(v) => format!("file:{}", v.name()),
            Kind::Raw { .. } => "raw".into(),
        }
    }
    fn from_case(case: &Value) -> Option<Kind> {
        let s = case["kind"].as_str().unwrap_or("program");
        match s {
            "raw" => Some(Kind::Raw {
                text: case["program"].as_str()?.to_string(),
                expect_accept: case["raw_expect_accept"].as_bool()?,
                why: case["raw_why"].as_str().unwrap_or("").to_string(),
            }),
            "program" => Some(Kind::Program),
            "init-args" => Some(Kind::InitArgs),
            _ => s.strip_prefix("file:").and_then(FileVariant::from_name).map(Kind::File),
        }
    }
}

struct Case {
    kind: Kind,
    family: &'static str,
    fault: String,
    prog: Prog,
}

const L_UNIVERSE: u64 = 0;
const L_UNIVERSE3: u64 = 1;
const L_WF: u64 = 2;
const L_MUTANTS: u64 = 3;
const L_INIT: u64 = 4;
const L_FILES: u64 = 5;
const L_SHORTHAND: u64 = 6;
const L_LONG: u64 = 7;
const LEVEL_NAMES: [&str; 8] = [
    "universe",
    "universe-3-definitions-reduced",
    "well-formed-by-construction",
    "single-fault-mutants",
    "init-args",
    "files-and-imports",
    "field-shorthands",
    "long-alias-chains",
];

/// Alias chains `t0 = t1; ...; t{n-1} = t{n}; t{n} = <end>` of length n used as method
/// type, actor, constructor result and data type; cycles of length n; a chain into a
/// 1-cycle; a chain into an undefined name.
fn long_chain_cases(lengths: &[usize]) -> Vec<(String, Prog)> {
    use refmodel::ty::Prim;
    let t = |i: usize| format!("t{i}");
    let chain = |n: usize, end: PTy| -> Vec<(String, PTy)> {
        let mut d: Vec<(String, PTy)> = (0..n).map(|i| (t(i), PTy::Var(t(i + 1)))).collect();
        d.push((t(n), end));
        d
    };
    let unit = || PTy::func(vec![], vec![], vec![]);
    let serv = || PTy::Service(vec![("m".to_string(), unit())]);
    let meth = |ty: PTy| Some(PActor::Service(PTy::Service(vec![("m".to_string(), ty)])));
    let mut out = vec![];
    for &n in lengths {
        let mut add = |name: &str, defs: Vec<(String, PTy)>, actor: Option<PActor>| {
            out.push((format!("{name}-{n}"), Prog { defs, actor, actor_name: None }));
        };
        add("chain-to-func-as-method", chain(n, unit()), meth(PTy::var("t0")));
        add("chain-to-service-as-actor", chain(n, serv()), Some(PActor::Service(PTy::var("t0"))));
        add("chain-to-service-as-constructor-result", chain(n, serv()), Some(PActor::Class(vec![(None, PTy::Prim(Prim::Nat))], PTy::var("t0"))));
        add("chain-to-nat-as-method", chain(n, PTy::Prim(Prim::Nat)), meth(PTy::var("t0")));
        add("chain-to-func-as-actor", chain(n, unit()), Some(PActor::Service(PTy::var("t0"))));
        add("cycle", (0..n.max(1)).map(|i| (t(i), PTy::Var(t((i + 1) % n.max(1))))).collect(), None);
        add("chain-into-1-cycle", chain(n, PTy::Var(t(n))), None);
        add("chain-into-undefined", chain(n, PTy::var("zq_undefined")), None);
        add(
            "chain-to-record-as-argument",
            chain(n, PTy::Record(vec![(mclib::progs::PLabel::named("a"), PTy::Prim(Prim::Nat)), (mclib::progs::PLabel::named("b"), PTy::opt(PTy::var("t0")))])),
            meth(PTy::func(vec![PTy::var("t0")], vec![PTy::var(&t(n / 2))], vec![])),
        );
    }
    out
}

/// Records whose fields are written `<nat> : nat`, `"a" : nat` or just `nat` (tuple
/// shorthand: "N is either 0 or previous + 1"), and variants written as bare tags
/// (enumeration shorthand), of up to 3 fields; as a definition and inside an actor method.
/// Model: assign the ids as the spec says; well-formed iff every id < 2^32 and no id twice.
fn shorthand_cases() -> Vec<(String, bool, String)> {
    #[derive(Clone, Copy)]
    enum L {
        Unnamed,
        Id(u64),
        A,
    }
    let labels = [L::Unnamed, L::Id(0), L::Id(1), L::Id(2), L::A, L::Id(98), L::Id(4294967295)];
    let tags = [L::Id(0), L::Id(1), L::A, L::Id(97)];
    let mut out = vec![];
    let mut lists: Vec<(bool, Vec<L>)> = vec![];
    for (is_record, alphabet) in [(true, &labels[..]), (false, &tags[..])] {
        let mut level: Vec<Vec<L>> = vec![vec![]];
        for _ in 0..=3 {
            for l in &level {
                lists.push((is_record, l.clone()));
            }
            level = level.iter().flat_map(|l| alphabet.iter().map(move |x| { let mut m = l.clone(); m.push(*x); m })).collect();
        }
    }
    for (is_record, fs) in lists {
        let mut ids: Vec<u64> = vec![];
        let mut prev: Option<u64> = None;
        let mut parts = vec![];
        for f in &fs {
            let id = match f {
                L::Unnamed => prev.map(|p| p + 1).unwrap_or(0),
                L::Id(n) => *n,
                L::A => refmodel::hash::idl_hash("a") as u64,
            };
            prev = Some(id);
            ids.push(id);
            parts.push(match (f, is_record) {
                (L::Unnamed, _) => "nat".to_string(),
                (L::Id(n), true) => format!("{n} : nat"),
                (L::A, true) => "\"a\" : nat".to_string(),
                (L::Id(n), false) => format!("{n}"),
                (L::A, false) => "\"a\"".to_string(),
            });
        }
        let mut sorted = ids.clone();
        sorted.sort();
        let dup = sorted.windows(2).any(|w| w[0] == w[1]);
        let range = ids.iter().any(|i| *i >= 1u64 << 32);
        let why = match (dup, range) {
            (false, false) => "well-formed",
            (true, false) => "duplicate-field-id",
            (false, true) => "field-id-out-of-range",
            (true, true) => "duplicate-field-id+field-id-out-of-range",
        };
        let ty = format!("{} {{ {} }}", if is_record { "record" } else { "variant" }, parts.join("; "));
        out.push((format!("type t = {ty};\n"), !dup && !range, why.to_string()));
        out.push((format!("service : {{ \"m\" : ({ty}) -> () }}\n"), !dup && !range, why.to_string()));
    }
    out
}

struct Scope {
    pre: Preimage,
    /// a name different from "a" with the hash of "a"
    x: String,
    uni: Universe,
    uni3: Option<Universe>,
    wf: Vec<Prog>,
    /// (fault kind, program), distinct program texts, none equal to a program of `wf`
    mutants: Vec<(String, Prog)>,
    /// stride over `wf ++ mutants` for the init-args and file levels
    list_stride: usize,
    shorthand: Vec<(String, bool, String)>,
    long: Vec<(String, Prog)>,
    notes: Vec<String>,
}

impl Scope {
    fn build(tier: Tier) -> Scope {
        let pre = Preimage::new();
        let x = pre.name_with_hash(refmodel::hash::idl_hash("a"), "a");
        let uni = Universe::new(universe::rhs_set(&x), universe::actor_set(), 0, tier.pick(2, 3));
        let uni3 = match tier {
            Tier::Quick => Some(Universe::new(universe::rhs_reduced(), universe::actor_set(), 3, 3)),
            Tier::Thorough => None,
        };
        let mut seen: HashSet<String> = HashSet::new();
        let mut wf = vec![];
        for p in progs::default_programs(100000).into_iter().chain(progs::shape_programs()) {
            if seen.insert(p.to_did()) {
                wf.push(p);
            }
        }
        // mutants are generated in parallel (per U_P program) and merged in program order
        let threads = std::thread::available_parallelism().map(|n| n.get()).unwrap_or(8);
        let mut per: Vec<Vec<(String, Prog, String)>> = Vec::new();
        per.resize_with(wf.len(), Vec::new);
        std::thread::scope(|s| {
            let handles: Vec<_> = (0..threads)
                .map(|t| {
                    let wf = &wf;
                    let pre = &pre;
                    s.spawn(move || {
                        let mut out = vec![];
                        let mut i = t;
                        while i < wf.len() {
                            let ms: Vec<(String, Prog, String)> = mutate::mutants(&wf[i], pre)
                                .into_iter()
                                .map(|(k, q)| {
                                    let text = q.to_did();
                                    (k, q, text)
                                })
                                .collect();
                            out.push((i, ms));
                            i += threads;
                        }
                        out
                    })
                })
                .collect();
            for h in handles {
                for (i, ms) in h.join().expect("mutant generation") {
                    per[i] = ms;
                }
            }
        });
        let mut mutants = vec![];
        let mut produced = 0usize;
        for ms in per {
            for (kind, q, text) in ms {
                produced += 1;
                if seen.insert(text) {
                    mutants.push((kind, q));
                }
            }
        }
        let notes = vec![
            format!(
                "universe: {} right-hand sides x {} names, {} actors (incl. none), definition lists of length <= {}: {} programs; colliding label pair (\"a\", \"{}\") with hash {}",
                uni.rhs.len(),
                universe::NAMES.len(),
                uni.actors.len(),
                uni.max_defs,
                uni.total(),
                x,
                refmodel::hash::idl_hash(&x)
            ),
            format!("U_P: {} distinct programs; {} single-fault mutants produced, {} distinct and different from U_P", wf.len(), produced, mutants.len()),
        ];
        Scope { pre, x, uni, uni3, wf, mutants, list_stride: tier.pick(8, 1), shorthand: shorthand_cases(), long: long_chain_cases(tier.pick(&[8, 64, 512][..], &[8, 64, 512, 2048][..])), notes }
    }

    fn listed(&self, i: usize) -> (&'static str, String, &Prog) {
        if i < self.wf.len() {
            ("U_P", "none".to_string(), &self.wf[i])
        } else {
            let (k, p) = &self.mutants[i - self.wf.len()];
            ("mutant", k.clone(), p)
        }
    }
    fn listed_len(&self) -> usize {
        (self.wf.len() + self.mutants.len()).div_ceil(self.list_stride)
    }

    fn level_total(&self, level: u64) -> u64 {
        match level {
            L_UNIVERSE => self.uni.total(),
            L_UNIVERSE3 => self.uni3.as_ref().map(|u| u.total()).unwrap_or(0),
            L_WF => self.wf.len() as u64,
            L_MUTANTS => self.mutants.len() as u64,
            L_INIT => self.listed_len() as u64,
            L_FILES => (self.listed_len() * FILE_VARIANTS.len()) as u64,
            L_SHORTHAND => self.shorthand.len() as u64,
            L_LONG => self.long.len() as u64,
            _ => 0,
        }
    }

    fn case(&self, level: u64, index: u64) -> Case {
        match level {
            L_UNIVERSE => Case { kind: Kind::Program, family: "universe", fault: "n/a".into(), prog: self.uni.program(index) },
            L_UNIVERSE3 => Case { kind: Kind::Program, family: "universe", fault: "n/a".into(), prog: self.uni3.as_ref().unwrap().program(index) },
            L_WF => Case { kind: Kind::Program, family: "U_P", fault: "none".into(), prog: self.wf[index as usize].clone() },
            L_MUTANTS => {
                let (k, p) = &self.mutants[index as usize];
                Case { kind: Kind::Program, family: "mutant", fault: k.clone(), prog: p.clone() }
            }
            L_INIT => {
                let (family, fault, p) = self.listed(index as usize * self.list_stride);
                Case { kind: Kind::InitArgs, family, fault, prog: p.clone() }
            }
            L_FILES => {
                let n = FILE_VARIANTS.len() as u64;
                let (family, fault, p) = self.listed((index / n) as usize * self.list_stride);
                Case { kind: Kind::File(FILE_VARIANTS[(index % n) as usize]), family, fault, prog: p.clone() }
            }
            L_SHORTHAND => {
                let (text, expect_accept, why) = self.shorthand[index as usize].clone();
                Case { kind: Kind::Raw { text, expect_accept, why }, family: "shorthand", fault: "n/a".into(), prog: Prog::default() }
            }
            L_LONG => {
                let (k, p) = &self.long[index as usize];
                Case { kind: Kind::Program, family: "long-chain", fault: k.clone(), prog: p.clone() }
            }
            _ => panic!("no such level"),
        }
    }
}

// ---------------------------------------------------------------------------------------
// one observation: reference verdict, subject verdict, findings

struct Worker {
    journal: Option<(File, PathBuf)>,
    dir: PathBuf,
    shrunk: usize,
}

static WORKER_SEQ: AtomicUsize = AtomicUsize::new(0);

/// scratch files (check_file inputs, journals) live on tmpfs when there is one
fn scratch_root() -> PathBuf {
    let shm = PathBuf::from("/dev/shm");
    if shm.is_dir() {
        shm
    } else {
        std::env::temp_dir()
    }
}

impl Worker {
    fn new(journal_dir: Option<&str>) -> Worker {
        let n = WORKER_SEQ.fetch_add(1, Ordering::SeqCst);
        // under the supervisor the scratch files live next to the journal (the supervisor
        // removes the whole directory, also after the worker process died)
        let dir = match journal_dir {
            Some(d) => PathBuf::from(d).join(format!("files-{n}")),
            None => scratch_root().join(format!("c14-files-{}-{}", std::process::id(), n)),
        };
        let journal = journal_dir.map(|d| {
            let p = PathBuf::from(format!("{d}/t{n}"));
            (File::create(&p).expect("journal file"), p)
        });
        Worker { journal, dir, shrunk: 0 }
    }
    fn note(&self, level: u64, index: u64) {
        if let Some((j, _)) = &self.journal {
            let mut b = [0u8; 16];
            b[..8].copy_from_slice(&level.to_le_bytes());
            b[8..].copy_from_slice(&index.to_le_bytes());
            let _ = j.write_all_at(&b, 0);
        }
    }
}
impl Drop for Worker {
    fn drop(&mut self) {
        let _ = std::fs::remove_dir_all(&self.dir);
        // a worker that ends normally has no case in flight
        if let Some((_, p)) = &self.journal {
            let _ = std::fs::remove_file(p);
        }
    }
}

#[derive(Clone)]
struct Finding {
    /// accepts-ill-formed | rejects-well-formed | front-end-panic | panic-after-accept | error-after-accept
    clause: &'static str,
    /// R8 reasons / verdict class / downstream operation
    detail: String,
    msg: String,
}

struct Obs {
    /// what was given to the subject
    text: String,
    reasons: wf::Reasons,
    /// the reference verdict for this kind of case (R8, plus the import rules for files)
    expect_accept: bool,
    expect_why: String,
    verdict: Verdict,
    findings: Vec<Finding>,
    /// the case does not apply to this program (e.g. import-service without an actor to split off)
    skipped: bool,
    /// accepted, but the Motoko generator was not run (a method name is not an identifier)
    motoko_not_applicable: bool,
}

fn panic_location(msg: &str) -> &str {
    msg.rsplit(" @ ").next().unwrap_or("")
}

fn actor_only(p: &Prog) -> String {
    Prog { defs: vec![], actor: p.actor.clone(), actor_name: p.actor_name.clone() }.to_did()
}
fn defs_only(p: &Prog) -> String {
    Prog { defs: p.defs.clone(), actor: None, actor_name: None }.to_did()
}
fn unit_method_actor(name: &str) -> String {
    Prog {
        defs: vec![],
        actor: Some(PActor::Service(PTy::Service(vec![(name.to_string(), PTy::func(vec![], vec![], vec![]))]))),
        actor_name: None,
    }
    .to_did()
}

/// first method name of the program's actor when the actor is a service (not a constructor),
/// following names through the definitions
fn first_method(p: &Prog) -> Option<String> {
    let mut t = match &p.actor {
        Some(PActor::Service(t)) => t,
        _ => return None,
    };
    for _ in 0..=p.defs.len() {
        match t {
            PTy::Service(ms) => return ms.first().map(|m| m.0.clone()),
            PTy::Var(v) => t = &p.defs.iter().find(|d| d.0 == *v)?.1,
            _ => return None,
        }
    }
    None
}

/// every method name of every service type of the program is an identifier
fn motoko_applicable(p: &Prog) -> bool {
    mutate::nodes(p).iter().all(|t| match t {
        PTy::Service(ms) => ms.iter().all(|m| wf::is_identifier(&m.0)),
        _ => true,
    })
}

/// Self-test hook of the supervisor (never set in a normal run): a program whose text
/// contains `C14_TEST_ABORT_ON` aborts the process, one containing `C14_TEST_HANG_ON` hangs.
fn test_hooks(text: &str) {
    static HOOKS: std::sync::OnceLock<(Option<String>, Option<String>)> = std::sync::OnceLock::new();
    let (abort, hang) = HOOKS.get_or_init(|| (std::env::var("C14_TEST_ABORT_ON").ok(), std::env::var("C14_TEST_HANG_ON").ok()));
    if let Some(a) = abort {
        if text.contains(a.as_str()) {
            std::process::abort();
        }
    }
    if let Some(h) = hang {
        if text.contains(h.as_str()) {
            loop {
                std::thread::sleep(Duration::from_secs(1));
            }
        }
    }
}

fn observe(sc: &Scope, kind: &Kind, prog: &Prog, w: &mut Worker, deep: bool) -> Obs {
    if let Kind::Program = kind {
        test_hooks(&prog.to_did());
    }
    let reasons = wf::reasons(prog);
    let mut findings = vec![];
    let mut skipped = false;
    let text;
    let mut expect_accept = reasons.is_empty();
    let mut expect_why = wf::reasons_text(&reasons);
    let verdict;
    match kind {
        Kind::Program => {
            text = prog.to_did();
            let (v, acc) = subject::front(&text);
            if let (true, Some(acc)) = (deep, &acc) {
                let model = if reasons.is_empty() { Some(prog) } else { None };
                for pb in subject::downstream(&text, acc, model, None, motoko_applicable(prog)) {
                    findings.push(Finding { clause: pb.clause, detail: pb.op, msg: pb.msg });
                }
            }
            verdict = v;
        }
        Kind::Raw { text: t, expect_accept: e, why } => {
            text = t.clone();
            expect_accept = *e;
            expect_why = why.clone();
            let (v, acc) = subject::front(&text);
            if let (true, Some(acc)) = (deep, &acc) {
                for pb in subject::downstream(&text, acc, None, None, true) {
                    findings.push(Finding { clause: pb.clause, detail: pb.op, msg: pb.msg });
                }
            }
            verdict = v;
        }
        Kind::InitArgs => {
            // the definitions of the program, and as argument list the constructor's
            // arguments (or the first definition's name); R8 judges the same definitions
            // with a constructor of an empty service
            let args = match &prog.actor {
                Some(PActor::Class(a, _)) => a.clone(),
                _ => prog.defs.first().map(|d| vec![(None, PTy::var(&d.0))]).unwrap_or_default(),
            };
            let q = Prog { defs: prog.defs.clone(), actor: Some(PActor::Class(args, PTy::Service(vec![]))), actor_name: None };
            let r = wf::reasons(&q);
            expect_accept = r.is_empty();
            expect_why = wf::reasons_text(&r);
            let did = q.to_did();
            let body = did.trim_end();
            let cut = body.rfind("service : ").expect("printer format");
            let tail = &body[cut + "service : ".len()..];
            let tail = tail.strip_suffix(" -> {  }").expect("printer format");
            text = format!("{}{}", &body[..cut], tail);
            verdict = subject::front_init_args(&text);
        }
        Kind::File(variant) => {
            if !w.dir.is_dir() {
                std::fs::create_dir_all(&w.dir).expect("scratch directory");
            }
            let main = w.dir.join("main.did");
            let imp = w.dir.join("imp.did");
            let imported_is_class = matches!(prog.actor, Some(PActor::Class(..)));
            let mut import_service_expect = |own_clash: bool| {
                if prog.actor.is_none() {
                    expect_accept = false;
                    expect_why = "imported file has no main service".into();
                } else if imported_is_class {
                    expect_accept = false;
                    expect_why = "imported main service is a constructor".into();
                } else if own_clash && reasons.is_empty() {
                    expect_accept = false;
                    expect_why = "imported method name equals a method name of the importing file".into();
                }
            };
            let (main_text, imp_text): (String, Option<String>) = match variant {
                FileVariant::Single => (prog.to_did(), None),
                FileVariant::ImportTypes => {
                    if prog.defs.is_empty() {
                        skipped = true;
                    }
                    (format!("import \"imp.did\";\n{}", actor_only(prog)), Some(defs_only(prog)))
                }
                FileVariant::ImportService => {
                    import_service_expect(false);
                    ("import service \"imp.did\";\n".to_string(), Some(prog.to_did()))
                }
                FileVariant::ImportServicePlusOwnMethod => {
                    import_service_expect(false);
                    (format!("import service \"imp.did\";\n{}", unit_method_actor("zq_main")), Some(prog.to_did()))
                }
                FileVariant::ImportServiceSameMethod => match first_method(prog) {
                    Some(m) => {
                        import_service_expect(true);
                        (format!("import service \"imp.did\";\n{}", unit_method_actor(&m)), Some(prog.to_did()))
                    }
                    None => {
                        skipped = true;
                        (String::new(), None)
                    }
                },
                FileVariant::ImportServiceCollidingMethod => match first_method(prog) {
                    Some(m) => {
                        import_service_expect(false);
                        let partner = sc.pre.name_with_hash(refmodel::hash::idl_hash(&m), &m);
                        (format!("import service \"imp.did\";\n{}", unit_method_actor(&partner)), Some(prog.to_did()))
                    }
                    None => {
                        skipped = true;
                        (String::new(), None)
                    }
                },
            };
            text = match &imp_text {
                Some(i) => format!("// main.did\n{main_text}// imp.did\n{i}"),
                None => main_text.clone(),
            };
            if skipped {
                verdict = Verdict::Accepted;
            } else {
                std::fs::write(&main, &main_text).expect("write main.did");
                match &imp_text {
                    Some(i) => std::fs::write(&imp, i).expect("write imp.did"),
                    None => {
                        let _ = std::fs::remove_file(&imp);
                    }
                }
                let (v, acc) = subject::front_file(&main);
                if let (true, Some((acc, merged))) = (deep, &acc) {
                    // (the importing file adds only identifier method names)
                    for pb in subject::downstream(&main_text, acc, None, Some(merged), motoko_applicable(prog)) {
                        findings.push(Finding { clause: pb.clause, detail: pb.op, msg: pb.msg });
                    }
                }
                verdict = v;
            }
        }
    }
    if !skipped {
        let why = || if expect_why == "well-formed" { "none".to_string() } else { expect_why.clone() };
        match &verdict {
            Verdict::Panic(m) => findings.insert(0, Finding { clause: "front-end-panic", detail: panic_location(m).to_string(), msg: m.clone() }),
            Verdict::Accepted if !expect_accept => findings.insert(
                0,
                Finding { clause: "accepts-ill-formed", detail: why(), msg: format!("accepted, but the program is ill-formed: {expect_why}") },
            ),
            Verdict::Accepted => {}
            v if expect_accept => findings.insert(
                0,
                Finding { clause: "rejects-well-formed", detail: v.class().to_string(), msg: format!("well-formed program rejected: {}", v.text()) },
            ),
            _ => {}
        }
    }
    let motoko_not_applicable = verdict.accepted() && !skipped && !matches!(kind, Kind::InitArgs | Kind::Raw { .. }) && !motoko_applicable(prog);
    Obs { text, reasons, expect_accept, expect_why, verdict, findings, skipped, motoko_not_applicable }
}

/// does the observation of a simplified program still show the finding `f` of the original?
fn still_shows(f: &Finding, orig_reasons: &wf::Reasons, o: &Obs) -> bool {
    o.findings.iter().any(|g| {
        g.clause == f.clause
            && match f.clause {
                "accepts-ill-formed" => o.reasons.is_subset(orig_reasons) || o.reasons.len() <= 1,
                "rejects-well-formed" => g.detail == f.detail,
                "front-end-panic" => g.detail == f.detail,
                _ => g.detail == f.detail && panic_location(&g.msg) == panic_location(&f.msg),
            }
    })
}

const MAX_SHRINKS_PER_THREAD: usize = 1500;

fn check_case(sc: &Scope, case: &Case, w: &mut Worker, rep: &mut Report) {
    let o = observe(sc, &case.kind, &case.prog, w, true);
    if o.skipped {
        rep.count("cases-not-applicable", 1);
        return;
    }
    rep.evaluations += 1;
    rep.transitions += 1;
    rep.traces_validated += 1;
    if matches!(case.kind, Kind::Program | Kind::Raw { .. }) {
        rep.states += 1;
    }
    let accepted = o.verdict.accepted();
    let single_fault = !o.expect_accept && (case.family == "mutant" || o.reasons.len() == 1);
    if accepted || single_fault {
        rep.nontrivial += 1;
    }
    if accepted {
        rep.count("accepted", 1);
    }
    if o.motoko_not_applicable {
        rep.count("accepted-but-motoko-not-run-(non-identifier-method-name)", 1);
    }
    let kind = case.kind.name();
    match case.family {
        "universe" => {
            rep.outcome(&format!("universe:{}-reasons:{}", o.reasons.len().min(3), o.verdict.class()));
            if o.reasons.len() == 1 {
                rep.outcome(&format!("universe:{}:{}", o.expect_why, o.verdict.class()));
            }
        }
        _ => {
            // fault kind without its parameters (chain length, end type, cycle length)
            let fault: &str = match case.fault.find("-chain-") {
                Some(i) => &case.fault[..i],
                None => case.fault.trim_end_matches(|c: char| c.is_ascii_digit()).trim_end_matches('-'),
            };
            rep.outcome(&format!("{kind}:{}:{}:{}", fault, if o.expect_accept { "wf" } else { "ill" }, o.verdict.class()));
            if !o.expect_accept {
                for r in o.expect_why.split('+') {
                    rep.count(&format!("expected-reject-by:{r}"), 1);
                }
            }
        }
    }
    if rep.samples.len() < 2 || (rep.samples.len() < 4 && case.family == "mutant") {
        rep.sample(json!({"kind": kind, "family": case.family, "fault": case.fault, "program": o.text, "r8": o.expect_why, "subject": o.verdict.text()}));
    }
    // one violation per distinct (clause, detail) of this case
    let mut done: BTreeSet<(String, String)> = BTreeSet::new();
    for f in &o.findings {
        if !done.insert((f.clause.to_string(), f.detail.clone())) {
            continue;
        }
        if w.shrunk >= MAX_SHRINKS_PER_THREAD {
            // still counted; the kept (shrunk) cases already describe these causes
            rep.violation_count += 1;
            continue;
        }
        w.shrunk += 1;
        let deep = !matches!(f.clause, "accepts-ill-formed" | "rejects-well-formed" | "front-end-panic");
        let min = {
            let mut pred = |q: &Prog| {
                let oq = observe(sc, &case.kind, q, w, deep);
                !oq.skipped && still_shows(f, &o.reasons, &oq)
            };
            mutate::shrink(&case.prog, &mut pred)
        };
        // re-check the minimal case once more (same input twice => same observation)
        let om = observe(sc, &case.kind, &min, w, deep);
        let Some(g) = om.findings.iter().find(|g| g.clause == f.clause && (f.clause == "accepts-ill-formed" || g.detail == f.detail)) else {
            rep.notes.push(format!("unstable observation (not reported): {} on {}", f.clause, o.text.replace('\n', " ")));
            continue;
        };
        let key = format!("{}|{}|{}|{}", g.clause, kind, g.detail, om.text.replace('\n', " "));
        // (which of the many cases that shrink to this one is kept depends on thread timing; the
        // message names only the minimal case, the originating case is in the case JSON)
        let msg = format!("{}; R8: {}; subject: {}", g.msg, om.expect_why, om.verdict.text());
        rep.violation(
            &key,
            msg,
            json!({
                "kind": kind,
                "clause": g.clause,
                "detail": g.detail,
                "program": om.text,
                "ast": ast_json::prog_json(&min),
                "r8": om.expect_why,
                "found_in": {"family": case.family, "fault": case.fault, "program": o.text},
                "raw_expect_accept": om.expect_accept,
                "raw_why": om.expect_why,
            }),
        );
    }
}

// ---------------------------------------------------------------------------------------
// worker (the exploration proper)

#[derive(Clone)]
struct Dead {
    level: u64,
    index: u64,
    how: String,
}

fn read_dead(path: &Option<String>) -> Vec<Dead> {
    let Some(p) = path else { return vec![] };
    let Ok(s) = std::fs::read_to_string(p) else { return vec![] };
    let v: Value = serde_json::from_str(&s).unwrap_or(Value::Null);
    v.as_array()
        .map(|a| {
            a.iter()
                .map(|d| Dead { level: d["level"].as_u64().unwrap(), index: d["index"].as_u64().unwrap(), how: d["how"].as_str().unwrap_or("").to_string() })
                .collect()
        })
        .unwrap_or_default()
}

fn case_json(c: &Case) -> Value {
    let mut j = json!({"kind": c.kind.name(), "family": c.family, "fault": c.fault, "program": c.prog.to_did(), "ast": ast_json::prog_json(&c.prog)});
    if let Kind::Raw { text, expect_accept, why } = &c.kind {
        j["program"] = json!(text);
        j["raw_expect_accept"] = json!(expect_accept);
        j["raw_why"] = json!(why);
    }
    j
}

fn run_worker(tier: Tier, journal: Option<String>, dead_file: Option<String>) -> i32 {
    let ctx = Ctx::new("C14", tier, tier.pick(240, 1100));
    let t_build = Instant::now();
    let sc = Scope::build(tier);
    let build_s = t_build.elapsed().as_secs_f64();
    let dead = read_dead(&dead_file);
    let dead_set: HashSet<(u64, u64)> = dead.iter().map(|d| (d.level, d.index)).collect();
    let mut rep = Report::new();
    rep.notes.push(format!("scope built in {build_s:.1} s"));
    for d in &dead {
        let c = sc.case(d.level, d.index);
        let clause = if d.how.starts_with("non-termination") { "non-termination" } else { "worker-death" };
        rep.violation(
            &format!("{clause}|{}|{}", c.kind.name(), c.prog.to_did().replace('\n', " ")),
            format!("the process running this case alone: {} (family {}, fault {})", d.how, c.family, c.fault),
            case_json(&c),
        );
    }
    let levels: Vec<(u64, u64)> = vec![(L_LONG, 1), (L_SHORTHAND, 16), (L_WF, 16), (L_MUTANTS, 64), (L_INIT, 64), (L_FILES, 64), (L_UNIVERSE3, 1024), (L_UNIVERSE, 1024)];
    for (level, chunk) in levels {
        let total = sc.level_total(level);
        if total == 0 {
            continue;
        }
        let t0 = Instant::now();
        let r = ctx.par_range(
            LEVEL_NAMES[level as usize],
            total,
            chunk,
            || Worker::new(journal.as_deref()),
            |w, i, rep| {
                if !dead_set.is_empty() && dead_set.contains(&(level, i)) {
                    return;
                }
                w.note(level, i);
                let c = sc.case(level, i);
                check_case(&sc, &c, w, rep);
            },
        );
        rep.merge(r);
        rep.notes.push(format!("level {}: {} cases in {:.1} s", LEVEL_NAMES[level as usize], total, t0.elapsed().as_secs_f64()));
    }
    rep.notes.extend(sc.notes.clone());
    // replay files of earlier runs would otherwise survive next to the new ones
    if let Ok(rd) = std::fs::read_dir("/verif/replays/C14") {
        for e in rd.flatten() {
            if e.path().extension().map(|x| x == "json").unwrap_or(false) {
                let _ = std::fs::remove_file(e.path());
            }
        }
    }
    let accepted = rep.counters.get("accepted").copied().unwrap_or(0);
    finish(
        &ctx,
        rep,
        "cases = Candid programs on a neutral AST, printed by the trusted printer and given to the real front end. \
         (i) universe: ALL definition lists of length <= 2 (quick; plus all lists of length 3 over a reduced right-hand-side set) / <= 3 (thorough) over names {a,b,c} x the listed right-hand sides, crossed with the listed actors; \
         (ii) U_P = mclib::progs::default_programs (well-formed by construction); \
         (iii) every single-fault mutant of every U_P program (fault alphabet: undefined name, duplicate definition, alias cycle of length 1-4 through a definition / fresh / referenced from each leaf, duplicate field id, name next to its own number, hash-colliding name, non-function method directly and through alias chains of 0-3 hops, duplicate method, oneway with result, second annotation, duplicate argument/result/init-argument name, non-service actor through alias chains of 0-3 hops, undefined actor) at every position; \
         (iv) the U_P programs and mutants (quick: every 8th) as init-args programs (check_init_args) and as files (check_file: single file, types imported, service imported, with own / same / hash-colliding method in the importing file); \
         (v) all records of <= 3 fields written with explicit ids {0,1,2,98,2^32-1}, the name \"a\" or the tuple shorthand, and all variants of <= 3 bare tags, as a definition and inside an actor method (model: ids assigned as the spec says, unique and < 2^32); \
         (vi) alias chains / cycles of length 8, 64, 512 (thorough: 2048) as method type, actor, constructor result, data type, into a 1-cycle, into an undefined name. \
         Oracle: accepted <=> R8 well-formed (c14/src/wf.rs); for every accepted program trace_type / rec_find_type / as_func / as_service / self-subtype / chase_type / chase_actor / chase_def_use / encode+decode of two small values per definition / the four binding generators must return without panicking (and without an error where a closed environment guarantees success). \
         states = distinct programs, transitions = front-end calls, traces = verdict comparisons. Non-trivial = accepted programs + programs rejected by R8 for a single fault (mutants; universe programs with exactly one reason kind).",
        &[
            "R8 (c14/src/wf.rs) is a correct reading of spec/Candid.md sections Services, Functions, Records, Variants, Type Definitions, Interfaces, Imports",
            "mclib::progs printer output denotes the AST it prints (cross-checked by ./check --setup selftest for well-formed programs)",
            "argument names are compared as written (not by hash) and per argument list, as the grammar shorthand '<name> : <datatype>' is per <argtype> of one <tuptype>",
            "method names are compared as strings (the spec does not hash method names)",
        ],
        json!({"accepted_programs": accepted, "stack_bytes_per_thread": STACK_BYTES}),
    )
}

// ---------------------------------------------------------------------------------------
// supervisor

enum ChildEnd {
    Exit(i32),
    Signal(i32),
    Timeout,
}

fn run_child(args: &[String], timeout: Duration, quiet: bool) -> ChildEnd {
    let exe = std::env::current_exe().expect("current_exe");
    let mut cmd = std::process::Command::new(exe);
    cmd.args(args).env("RUST_MIN_STACK", STACK_BYTES.to_string());
    if quiet {
        cmd.stdout(std::process::Stdio::null()).stderr(std::process::Stdio::null());
    }
    let mut child = cmd.spawn().expect("spawn child");
    let start = Instant::now();
    loop {
        match child.try_wait().expect("wait") {
            Some(st) => {
                return match (st.code(), st.signal()) {
                    (Some(c), _) => ChildEnd::Exit(c),
                    (None, Some(s)) => ChildEnd::Signal(s),
                    _ => ChildEnd::Signal(0),
                }
            }
            None => {
                if start.elapsed() > timeout {
                    let _ = child.kill();
                    let _ = child.wait();
                    return ChildEnd::Timeout;
                }
                std::thread::sleep(Duration::from_millis(if quiet { 5 } else { 100 }));
            }
        }
    }
}

fn supervise(tier: Tier) -> i32 {
    let base = scratch_root().join(format!("c14-supervisor-{}", std::process::id()));
    let jdir = base.join("journal");
    let dead_file = base.join("dead.json");
    let mut dead: Vec<Dead> = vec![];
    let mut scope: Option<Scope> = None;
    let cap = Duration::from_secs(tier.pick(100, 1100) + 240);
    let mut code = 2;
    for _attempt in 0..6 {
        let _ = std::fs::remove_dir_all(&jdir);
        std::fs::create_dir_all(&jdir).expect("journal dir");
        let dj: Vec<Value> = dead.iter().map(|d| json!({"level": d.level, "index": d.index, "how": d.how})).collect();
        std::fs::write(&dead_file, serde_json::to_string(&dj).unwrap()).expect("dead file");
        let args: Vec<String> = vec![
            "--tier".into(),
            tier.name().into(),
            "--worker".into(),
            "--journal".into(),
            jdir.to_string_lossy().into_owned(),
            "--dead".into(),
            dead_file.to_string_lossy().into_owned(),
        ];
        let end = run_child(&args, cap, false);
        let what = match end {
            ChildEnd::Exit(c) => {
                code = c;
                break;
            }
            ChildEnd::Signal(s) => format!("died with signal {s}"),
            ChildEnd::Timeout => format!("did not finish within {} s", cap.as_secs()),
        };
        eprintln!("C14 supervisor: the exploration process {what}; probing the cases that were in flight");
        let sc = scope.get_or_insert_with(|| Scope::build(tier));
        let mut inflight: BTreeSet<(u64, u64)> = BTreeSet::new();
        if let Ok(rd) = std::fs::read_dir(&jdir) {
            for e in rd.flatten() {
                if !e.file_name().to_string_lossy().starts_with('t') {
                    continue;
                }
                if let Ok(b) = std::fs::read(e.path()) {
                    if b.len() == 16 {
                        inflight.insert((u64::from_le_bytes(b[..8].try_into().unwrap()), u64::from_le_bytes(b[8..].try_into().unwrap())));
                    }
                }
            }
        }
        let mut new_dead = 0;
        for (level, index) in inflight {
            if dead.iter().any(|d| d.level == level && d.index == index) {
                continue;
            }
            let c = sc.case(level, index);
            let f = base.join("probe.json");
            std::fs::write(&f, serde_json::to_string(&json!({"case": case_json(&c)})).unwrap()).expect("probe file");
            let how = match run_child(&["--replay-inner".into(), f.to_string_lossy().into_owned()], Duration::from_secs(60), true) {
                ChildEnd::Exit(_) => continue,
                ChildEnd::Signal(s) => format!("died with signal {s}"),
                ChildEnd::Timeout => "non-termination: no result within 60 s".to_string(),
            };
            eprintln!("C14 supervisor: case {}#{} {}", LEVEL_NAMES[level as usize], index, how);
            dead.push(Dead { level, index, how });
            new_dead += 1;
        }
        if new_dead == 0 {
            eprintln!("C14 supervisor: no single in-flight case reproduces the failure: machinery failure");
            code = 2;
            break;
        }
    }
    let _ = std::fs::remove_dir_all(&base);
    code
}

// ---------------------------------------------------------------------------------------
// replay

fn replay_inner(path: &str) -> i32 {
    let s = std::fs::read_to_string(path).expect("replay file");
    let v: Value = serde_json::from_str(&s).expect("json");
    let case = &v["case"];
    let kind = Kind::from_case(case).expect("kind");
    let prog = ast_json::prog_from(&case["ast"]).expect("ast");
    // only the file variants with a colliding method need the search table
    let sc = Scope { pre: Preimage::new(), x: String::new(), uni: Universe::new(vec![], vec![None], 0, 0), uni3: None, wf: vec![], mutants: vec![], list_stride: 1, shorthand: vec![], long: vec![], notes: vec![] };
    let _ = &sc.x;
    let mut w = Worker::new(None);
    let o = observe(&sc, &kind, &prog, &mut w, true);
    println!("program ({}):\n{}", kind.name(), o.text);
    println!("R8: {}   expected: {}", o.expect_why, if o.expect_accept { "accept" } else { "reject" });
    println!("subject: {}", o.verdict.text());
    let want = case["clause"].as_str();
    let mut n = 0;
    for f in &o.findings {
        if want.is_none() || want == Some(f.clause) || n == 0 {
            println!("REPRODUCED {}|{}|{} :: {}", f.clause, kind.name(), f.detail, f.msg);
            n += 1;
        }
    }
    if n == 0 {
        println!("not reproduced: subject and reference agree on this case");
        0
    } else {
        1
    }
}

fn replay(path: &str) -> i32 {
    match run_child(&["--replay-inner".into(), path.to_string()], Duration::from_secs(120), false) {
        ChildEnd::Exit(c) => c,
        ChildEnd::Signal(s) => {
            println!("REPRODUCED worker-death :: the process running this case died with signal {s}");
            1
        }
        ChildEnd::Timeout => {
            println!("REPRODUCED non-termination :: the process running this case did not finish within 120 s");
            1
        }
    }
}

// ---------------------------------------------------------------------------------------

/// `--probe <file.did>`: what the subject says about an arbitrary text (triage aid; no
/// reference verdict, because R8 is defined on the AST)
fn probe(path: &str) -> i32 {
    let text = std::fs::read_to_string(path).expect("probe file");
    let t0 = Instant::now();
    let (v, acc) = subject::front(&text);
    println!("front end: {} ({:.3} s)", v.text(), t0.elapsed().as_secs_f64());
    if let Some(acc) = acc {
        let t0 = Instant::now();
        let pbs = subject::downstream(&text, &acc, None, None, true);
        println!("downstream: {} problems ({:.3} s)", pbs.len(), t0.elapsed().as_secs_f64());
        for p in pbs.iter().take(10) {
            println!("  {} {} :: {}", p.clause, p.op, p.msg);
        }
    }
    0
}

struct Args {
    probe: Option<String>,
    tier: Tier,
    replay: Option<String>,
    replay_inner: Option<String>,
    worker: bool,
    in_process: bool,
    journal: Option<String>,
    dead: Option<String>,
}

fn parse_args() -> Args {
    let args: Vec<String> = std::env::args().collect();
    let mut a = Args {
        tier: match std::env::var("VERIF_TIER").as_deref() {
            Ok("thorough") => Tier::Thorough,
            _ => Tier::Quick,
        },
        probe: None,
        replay: None,
        replay_inner: None,
        worker: false,
        in_process: false,
        journal: None,
        dead: None,
    };
    let mut i = 1;
    while i < args.len() {
        match args[i].as_str() {
            "--tier" => {
                i += 1;
                a.tier = if args.get(i).map(|s| s.as_str()) == Some("thorough") { Tier::Thorough } else { Tier::Quick };
            }
            "--replay" => {
                i += 1;
                a.replay = args.get(i).cloned();
            }
            "--probe" => {
                i += 1;
                a.probe = args.get(i).cloned();
            }
            "--replay-inner" => {
                i += 1;
                a.replay_inner = args.get(i).cloned();
            }
            "--journal" => {
                i += 1;
                a.journal = args.get(i).cloned();
            }
            "--dead" => {
                i += 1;
                a.dead = args.get(i).cloned();
            }
            "--worker" => a.worker = true,
            "--in-process" => a.in_process = true,
            _ => {}
        }
        i += 1;
    }
    a
}

fn main() {
    // declared stack of every thread spawned from here on (read once by std at first spawn)
    std::env::set_var("RUST_MIN_STACK", STACK_BYTES.to_string());
    install_quiet_panic_hook();
    let a = parse_args();
    let code = if let Some(p) = a.probe {
        std::thread::Builder::new().stack_size(STACK_BYTES).spawn(move || probe(&p)).expect("spawn").join().unwrap_or(2)
    } else if let Some(p) = a.replay_inner {
        // the main thread's stack is not ours to declare: run on a thread
        std::thread::Builder::new().stack_size(STACK_BYTES).spawn(move || replay_inner(&p)).expect("spawn").join().unwrap_or(2)
    } else if let Some(p) = a.replay {
        replay(&p)
    } else if a.worker || a.in_process {
        run_worker(a.tier, a.journal, a.dead)
    } else {
        supervise(a.tier)
    };
    std::process::exit(code);
}
