//! Deterministic search for label names with a prescribed hash (spec: `hash(id) = Sum
//! utf8(id)[i] * 223^(k-i) mod 2^32`). The spec notes that names of up to 4 bytes never
//! collide, so colliding partners are 8-letter lower-case names found by a
//! meet-in-the-middle search: `hash(p ++ s) = hash(p) * 223^4 + hash(s)` for `|s| = 4`.
use refmodel::hash::idl_hash;
use std::collections::HashMap;

const LETTERS: &[u8; 26] = b"abcdefghijklmnopqrstuvwxyz";
const N4: u32 = 26 * 26 * 26 * 26;

fn word4(mut i: u32) -> [u8; 4] {
    let mut w = [0u8; 4];
    for k in (0..4).rev() {
        w[k] = LETTERS[(i % 26) as usize];
        i /= 26;
    }
    w
}

fn hash_bytes(b: &[u8]) -> u32 {
    let mut h: u32 = 0;
    for x in b {
        h = h.wrapping_mul(223).wrapping_add(*x as u32);
    }
    h
}

pub struct Preimage {
    /// hash(prefix) * 223^4 mod 2^32  ->  smallest prefix index
    prefix: HashMap<u32, u32>,
}

impl Preimage {
    pub fn new() -> Preimage {
        let p4: u32 = 223u32.wrapping_pow(4);
        let mut prefix = HashMap::with_capacity(N4 as usize);
        for i in 0..N4 {
            let h = hash_bytes(&word4(i)).wrapping_mul(p4);
            prefix.entry(h).or_insert(i);
        }
        Preimage { prefix }
    }
    /// The first (suffix-major lexicographic) 8-letter name with hash `target` that is
    /// different from `avoid`.
    pub fn name_with_hash(&self, target: u32, avoid: &str) -> String {
        for j in 0..N4 {
            let s = word4(j);
            let need = target.wrapping_sub(hash_bytes(&s));
            if let Some(i) = self.prefix.get(&need) {
                let mut w = word4(*i).to_vec();
                w.extend_from_slice(&s);
                let name = String::from_utf8(w).unwrap();
                if name != avoid {
                    // the reference hash (R7, u128 arithmetic) is the judge
                    assert_eq!(idl_hash(&name), target, "collision search is inconsistent with R7");
                    return name;
                }
            }
        }
        panic!("no 8-letter preimage for hash {target}");
    }
}
