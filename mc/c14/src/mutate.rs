//! (iii) E3: the single-fault alphabet of the property, applied at every position where
//! the construct occurs, and the greedy shrinker that canonicalises a failing program.
use crate::collide::Preimage;
use mclib::progs::{PActor, PFunc, PLabel, PTy, Prog};
use refmodel::ty::{Mode, Prim};

fn nat() -> PTy {
    PTy::Prim(Prim::Nat)
}

// ---------------------------------------------------------------------------------------
// positions: every type node of a program in a fixed pre-order (definitions in order,
// then init arguments, then the actor body)

fn visit<'a>(t: &'a PTy, out: &mut Vec<&'a PTy>) {
    out.push(t);
    match t {
        PTy::Prim(_) | PTy::Var(_) | PTy::Blob => {}
        PTy::Opt(x) | PTy::Vec(x) => visit(x, out),
        PTy::Record(fs) | PTy::Variant(fs) => fs.iter().for_each(|f| visit(&f.1, out)),
        PTy::Func(f) => f.args.iter().chain(f.rets.iter()).for_each(|a| visit(&a.1, out)),
        PTy::Service(ms) => ms.iter().for_each(|m| visit(&m.1, out)),
    }
}

pub fn nodes(p: &Prog) -> Vec<&PTy> {
    let mut out = vec![];
    for d in &p.defs {
        visit(&d.1, &mut out);
    }
    match &p.actor {
        None => {}
        Some(PActor::Service(t)) => visit(t, &mut out),
        Some(PActor::Class(args, t)) => {
            args.iter().for_each(|a| visit(&a.1, &mut out));
            visit(t, &mut out);
        }
    }
    out
}

fn visit_mut(t: &mut PTy, k: &mut isize, f: &mut Option<Box<dyn FnOnce(&mut PTy) + '_>>) {
    if f.is_none() {
        return;
    }
    if *k == 0 {
        (f.take().unwrap())(t);
        return;
    }
    *k -= 1;
    match t {
        PTy::Prim(_) | PTy::Var(_) | PTy::Blob => {}
        PTy::Opt(x) | PTy::Vec(x) => visit_mut(x, k, f),
        PTy::Record(fs) | PTy::Variant(fs) => fs.iter_mut().for_each(|x| visit_mut(&mut x.1, k, f)),
        PTy::Func(fu) => fu.args.iter_mut().chain(fu.rets.iter_mut()).for_each(|a| visit_mut(&mut a.1, k, f)),
        PTy::Service(ms) => ms.iter_mut().for_each(|m| visit_mut(&mut m.1, k, f)),
    }
}

/// A copy of `p` with `f` applied to the node at position `k` (numbering of `nodes`).
pub fn with_node<'f>(p: &Prog, k: usize, f: impl FnOnce(&mut PTy) + 'f) -> Prog {
    let mut q = p.clone();
    let mut k = k as isize;
    let mut f: Option<Box<dyn FnOnce(&mut PTy) + 'f>> = Some(Box::new(f));
    for d in q.defs.iter_mut() {
        visit_mut(&mut d.1, &mut k, &mut f);
    }
    match &mut q.actor {
        None => {}
        Some(PActor::Service(t)) => visit_mut(t, &mut k, &mut f),
        Some(PActor::Class(args, t)) => {
            args.iter_mut().for_each(|a| visit_mut(&mut a.1, &mut k, &mut f));
            visit_mut(t, &mut k, &mut f);
        }
    }
    assert!(f.is_none(), "position out of range");
    q
}

// ---------------------------------------------------------------------------------------
// fault alphabet

/// fresh names (not in `mclib::progs::def_names`, not keywords)
fn z(i: usize) -> String {
    format!("zq{i}")
}

/// `zq0 = zq1; zq1 = zq2; ...; zq{k-1} = zq{k}; zq{k} = end`: a chain with `k` alias hops
fn chain(k: usize, end: PTy) -> Vec<(String, PTy)> {
    let mut d = vec![];
    for i in 0..k {
        d.push((z(i), PTy::Var(z(i + 1))));
    }
    d.push((z(k), end));
    d
}

fn non_funcs() -> Vec<(&'static str, PTy)> {
    vec![("nat", nat()), ("service", PTy::Service(vec![])), ("record", PTy::Record(vec![]))]
}
fn non_services() -> Vec<(&'static str, PTy)> {
    vec![("nat", nat()), ("func", PTy::func(vec![], vec![], vec![])), ("record", PTy::Record(vec![]))]
}

fn name_two(list: &mut Vec<(Option<String>, PTy)>) {
    while list.len() < 2 {
        list.push((None, nat()));
    }
    let n = list.len();
    list[0].0 = Some("dup".into());
    list[n - 1].0 = Some("dup".into());
}

/// Every single-fault mutant of `p` with the name of its fault kind. The verdict of a
/// mutant is always asked from R8 (a fault can accidentally leave a program well-formed).
pub fn mutants(p: &Prog, pre: &Preimage) -> Vec<(String, Prog)> {
    let mut out: Vec<(String, Prog)> = vec![];
    let ns: Vec<PTy> = nodes(p).into_iter().cloned().collect();

    // -- definitions: duplicates and vacuous cycles
    for (i, (n, t)) in p.defs.iter().enumerate() {
        let mut places = vec![0, i + 1, p.defs.len()];
        places.dedup();
        for at in places {
            for (tag, rhs) in [("same", t.clone()), ("other", nat())] {
                let mut q = p.clone();
                q.defs.insert(at, (n.clone(), rhs));
                out.push((format!("dup-def-{tag}"), q));
            }
        }
        // the definition becomes a member of an alias cycle of length len
        for len in 1..=4usize {
            let mut q = p.clone();
            if len == 1 {
                q.defs[i].1 = PTy::Var(n.clone());
            } else {
                q.defs[i].1 = PTy::Var(z(0));
                for j in 0..len - 1 {
                    let next = if j + 2 == len { n.clone() } else { z(j + 1) };
                    q.defs.push((z(j), PTy::Var(next)));
                }
            }
            out.push((format!("cycle-through-def-{len}"), q));
        }
    }
    // a fresh unreferenced cycle, in front of and behind the definitions
    for len in 1..=4usize {
        let cyc: Vec<(String, PTy)> = (0..len).map(|j| (z(j), PTy::Var(z((j + 1) % len)))).collect();
        let mut q = p.clone();
        q.defs.extend(cyc.clone());
        out.push((format!("cycle-fresh-{len}"), q));
        let mut q = p.clone();
        for (j, d) in cyc.iter().enumerate() {
            q.defs.insert(j, d.clone());
        }
        out.push((format!("cycle-fresh-front-{len}"), q));
    }

    // -- per position
    for (k, node) in ns.iter().enumerate() {
        match node {
            PTy::Var(_) => {
                out.push(("undefined-name".into(), with_node(p, k, |t| *t = PTy::var("zq_undefined"))));
            }
            PTy::Record(fs) | PTy::Variant(fs) => {
                for (j, (lab, _)) in fs.iter().enumerate() {
                    let add = |l: PLabel| {
                        with_node(p, k, move |t| {
                            if let PTy::Record(fs) | PTy::Variant(fs) = t {
                                fs.push((l, nat()));
                            }
                        })
                    };
                    out.push(("dup-field-id".into(), add(lab.clone())));
                    if j == 0 {
                        // the duplicate in front
                        let l2 = lab.clone();
                        out.push((
                            "dup-field-id".into(),
                            with_node(p, k, move |t| {
                                if let PTy::Record(fs) | PTy::Variant(fs) = t {
                                    fs.insert(0, (l2, nat()));
                                }
                            }),
                        ));
                    }
                    if let PLabel::Named(s) = lab {
                        out.push(("dup-field-name-vs-number".into(), add(PLabel::Id(lab.id()))));
                        out.push(("hash-collision".into(), add(PLabel::Named(pre.name_with_hash(lab.id(), s)))));
                    } else {
                        out.push(("hash-collision-with-number".into(), add(PLabel::Named(pre.name_with_hash(lab.id(), "")))));
                    }
                }
            }
            PTy::Func(fu) => {
                // oneway with results
                if !fu.rets.is_empty() {
                    out.push((
                        "oneway-with-result".into(),
                        with_node(p, k, |t| {
                            if let PTy::Func(f) = t {
                                f.modes = vec![Mode::Oneway];
                            }
                        }),
                    ));
                }
                if fu.modes == vec![Mode::Oneway] {
                    out.push((
                        "oneway-with-result".into(),
                        with_node(p, k, |t| {
                            if let PTy::Func(f) = t {
                                f.rets.push((None, nat()));
                            }
                        }),
                    ));
                }
                // a second annotation
                let seconds: Vec<Vec<Mode>> = if fu.modes.is_empty() {
                    vec![vec![Mode::Query, Mode::Query], vec![Mode::Query, Mode::CompositeQuery], vec![Mode::CompositeQuery, Mode::Query]]
                } else {
                    [Mode::Query, Mode::Oneway, Mode::CompositeQuery]
                        .iter()
                        .flat_map(|m| {
                            let mut a = fu.modes.clone();
                            a.push(*m);
                            let mut b = vec![*m];
                            b.extend(fu.modes.clone());
                            [a, b]
                        })
                        .collect()
                };
                for ms in seconds {
                    out.push((
                        "two-annotations".into(),
                        with_node(p, k, move |t| {
                            if let PTy::Func(f) = t {
                                f.modes = ms;
                            }
                        }),
                    ));
                }
                // duplicate argument / result names
                out.push((
                    "dup-arg-name".into(),
                    with_node(p, k, |t| {
                        if let PTy::Func(f) = t {
                            name_two(&mut f.args);
                        }
                    }),
                ));
                out.push((
                    "dup-result-name".into(),
                    with_node(p, k, |t| {
                        if let PTy::Func(PFunc { rets, modes, .. }) = t {
                            if !modes.contains(&Mode::Oneway) {
                                name_two(rets);
                            }
                        }
                    }),
                ));
            }
            PTy::Service(ms) => {
                // a method that is not a function: directly, and behind 0..3 alias hops
                let mut targets: Vec<Option<usize>> = (0..ms.len()).map(Some).collect();
                targets.push(None); // an additional method
                for tgt in targets {
                    let put = |bad: PTy, extra: Vec<(String, PTy)>| {
                        let mut q = with_node(p, k, move |t| {
                            if let PTy::Service(ms) = t {
                                match tgt {
                                    Some(j) => ms[j].1 = bad,
                                    None => ms.push(("zq_method".into(), bad)),
                                }
                            }
                        });
                        q.defs.extend(extra);
                        q
                    };
                    out.push(("method-not-func-direct".into(), put(nat(), vec![])));
                    for hops in 0..=3usize {
                        for (tag, end) in non_funcs() {
                            out.push((format!("method-not-func-chain-{hops}-{tag}"), put(PTy::Var(z(0)), chain(hops, end))));
                        }
                    }
                }
                // duplicate method
                for (j, (name, _)) in ms.iter().enumerate() {
                    let name = name.clone();
                    out.push((
                        "dup-method".into(),
                        with_node(p, k, move |t| {
                            if let PTy::Service(ms) = t {
                                ms.insert(j, (name, PTy::func(vec![], vec![], vec![])));
                            }
                        }),
                    ));
                }
            }
            _ => {}
        }
        // a leaf that refers into a fresh alias cycle
        if matches!(node, PTy::Prim(_) | PTy::Var(_) | PTy::Blob) {
            for len in 1..=4usize {
                let mut q = with_node(p, k, |t| *t = PTy::Var(z(0)));
                q.defs.extend((0..len).map(|j| (z(j), PTy::Var(z((j + 1) % len)))));
                out.push((format!("cycle-referenced-{len}"), q));
            }
        }
    }

    // -- init arguments
    if let Some(PActor::Class(_, _)) = &p.actor {
        let mut q = p.clone();
        if let Some(PActor::Class(args, _)) = &mut q.actor {
            name_two(args);
        }
        out.push(("dup-init-arg-name".into(), q));
    }

    // -- the actor is not a service: directly named, and behind 0..3 alias hops
    for hops in 0..=3usize {
        for (tag, end) in non_services() {
            let mut q = p.clone();
            q.defs.extend(chain(hops, end));
            q.actor = Some(match &p.actor {
                Some(PActor::Class(args, _)) => PActor::Class(args.clone(), PTy::Var(z(0))),
                _ => PActor::Service(PTy::Var(z(0))),
            });
            out.push((format!("actor-not-service-chain-{hops}-{tag}"), q));
        }
    }
    {
        let mut q = p.clone();
        q.actor = Some(match &p.actor {
            Some(PActor::Class(args, _)) => PActor::Class(args.clone(), PTy::var("zq_undefined")),
            _ => PActor::Service(PTy::var("zq_undefined")),
        });
        out.push(("actor-undefined".into(), q));
    }
    out
}

// ---------------------------------------------------------------------------------------
// shrinking

/// One-step simplifications of a program (smaller first).
fn simpler(p: &Prog) -> Vec<Prog> {
    let mut out = vec![];
    for i in 0..p.defs.len() {
        let mut q = p.clone();
        q.defs.remove(i);
        out.push(q);
    }
    if p.actor.is_some() {
        let mut q = p.clone();
        q.actor = None;
        out.push(q);
        if let Some(PActor::Class(_, t)) = &p.actor {
            let mut q = p.clone();
            q.actor = Some(PActor::Service(t.clone()));
            out.push(q);
        }
        if let Some(PActor::Class(args, t)) = &p.actor {
            for i in 0..args.len() {
                let mut a = args.clone();
                a.remove(i);
                let mut q = p.clone();
                q.actor = Some(PActor::Class(a, t.clone()));
                out.push(q);
            }
        }
    }
    if p.actor_name.is_some() {
        let mut q = p.clone();
        q.actor_name = None;
        out.push(q);
    }
    let ns: Vec<PTy> = nodes(p).into_iter().cloned().collect();
    // a definition that does not mention itself, inlined at all its uses and removed
    for (i, (name, d)) in p.defs.iter().enumerate() {
        let mut inner = vec![];
        visit(d, &mut inner);
        let unique = p.defs.iter().filter(|x| x.0 == *name).count() == 1;
        if unique && !inner.iter().any(|n| matches!(n, PTy::Var(v) if v == name)) {
            let mut q = p.clone();
            q.defs.remove(i);
            loop {
                let pos = nodes(&q).iter().position(|n| matches!(n, PTy::Var(v) if v == name));
                match pos {
                    Some(k) => {
                        let d = d.clone();
                        q = with_node(&q, k, move |t| *t = d);
                    }
                    None => break,
                }
            }
            out.push(q);
        }
    }
    // canonical definition names t0, t1, ... (all definitions and uses of the old name)
    for (i, (old, _)) in p.defs.iter().enumerate() {
        let new = format!("t{i}");
        if *old != new && !p.defs.iter().any(|d| d.0 == new) && !ns.iter().any(|n| matches!(n, PTy::Var(v) if *v == new)) {
            let mut q = p.clone();
            for d in q.defs.iter_mut() {
                if d.0 == *old {
                    d.0 = new.clone();
                }
            }
            for k in 0..ns.len() {
                if matches!(&ns[k], PTy::Var(v) if v == old) {
                    let new = new.clone();
                    q = with_node(&q, k, move |t| *t = PTy::Var(new));
                }
            }
            out.push(q);
        }
    }
    // a node replaced by one of its children (hoisting)
    for (k, n) in ns.iter().enumerate() {
        let children: Vec<PTy> = match n {
            PTy::Record(fs) | PTy::Variant(fs) => fs.iter().map(|f| f.1.clone()).collect(),
            PTy::Func(f) => f.args.iter().chain(f.rets.iter()).map(|a| a.1.clone()).collect(),
            PTy::Service(ms) => ms.iter().map(|m| m.1.clone()).collect(),
            _ => vec![],
        };
        for c in children {
            out.push(with_node(p, k, move |t| *t = c));
        }
    }
    for (k, n) in ns.iter().enumerate() {
        // replace by a child, by nat, or drop one element of a list
        match n {
            PTy::Prim(Prim::Nat) => {}
            _ => out.push(with_node(p, k, |t| *t = nat())),
        }
        match n {
            PTy::Opt(x) | PTy::Vec(x) => {
                let x = (**x).clone();
                out.push(with_node(p, k, move |t| *t = x));
            }
            PTy::Record(fs) | PTy::Variant(fs) => {
                for j in 0..fs.len() {
                    out.push(with_node(p, k, move |t| {
                        if let PTy::Record(fs) | PTy::Variant(fs) = t {
                            fs.remove(j);
                        }
                    }));
                }
                // canonical labels: the j-th label becomes the number j
                for j in 0..fs.len() {
                    if fs[j].0 != PLabel::Id(j as u32) {
                        out.push(with_node(p, k, move |t| {
                            if let PTy::Record(fs) | PTy::Variant(fs) = t {
                                fs[j].0 = PLabel::Id(j as u32);
                            }
                        }));
                    }
                }
            }
            PTy::Service(ms) => {
                for j in 0..ms.len() {
                    out.push(with_node(p, k, move |t| {
                        if let PTy::Service(ms) = t {
                            ms.remove(j);
                        }
                    }));
                }
                // canonical method names m0, m1, ...
                for j in 0..ms.len() {
                    let name = format!("m{j}");
                    if ms[j].0 != name && !ms.iter().any(|m| m.0 == name) {
                        out.push(with_node(p, k, move |t| {
                            if let PTy::Service(ms) = t {
                                ms[j].0 = name;
                            }
                        }));
                    }
                }
            }
            PTy::Func(f) => {
                for j in 0..f.args.len() {
                    out.push(with_node(p, k, move |t| {
                        if let PTy::Func(f) = t {
                            f.args.remove(j);
                        }
                    }));
                }
                for j in 0..f.rets.len() {
                    out.push(with_node(p, k, move |t| {
                        if let PTy::Func(f) = t {
                            f.rets.remove(j);
                        }
                    }));
                }
                for j in 0..f.modes.len() {
                    out.push(with_node(p, k, move |t| {
                        if let PTy::Func(f) = t {
                            f.modes.remove(j);
                        }
                    }));
                }
                for j in 0..f.args.len() + f.rets.len() {
                    out.push(with_node(p, k, move |t| {
                        if let PTy::Func(f) = t {
                            let n = f.args.len();
                            if j < n {
                                f.args[j].0 = None;
                            } else {
                                f.rets[j - n].0 = None;
                            }
                        }
                    }));
                }
            }
            _ => {}
        }
    }
    out.retain(|q| q != p);
    out
}

fn measure(p: &Prog) -> usize {
    nodes(p).len() + p.defs.len()
}

/// Greedy fixpoint: keep taking the first simplification on which `still_fails` holds.
pub fn shrink(p: &Prog, still_fails: &mut dyn FnMut(&Prog) -> bool) -> Prog {
    let mut cur = p.clone();
    let mut budget = 400;
    'outer: loop {
        for q in simpler(&cur) {
            if budget == 0 {
                break 'outer;
            }
            budget -= 1;
            if measure(&q) <= measure(&cur) && still_fails(&q) {
                cur = q;
                continue 'outer;
            }
        }
        break;
    }
    cur
}
