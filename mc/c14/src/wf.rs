//! R8: well-formedness of Candid programs over the neutral AST of `mclib::progs`
//! (which can express ill-formed programs: definition *lists*, arbitrary names, label
//! lists with repetitions, any type in method / actor position, mode lists, named
//! arguments). Written from spec/Candid.md sections "Services", "Functions", "Records",
//! "Variants", "Type Definitions", "Interfaces"; it shares no code with the subject.
//!
//! The verdict is a set of reasons; a program is well-formed iff the set is empty.
use mclib::progs::{PActor, PFunc, PLabel, PTy, Prog};
use refmodel::ty::Mode;
use std::collections::{BTreeMap, BTreeSet};

pub const UNDEFINED: &str = "undefined-name";
pub const DUP_DEF: &str = "duplicate-definition";
pub const VACUOUS: &str = "vacuous-definition";
pub const DUP_FIELD: &str = "duplicate-field-id";
pub const COLLISION: &str = "hash-collision";
pub const DUP_METHOD: &str = "duplicate-method";
pub const METHOD_NOT_FUNC: &str = "method-not-func";
pub const TWO_ANNOT: &str = "two-annotations";
pub const ONEWAY_RESULT: &str = "oneway-result";
pub const DUP_ARG: &str = "duplicate-arg-name";
pub const ACTOR_NOT_SERVICE: &str = "actor-not-service";
pub const BAD_ID: &str = "definition-name-not-an-identifier";

pub type Reasons = BTreeSet<&'static str>;

enum Res<'a> {
    Undefined,
    Cycle,
    Ty(&'a PTy),
}

struct Ctx<'a> {
    defs: BTreeMap<&'a str, &'a PTy>,
    out: Reasons,
}

/// An argument name is `<name> ::= <id> | <text>`; the printer prints the stored string
/// verbatim, so a stored `"x"` (with quotes) is the text form of the name `x`.
fn arg_name(raw: &str) -> String {
    if raw.len() >= 2 && raw.starts_with('"') && raw.ends_with('"') {
        raw[1..raw.len() - 1].to_string()
    } else {
        raw.to_string()
    }
}

impl<'a> Ctx<'a> {
    /// follow names until something that is not a name
    fn resolve(&self, t: &'a PTy) -> Res<'a> {
        let mut seen: BTreeSet<&str> = BTreeSet::new();
        let mut cur = t;
        while let PTy::Var(n) = cur {
            if !seen.insert(n.as_str()) {
                return Res::Cycle;
            }
            match self.defs.get(n.as_str()) {
                None => return Res::Undefined,
                Some(d) => cur = d,
            }
        }
        Res::Ty(cur)
    }

    fn arg_list(&mut self, args: &'a [(Option<String>, PTy)]) {
        let mut names: BTreeSet<String> = BTreeSet::new();
        for (n, t) in args {
            if let Some(n) = n {
                if !names.insert(arg_name(n)) {
                    self.out.insert(DUP_ARG);
                }
            }
            self.ty(t);
        }
    }

    fn func(&mut self, f: &'a PFunc) {
        // "Functions": the argument and the result list are separate <tuptype>s; duplicate
        // names are not allowed (within a list)
        self.arg_list(&f.args);
        self.arg_list(&f.rets);
        if f.modes.len() > 1 {
            self.out.insert(TWO_ANNOT);
        }
        if f.modes.contains(&Mode::Oneway) && !f.rets.is_empty() {
            self.out.insert(ONEWAY_RESULT);
        }
    }

    fn fields(&mut self, fs: &'a [(PLabel, PTy)]) {
        let mut seen: BTreeMap<u32, Vec<&PLabel>> = BTreeMap::new();
        for (l, t) in fs {
            let e = seen.entry(l.id()).or_default();
            if !e.is_empty() {
                // same spelling, or a name next to its own number: the id occurs twice;
                // two different names: a hash collision
                let named_differently =
                    matches!(l, PLabel::Named(_)) && e.iter().all(|p| matches!(p, PLabel::Named(_)) && *p != l);
                self.out.insert(if named_differently { COLLISION } else { DUP_FIELD });
            }
            e.push(l);
            self.ty(t);
        }
    }

    fn service(&mut self, ms: &'a [(String, PTy)]) {
        let mut names: BTreeSet<&str> = BTreeSet::new();
        for (n, t) in ms {
            if !names.insert(n.as_str()) {
                self.out.insert(DUP_METHOD);
            }
            match t {
                PTy::Func(f) => self.func(f),
                PTy::Var(v) => match self.resolve(t) {
                    Res::Ty(PTy::Func(_)) => {}
                    Res::Undefined => {
                        // the name itself or a later link of the chain
                        if !self.defs.contains_key(v.as_str()) {
                            self.out.insert(UNDEFINED);
                        }
                        self.out.insert(METHOD_NOT_FUNC);
                    }
                    Res::Cycle | Res::Ty(_) => {
                        self.out.insert(METHOD_NOT_FUNC);
                    }
                },
                other => {
                    // <methtype> ::= <name> : (<functype> | <id>)
                    self.out.insert(METHOD_NOT_FUNC);
                    self.ty(other);
                }
            }
        }
    }

    fn ty(&mut self, t: &'a PTy) {
        match t {
            PTy::Prim(_) | PTy::Blob => {}
            PTy::Var(n) => {
                if !self.defs.contains_key(n.as_str()) {
                    self.out.insert(UNDEFINED);
                }
            }
            PTy::Opt(x) | PTy::Vec(x) => self.ty(x),
            PTy::Record(fs) | PTy::Variant(fs) => self.fields(fs),
            PTy::Func(f) => self.func(f),
            PTy::Service(ms) => self.service(ms),
        }
    }

    /// the type after `service :` / after `->` of a constructor
    fn actor_body(&mut self, t: &'a PTy) {
        match t {
            PTy::Service(ms) => self.service(ms),
            PTy::Var(v) => match self.resolve(t) {
                Res::Ty(PTy::Service(_)) => {}
                Res::Undefined => {
                    if !self.defs.contains_key(v.as_str()) {
                        self.out.insert(UNDEFINED);
                    }
                    self.out.insert(ACTOR_NOT_SERVICE);
                }
                Res::Cycle | Res::Ty(_) => {
                    self.out.insert(ACTOR_NOT_SERVICE);
                }
            },
            other => {
                self.out.insert(ACTOR_NOT_SERVICE);
                self.ty(other);
            }
        }
    }
}

pub fn is_identifier(s: &str) -> bool {
    let mut cs = s.chars();
    match cs.next() {
        Some(c) if c.is_ascii_alphabetic() || c == '_' => {}
        _ => return false,
    }
    cs.all(|c| c.is_ascii_alphanumeric() || c == '_')
}

pub fn reasons(p: &Prog) -> Reasons {
    let mut defs: BTreeMap<&str, &PTy> = BTreeMap::new();
    let mut out = Reasons::new();
    for (n, t) in &p.defs {
        if !is_identifier(n) || mclib::progs::CANDID_KEYWORDS.contains(&n.as_str()) {
            out.insert(BAD_ID);
        }
        if defs.contains_key(n.as_str()) {
            out.insert(DUP_DEF);
        } else {
            defs.insert(n.as_str(), t);
        }
    }
    let mut cx = Ctx { defs, out };
    for (n, t) in &p.defs {
        cx.ty(t);
        // "A type definition that is vacuous, i.e., is only equal to itself, is not allowed":
        // the chain of names starting at the definition comes back to a name already seen
        let mut seen: BTreeSet<&str> = BTreeSet::new();
        seen.insert(n.as_str());
        let mut cur = t;
        while let PTy::Var(v) = cur {
            if !seen.insert(v.as_str()) {
                cx.out.insert(VACUOUS);
                break;
            }
            match cx.defs.get(v.as_str()) {
                None => break,
                Some(d) => cur = d,
            }
        }
    }
    match &p.actor {
        None => {}
        Some(PActor::Service(t)) => cx.actor_body(t),
        Some(PActor::Class(args, t)) => {
            cx.arg_list(args);
            cx.actor_body(t);
        }
    }
    cx.out
}

pub fn reasons_text(r: &Reasons) -> String {
    if r.is_empty() {
        "well-formed".to_string()
    } else {
        r.iter().cloned().collect::<Vec<_>>().join("+")
    }
}
