//! (i) The complete small syntactic universe: definition *lists* of length <= K over the
//! names {a, b, c} with right-hand sides from a fixed set of type expressions over
//! {a, b, c, undefined d}, crossed with an optional actor from a fixed set. Programs are
//! addressed by an index (mixed radix), so the sweep needs no materialised list.
use mclib::progs::{PActor, PFunc, PLabel, PTy, Prog};
use refmodel::ty::{Mode, Prim};

pub const NAMES: [&str; 3] = ["a", "b", "c"];

fn nat() -> PTy {
    PTy::Prim(Prim::Nat)
}
fn text() -> PTy {
    PTy::Prim(Prim::Text)
}
fn v(n: &str) -> PTy {
    PTy::var(n)
}
fn l(s: &str) -> PLabel {
    PLabel::named(s)
}
fn f(args: Vec<PTy>, rets: Vec<PTy>, modes: Vec<Mode>) -> PTy {
    PTy::func(args, rets, modes)
}
fn named_func(args: Vec<(&str, PTy)>, rets: Vec<(&str, PTy)>) -> PTy {
    PTy::Func(PFunc {
        args: args.into_iter().map(|(n, t)| (Some(n.to_string()), t)).collect(),
        rets: rets.into_iter().map(|(n, t)| (Some(n.to_string()), t)).collect(),
        modes: vec![],
    })
}
fn svc(ms: Vec<(&str, PTy)>) -> PTy {
    PTy::Service(ms.into_iter().map(|(n, t)| (n.to_string(), t)).collect())
}

/// The right-hand sides. `x` is a name different from "a" with `hash(x) = hash("a")`.
pub fn rhs_set(x: &str) -> Vec<PTy> {
    let mut r = vec![nat(), text()];
    for n in ["a", "b", "c", "d"] {
        r.push(v(n));
    }
    for n in ["a", "b", "c", "d"] {
        r.push(PTy::opt(v(n)));
    }
    for n in ["a", "b", "c", "d"] {
        r.push(PTy::vec(v(n)));
    }
    r.extend([
        PTy::Record(vec![(PLabel::Id(0), nat()), (PLabel::Id(1), v("a"))]),
        PTy::Record(vec![(PLabel::Id(0), nat()), (PLabel::Id(0), text())]),
        PTy::Record(vec![(l("a"), nat()), (l("a"), text())]),
        PTy::Record(vec![(l("a"), nat()), (l(x), text())]),
        PTy::Record(vec![(l("a"), v("b")), (l("b"), PTy::opt(v("a")))]),
        PTy::Variant(vec![(PLabel::Id(0), PTy::Prim(Prim::Null)), (PLabel::Id(1), v("b"))]),
        PTy::Variant(vec![(PLabel::Id(1), nat()), (PLabel::Id(1), nat())]),
        PTy::Variant(vec![(l(x), nat()), (l("a"), nat())]),
        PTy::Variant(vec![(l("a"), nat()), (PLabel::Id(97), nat())]),
        PTy::Record(vec![(l("b"), PTy::Record(vec![(PLabel::Id(0), nat()), (PLabel::Id(0), nat())]))]),
        f(vec![v("a")], vec![], vec![]),
        f(vec![v("a")], vec![], vec![Mode::Query]),
        f(vec![v("a")], vec![], vec![Mode::Oneway]),
        f(vec![v("a")], vec![], vec![Mode::CompositeQuery]),
        f(vec![v("a")], vec![], vec![Mode::Query, Mode::Oneway]),
        f(vec![v("a")], vec![], vec![Mode::Query, Mode::Query]),
        f(vec![], vec![nat()], vec![Mode::Oneway]),
        named_func(vec![("n", nat()), ("n", text())], vec![]),
        named_func(vec![("\"1\"", nat()), ("\"1\"", text())], vec![]),
        named_func(vec![("n", nat())], vec![("n", text())]),
        svc(vec![("m", f(vec![nat()], vec![], vec![]))]),
        svc(vec![("m", v("a"))]),
        svc(vec![("m", v("b")), ("n", v("c"))]),
        svc(vec![("m", v("d"))]),
        svc(vec![("m", f(vec![], vec![], vec![])), ("m", f(vec![], vec![], vec![]))]),
        svc(vec![("m", f(vec![v("b")], vec![v("c")], vec![Mode::Query]))]),
        f(vec![PTy::vec(PTy::Record(vec![(PLabel::Id(0), nat()), (PLabel::Id(0), nat())]))], vec![], vec![]),
        PTy::opt(svc(vec![("m", v("a"))])),
    ]);
    r
}

/// The reduced set used for the 3-definition slice of the quick tier (alias chains and
/// cycles of length 3 need three definitions).
pub fn rhs_reduced() -> Vec<PTy> {
    vec![
        nat(),
        v("a"),
        v("b"),
        v("c"),
        v("d"),
        PTy::opt(v("a")),
        f(vec![v("a")], vec![], vec![]),
        svc(vec![("m", v("a"))]),
        svc(vec![("m", v("c"))]),
        svc(vec![]),
    ]
}

/// The actors; `None` = no actor.
pub fn actor_set() -> Vec<Option<PActor>> {
    let unit = || f(vec![], vec![], vec![]);
    vec![
        None,
        Some(PActor::Service(svc(vec![("m", f(vec![nat()], vec![], vec![]))]))),
        Some(PActor::Service(v("a"))),
        Some(PActor::Service(v("d"))),
        Some(PActor::Class(vec![(None, v("a"))], svc(vec![("m", unit())]))),
        Some(PActor::Class(vec![(None, nat())], v("a"))),
        Some(PActor::Class(vec![(Some("n".into()), nat()), (Some("n".into()), text())], svc(vec![]))),
        Some(PActor::Service(svc(vec![("m", v("a"))]))),
        Some(PActor::Service(svc(vec![("m", v("b"))]))),
        Some(PActor::Service(svc(vec![("m", v("c"))]))),
        Some(PActor::Service(svc(vec![("m", v("d"))]))),
        Some(PActor::Service(svc(vec![("m", unit()), ("m", unit())]))),
        Some(PActor::Service(svc(vec![("m", f(vec![v("a")], vec![v("b")], vec![Mode::Query]))]))),
    ]
}

pub struct Universe {
    pub rhs: Vec<PTy>,
    pub actors: Vec<Option<PActor>>,
    pub max_defs: usize,
    /// number of programs with exactly k definitions, k = 0..=max_defs
    sizes: Vec<u64>,
}

impl Universe {
    pub fn new(rhs: Vec<PTy>, actors: Vec<Option<PActor>>, min_defs: usize, max_defs: usize) -> Universe {
        let d = (NAMES.len() * rhs.len()) as u64;
        let a = actors.len() as u64;
        let sizes = (0..=max_defs).map(|k| if k < min_defs { 0 } else { d.pow(k as u32) * a }).collect();
        Universe { rhs, actors, max_defs, sizes }
    }
    pub fn total(&self) -> u64 {
        self.sizes.iter().sum()
    }
    pub fn program(&self, mut index: u64) -> Prog {
        let mut k = 0;
        while index >= self.sizes[k] {
            index -= self.sizes[k];
            k += 1;
        }
        let a = self.actors.len() as u64;
        let actor = self.actors[(index % a) as usize].clone();
        index /= a;
        let d = (NAMES.len() * self.rhs.len()) as u64;
        let mut defs = vec![];
        for _ in 0..k {
            let x = (index % d) as usize;
            index /= d;
            defs.push((NAMES[x % NAMES.len()].to_string(), self.rhs[x / NAMES.len()].clone()));
        }
        Prog { defs, actor, actor_name: None }
    }
}
