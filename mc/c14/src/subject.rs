//! Calls into the subject: the front end (parser + `check_prog` / `check_init_args` /
//! `check_file`) and the consumers that assume a checked environment is closed.
use candid::types::subtype::{subtype, Gamma};
use candid::types::{Type, TypeEnv, TypeInner};
use candid::IDLArgs;
use candid_parser::syntax::{IDLInitArgs, IDLMergedProg, IDLProg};
use mclib::bridge;
use mclib::engine::catch;
use mclib::progs::Prog;
use refmodel::gen::{self, ValDomain};
use refmodel::ty::Ty;
use std::path::Path;

pub enum Verdict {
    Accepted,
    ParseError(String),
    CheckError(String),
    Panic(String),
}
impl Verdict {
    pub fn accepted(&self) -> bool {
        matches!(self, Verdict::Accepted)
    }
    pub fn class(&self) -> &'static str {
        match self {
            Verdict::Accepted => "accepted",
            Verdict::ParseError(_) => "parse-error",
            Verdict::CheckError(_) => "check-error",
            Verdict::Panic(_) => "front-end-panic",
        }
    }
    pub fn text(&self) -> String {
        match self {
            Verdict::Accepted => "accepted".into(),
            Verdict::ParseError(e) => format!("parse error: {e}"),
            Verdict::CheckError(e) => format!("check error: {e}"),
            Verdict::Panic(e) => format!("panic: {e}"),
        }
    }
}

pub struct Accepted {
    pub te: TypeEnv,
    pub actor: Option<Type>,
}

/// text -> IDLProg -> check_prog on an empty environment (what `didc check` does for a
/// file without imports)
pub fn front(src: &str) -> (Verdict, Option<Accepted>) {
    let r = catch(|| {
        let ast: IDLProg = match src.parse() {
            Ok(a) => a,
            Err(e) => return (Verdict::ParseError(one_line(&e.to_string())), None),
        };
        let mut te = TypeEnv::new();
        match candid_parser::check_prog(&mut te, &ast) {
            Ok(actor) => (Verdict::Accepted, Some(Accepted { te, actor })),
            Err(e) => (Verdict::CheckError(one_line(&e.to_string())), None),
        }
    });
    match r {
        Ok(x) => x,
        Err(p) => (Verdict::Panic(p), None),
    }
}

/// `<defs> (<args>)` through `check_init_args` with an empty main environment
pub fn front_init_args(src: &str) -> Verdict {
    let r = catch(|| {
        let ast: IDLInitArgs = match src.parse() {
            Ok(a) => a,
            Err(e) => return Verdict::ParseError(one_line(&e.to_string())),
        };
        let mut te = TypeEnv::new();
        match candid_parser::typing::check_init_args(&mut te, &TypeEnv::new(), &ast) {
            Ok(_) => Verdict::Accepted,
            Err(e) => Verdict::CheckError(one_line(&e.to_string())),
        }
    });
    r.unwrap_or_else(Verdict::Panic)
}

/// `check_file` (imports are loaded and merged)
pub fn front_file(path: &Path) -> (Verdict, Option<(Accepted, IDLMergedProg)>) {
    let r = catch(|| match candid_parser::check_file(path) {
        Ok((te, actor, merged)) => (Verdict::Accepted, Some((Accepted { te, actor }, merged))),
        Err(e) => {
            let s = one_line(&e.to_string());
            // candid_parser::Error::Parse / Custom are not distinguishable by text alone; the
            // class is informative only
            (Verdict::CheckError(s), None)
        }
    });
    match r {
        Ok(x) => x,
        Err(p) => (Verdict::Panic(p), None),
    }
}

fn one_line(s: &str) -> String {
    let mut t: String = s.split_whitespace().collect::<Vec<_>>().join(" ");
    if t.len() > 160 {
        let mut cut = 160;
        while !t.is_char_boundary(cut) {
            cut -= 1;
        }
        t.truncate(cut);
    }
    t
}

/// A downstream operation that did not complete as a closed environment guarantees.
pub struct Problem {
    /// "panic-after-accept" or "error-after-accept"
    pub clause: &'static str,
    /// the operation, e.g. "bind-rust", "self-subtype"
    pub op: String,
    pub msg: String,
}

fn need_ok<T, E: std::fmt::Display>(out: &mut Vec<Problem>, op: &str, r: Result<Result<T, E>, String>) -> Option<T> {
    match r {
        Ok(Ok(v)) => Some(v),
        Ok(Err(e)) => {
            out.push(Problem { clause: "error-after-accept", op: op.to_string(), msg: one_line(&e.to_string()) });
            None
        }
        Err(p) => {
            out.push(Problem { clause: "panic-after-accept", op: op.to_string(), msg: p });
            None
        }
    }
}
fn need_no_panic<T>(out: &mut Vec<Problem>, op: &str, r: Result<T, String>) -> Option<T> {
    match r {
        Ok(v) => Some(v),
        Err(p) => {
            out.push(Problem { clause: "panic-after-accept", op: op.to_string(), msg: p });
            None
        }
    }
}

/// Everything the property lists as relying on closedness. `model`: the neutral AST when
/// R8 calls it well-formed (then small values of every definition are encoded).
/// `merged`: the merged program the generators want (re-parsed from `src` when absent).
///
/// `motoko`: the Motoko generator documents (by an explicit panic naming the method) that
/// it needs method names that are Motoko identifiers (C19 states the same precondition);
/// it is run only on programs all of whose method names are identifiers.
pub fn downstream(src: &str, acc: &Accepted, model: Option<&Prog>, merged: Option<&IDLMergedProg>, motoko: bool) -> Vec<Problem> {
    let bindings = true;
    let mut out = vec![];
    let te = &acc.te;
    for (name, ty) in te.0.iter() {
        let var: Type = TypeInner::Var(name.clone()).into();
        need_ok(&mut out, "trace_type", catch(|| te.trace_type(ty)));
        need_ok(&mut out, "trace_type", catch(|| te.trace_type(&var)));
        need_ok(&mut out, "rec_find_type", catch(|| te.rec_find_type(name).map(|_| ())));
        need_no_panic(&mut out, "as_func", catch(|| te.as_func(&var).is_ok()));
        need_no_panic(&mut out, "as_service", catch(|| te.as_service(&var).is_ok()));
        need_ok(&mut out, "self-subtype", catch(|| subtype(&mut Gamma::new(), te, ty, ty)));
        need_ok(&mut out, "self-subtype", catch(|| subtype(&mut Gamma::new(), te, &var, ty)));
        need_ok(
            &mut out,
            "chase_type",
            catch(|| {
                let mut seen = std::collections::BTreeSet::new();
                let mut res = vec![];
                candid_parser::bindings::analysis::chase_type(&mut seen, &mut res, te, ty)
            }),
        );
    }
    if let Some(actor) = &acc.actor {
        need_ok(&mut out, "trace_type(actor)", catch(|| te.trace_type(actor)));
        if let Some(serv) = need_ok(&mut out, "as_service(actor)", catch(|| te.as_service(actor))) {
            for (m, t) in serv {
                need_ok(&mut out, &format!("as_func(method {m:?})"), catch(|| te.as_func(t).map(|_| ())));
            }
        }
        need_ok(&mut out, "chase_actor", catch(|| candid_parser::bindings::analysis::chase_actor(te, actor).map(|_| ())));
        need_ok(&mut out, "chase_def_use", catch(|| candid_parser::bindings::analysis::chase_def_use(te, actor).map(|_| ())));
        need_ok(&mut out, "self-subtype(actor)", catch(|| subtype(&mut Gamma::new(), te, actor, actor)));
    }
    if let Some(p) = model {
        let (menv, _) = p.to_model();
        let dom = ValDomain::tiny();
        for (name, _) in &p.defs {
            let vals = gen::values(&menv, &Ty::var(name), &dom, 2);
            let mut picks = vec![];
            if let Some(v) = vals.first() {
                picks.push(v.clone());
            }
            if vals.len() > 1 {
                picks.push(vals[vals.len() - 1].clone());
            }
            for v in picks {
                let Ok(idl) = bridge::to_idl(&v, false) else { continue };
                let ty: Type = TypeInner::Var(name.clone()).into();
                need_ok(&mut out, "encode", catch(|| IDLArgs { args: vec![idl.clone()] }.to_bytes_with_types(te, &[ty.clone()])));
            }
        }
    }
    if bindings {
        let owned;
        let merged = match merged {
            Some(m) => m,
            None => match catch(|| src.parse::<IDLProg>().map(IDLMergedProg::new)) {
                Ok(Ok(m)) => {
                    owned = m;
                    &owned
                }
                _ => return out,
            },
        };
        need_no_panic(&mut out, "bind-javascript", catch(|| candid_parser::bindings::javascript::compile(te, &acc.actor).len()));
        need_no_panic(&mut out, "bind-typescript", catch(|| candid_parser::bindings::typescript::compile(te, &acc.actor, merged).len()));
        if motoko {
            need_no_panic(&mut out, "bind-motoko", catch(|| candid_parser::bindings::motoko::compile(te, &acc.actor, merged).len()));
        }
        need_no_panic(
            &mut out,
            "bind-rust",
            catch(|| {
                use candid_parser::bindings::rust::{compile, Config, ExternalConfig};
                let configs: candid_parser::configs::Configs = "".parse().unwrap();
                let config = Config::new(configs);
                compile(&config, te, &acc.actor, merged, ExternalConfig::default()).0.len()
            }),
        );
    }
    out
}
