//! JSON form of the neutral AST (replay files carry the AST, because the reference
//! verdict R8 is defined on the AST, next to the program text given to the subject).
use mclib::progs::{PActor, PFunc, PLabel, PTy, Prog};
use refmodel::ty::{Mode, Prim};
use serde_json::{json, Value};

fn args_json(a: &[(Option<String>, PTy)]) -> Value {
    Value::Array(a.iter().map(|(n, t)| json!({"name": n, "ty": ty_json(t)})).collect())
}
fn fields_json(fs: &[(PLabel, PTy)]) -> Value {
    Value::Array(
        fs.iter()
            .map(|(l, t)| match l {
                PLabel::Id(n) => json!({"id": n, "ty": ty_json(t)}),
                PLabel::Named(s) => json!({"label": s, "ty": ty_json(t)}),
            })
            .collect(),
    )
}

pub fn ty_json(t: &PTy) -> Value {
    match t {
        PTy::Prim(p) => json!({"prim": p.name()}),
        PTy::Var(v) => json!({"var": v}),
        PTy::Opt(x) => json!({"opt": ty_json(x)}),
        PTy::Vec(x) => json!({"vec": ty_json(x)}),
        PTy::Blob => json!({"blob": true}),
        PTy::Record(fs) => json!({"record": fields_json(fs)}),
        PTy::Variant(fs) => json!({"variant": fields_json(fs)}),
        PTy::Func(f) => json!({"func": {"args": args_json(&f.args), "rets": args_json(&f.rets),
            "modes": f.modes.iter().map(|m| m.name()).collect::<Vec<_>>()}}),
        PTy::Service(ms) => json!({"service": ms.iter().map(|(n, t)| json!({"method": n, "ty": ty_json(t)})).collect::<Vec<_>>()}),
    }
}

pub fn prog_json(p: &Prog) -> Value {
    let actor = match &p.actor {
        None => Value::Null,
        Some(PActor::Service(t)) => json!({"service": ty_json(t)}),
        Some(PActor::Class(a, t)) => json!({"class": {"args": args_json(a), "ty": ty_json(t)}}),
    };
    json!({
        "defs": p.defs.iter().map(|(n, t)| json!({"name": n, "ty": ty_json(t)})).collect::<Vec<_>>(),
        "actor": actor,
        "actor_name": p.actor_name,
    })
}

fn args_from(v: &Value) -> Option<Vec<(Option<String>, PTy)>> {
    v.as_array()?.iter().map(|a| Some((a["name"].as_str().map(|s| s.to_string()), ty_from(&a["ty"])?))).collect()
}
fn fields_from(v: &Value) -> Option<Vec<(PLabel, PTy)>> {
    v.as_array()?
        .iter()
        .map(|f| {
            let l = match f.get("id") {
                Some(n) => PLabel::Id(n.as_u64()? as u32),
                None => PLabel::Named(f["label"].as_str()?.to_string()),
            };
            Some((l, ty_from(&f["ty"])?))
        })
        .collect()
}

pub fn ty_from(v: &Value) -> Option<PTy> {
    let o = v.as_object()?;
    let (k, x) = o.iter().next()?;
    Some(match k.as_str() {
        "prim" => PTy::Prim(Prim::ALL.iter().copied().find(|p| p.name() == x.as_str().unwrap_or(""))?),
        "var" => PTy::Var(x.as_str()?.to_string()),
        "opt" => PTy::opt(ty_from(x)?),
        "vec" => PTy::vec(ty_from(x)?),
        "blob" => PTy::Blob,
        "record" => PTy::Record(fields_from(x)?),
        "variant" => PTy::Variant(fields_from(x)?),
        "func" => PTy::Func(PFunc {
            args: args_from(&x["args"])?,
            rets: args_from(&x["rets"])?,
            modes: x["modes"]
                .as_array()?
                .iter()
                .map(|m| [Mode::Query, Mode::Oneway, Mode::CompositeQuery].into_iter().find(|q| Some(q.name()) == m.as_str()))
                .collect::<Option<Vec<_>>>()?,
        }),
        "service" => PTy::Service(
            x.as_array()?.iter().map(|m| Some((m["method"].as_str()?.to_string(), ty_from(&m["ty"])?))).collect::<Option<Vec<_>>>()?,
        ),
        _ => return None,
    })
}

pub fn prog_from(v: &Value) -> Option<Prog> {
    let defs = v["defs"].as_array()?.iter().map(|d| Some((d["name"].as_str()?.to_string(), ty_from(&d["ty"])?))).collect::<Option<Vec<_>>>()?;
    let actor = match &v["actor"] {
        Value::Null => None,
        a => {
            if let Some(t) = a.get("service") {
                Some(PActor::Service(ty_from(t)?))
            } else {
                let c = a.get("class")?;
                Some(PActor::Class(args_from(&c["args"])?, ty_from(&c["ty"])?))
            }
        }
    };
    Some(Prog { defs, actor, actor_name: v["actor_name"].as_str().map(|s| s.to_string()) })
}
