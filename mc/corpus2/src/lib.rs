//! one share of the corpus registry (split so that cargo compiles the shares in parallel)
pub fn register(v: &mut Vec<corpus::Entry>) {
    corpus::elem_reg!(v; i32, i64, f32, f64, usize, String, candid::Nat);
}
