//! one share of the corpus registry (split so that cargo compiles the shares in parallel)
pub fn register(v: &mut Vec<corpus::Entry>) {
    corpus::kv_reg!(v; candid::Int, candid::Principal);
    corpus::keyc_reg!(v; u8, u64, i8, bool, String, candid::Nat, candid::Int, candid::Principal);
    corpus::types::register_misc(v);
}
