//! Program families aimed at the nominalisation step of the Rust binding generator
//! (in addition to `mclib::progs::{default_programs, plain_programs}`).
//! Every program is well-formed by construction; the real front end is still asked and a
//! rejected program is counted, never silently dropped.
use mclib::progs::{PActor, PFunc, PLabel, PTy, Prog, CANDID_KEYWORDS};
use refmodel::ty::{Mode, Prim};

fn p(x: Prim) -> PTy {
    PTy::Prim(x)
}
fn nat() -> PTy {
    p(Prim::Nat)
}
fn text() -> PTy {
    p(Prim::Text)
}
fn l(s: &str) -> PLabel {
    PLabel::named(s)
}
fn rec(fs: Vec<(&str, PTy)>) -> PTy {
    PTy::Record(fs.into_iter().map(|(n, t)| (l(n), t)).collect())
}
fn var(fs: Vec<(&str, PTy)>) -> PTy {
    PTy::Variant(fs.into_iter().map(|(n, t)| (l(n), t)).collect())
}
fn tuple(ts: Vec<PTy>) -> PTy {
    PTy::Record(ts.into_iter().enumerate().map(|(i, t)| (PLabel::Id(i as u32), t)).collect())
}
fn func(a: Vec<PTy>, r: Vec<PTy>, m: Vec<Mode>) -> PTy {
    PTy::func(a, r, m)
}
fn serv(ms: Vec<(&str, PTy)>) -> PTy {
    PTy::Service(ms.into_iter().map(|(n, t)| (n.to_string(), t)).collect())
}
fn v(s: &str) -> PTy {
    PTy::var(s)
}
fn prog(defs: Vec<(&str, PTy)>, actor: Option<PActor>) -> Prog {
    Prog { defs: defs.into_iter().map(|(n, t)| (n.to_string(), t)).collect(), actor, actor_name: None }
}
fn actor1(m: &str, a: Vec<PTy>, r: Vec<PTy>) -> Option<PActor> {
    Some(PActor::Service(serv(vec![(m, func(a, r, vec![]))])))
}
/// an actor whose single method mentions every definition (so all are reachable)
fn actor_using(defs: &[&str]) -> Option<PActor> {
    actor1("use_all", defs.iter().map(|d| v(d)).collect(), vec![])
}

/// Rust strict/reserved/weak keywords (Rust reference, "Keywords"), incl. those that cannot be raw identifiers.
pub const RUST_KEYWORDS: &[&str] = &[
    "self", "Self", "super", "crate", "_", "as", "break", "const", "continue", "else", "enum", "extern", "false", "fn", "for",
    "if", "impl", "in", "let", "loop", "match", "mod", "move", "mut", "pub", "ref", "return", "static", "struct", "trait",
    "true", "type", "unsafe", "use", "where", "while", "async", "await", "dyn", "abstract", "become", "box", "do", "final",
    "macro", "override", "priv", "typeof", "unsized", "virtual", "yield", "try", "gen", "union", "macro_rules", "raw", "safe",
];

/// usable as a definition name in Candid source (identifier, not a Candid keyword or boolean literal)
fn is_def_name(s: &str) -> bool {
    !s.is_empty()
        && !CANDID_KEYWORDS.contains(&s)
        && s != "true"
        && s != "false"
        && s.chars().all(|c| c.is_ascii_alphanumeric() || c == '_')
        && !s.chars().next().unwrap().is_ascii_digit()
}

/// One or two small programs per shape class; part of both tiers.
pub fn sentinels() -> Vec<Prog> {
    let rx = || rec(vec![("x", nat())]);
    let ry = || rec(vec![("y", text())]);
    vec![
        // path names meeting after case conversion
        prog(vec![("a_b", rec(vec![("c", rx())])), ("a", rec(vec![("b_c", ry())]))], None),
        prog(vec![("a_b", rec(vec![("c", rx())])), ("a", rec(vec![("b_c", ry())]))], actor_using(&["a", "a_b"])),
        prog(vec![("a_inner", ry()), ("a", PTy::opt(rx()))], None),
        prog(vec![("aB", rx()), ("a_b", ry())], None),
        prog(vec![("a", nat()), ("A", text())], actor_using(&["a", "A"])),
        prog(vec![("r", rec(vec![("a_b", nat()), ("aB", text())]))], None),
        prog(vec![("w", var(vec![("a", p(Prim::Null)), ("A", text())]))], None),
        prog(vec![], Some(PActor::Service(serv(vec![("a_b", func(vec![rx()], vec![], vec![])), ("aB", func(vec![ry()], vec![], vec![]))])))),
        // labels
        prog(vec![("d", PTy::Record(vec![(PLabel::Id(1), nat())]))], None),
        prog(vec![("d", PTy::Variant(vec![(PLabel::Id(0), nat()), (PLabel::Id(1), p(Prim::Null))]))], actor_using(&["d"])),
        prog(vec![("d", tuple(vec![nat()]))], None),
        prog(vec![("d", var(vec![("u", tuple(vec![nat()])), ("t", tuple(vec![nat(), text()]))]))], None),
        prog(vec![("d", rec(vec![("", nat())]))], None),
        prog(vec![("d", rec(vec![("é", nat()), ("a b", text())]))], actor_using(&["d"])),
        prog(vec![("r", PTy::Record(vec![(PLabel::Id(5), nat()), (l("_5_"), text())]))], None),
        prog(vec![("d", serv(vec![("a\"b", func(vec![nat()], vec![], vec![]))]))], None),
        prog(vec![("d", serv(vec![("a b", func(vec![nat()], vec![], vec![Mode::Query]))]))], actor_using(&["d"])),
        // keywords
        prog(vec![("d", rec(vec![("self", nat()), ("type", text()), ("fn", nat()), ("crate", nat())]))], actor_using(&["d"])),
        prog(vec![("d", var(vec![("self", p(Prim::Null)), ("Self", nat()), ("super", text())]))], None),
        prog(vec![("self", rx()), ("Self", PTy::opt(v("self"))), ("crate", PTy::vec(v("Self")))], actor_using(&["crate"])),
        prog(vec![("d", rec(vec![("self", nat()), ("Self", text())]))], None),
        // recursion
        prog(vec![("list", PTy::opt(rec(vec![("head", nat()), ("tail", v("list"))])))], actor_using(&["list"])),
        prog(vec![("tree", var(vec![("leaf", nat()), ("node", rec(vec![("l", v("tree")), ("r", v("tree"))]))]))], actor_using(&["tree"])),
        prog(vec![("a", rec(vec![("b", PTy::opt(v("b")))])), ("b", var(vec![("a", v("a")), ("z", p(Prim::Null))]))], actor_using(&["a"])),
        prog(vec![("t", rec(vec![("kids", PTy::vec(v("t")))]))], None),
        prog(vec![("a", rec(vec![("next", v("a"))]))], None),
        prog(vec![("a", var(vec![("Ok", v("a")), ("Err", text())]))], None),
        prog(vec![("f", func(vec![v("f")], vec![PTy::opt(v("f"))], vec![])), ("s", serv(vec![("next", func(vec![], vec![v("s")], vec![Mode::Query])), ("f", v("f"))]))], Some(PActor::Service(v("s")))),
        // Result, blob, prims, tuples, empty
        prog(vec![("r", var(vec![("Ok", rx()), ("Err", var(vec![("e", text())]))])), ("m", var(vec![("ok", nat()), ("err", text())]))], actor_using(&["r", "m"])),
        prog(vec![("d", rec(vec![("b", PTy::Blob), ("ob", PTy::opt(PTy::Blob)), ("t", tuple(vec![nat(), PTy::Blob])), ("e", PTy::Record(vec![])), ("w", PTy::Variant(vec![]))]))], actor_using(&["d"])),
        prog(vec![("d", PTy::Record(Prim::ALL.iter().enumerate().map(|(i, pr)| (l(&format!("f{i}")), p(*pr))).collect()))], actor_using(&["d"])),
        // names the emitted text itself relies on
        prog(vec![("String", nat()), ("user", rec(vec![("t", text()), ("s", v("String"))]))], actor_using(&["user"])),
        prog(vec![("Principal", rx())], None),
        prog(vec![("Option", rx()), ("user", rec(vec![("o", PTy::opt(nat()))]))], None),
        prog(vec![("Err", serv(vec![("next", func(vec![], vec![v("Err")], vec![]))]))], Some(PActor::Service(v("Err")))),
    ]
}

pub struct Fam {
    pub family: &'static str,
    pub prog: Prog,
}

/// the anonymous composite types placed at every path
fn anon_kinds() -> Vec<(&'static str, PTy)> {
    vec![
        ("record", rec(vec![("x", nat())])),
        ("variant", var(vec![("a", p(Prim::Null)), ("b", text())])),
        ("func", func(vec![nat()], vec![text()], vec![Mode::Query])),
        ("service", serv(vec![("m", func(vec![nat()], vec![], vec![]))])),
        ("empty-record", PTy::Record(vec![])),
        ("empty-variant", PTy::Variant(vec![])),
        ("tuple", tuple(vec![nat(), rec(vec![("y", text())])])),
        ("result", var(vec![("Ok", rec(vec![("x", nat())])), ("Err", var(vec![("e", text())]))])),
        ("nested", rec(vec![("p", rec(vec![("q", var(vec![("r", rec(vec![("s", nat())]))]))]))])),
        ("numeric", PTy::Record(vec![(PLabel::Id(1), nat()), (PLabel::Id(5), rec(vec![("z", nat())]))])),
    ]
}

/// contexts: where the anonymous type is placed
fn contexts(t: &PTy) -> Vec<(&'static str, Prog)> {
    let t = || t.clone();
    vec![
        ("def-body", prog(vec![("d", t())], None)),
        ("record-field", prog(vec![("d", rec(vec![("f", t())]))], None)),
        ("record-field-actor", prog(vec![("d", rec(vec![("f", t())]))], actor_using(&["d"]))),
        ("variant-payload", prog(vec![("d", var(vec![("t", t()), ("u", p(Prim::Null))]))], None)),
        ("record-in-variant-field", prog(vec![("d", var(vec![("t", rec(vec![("f", t())]))]))], None)),
        ("record-in-record-in-variant", prog(vec![("d", var(vec![("t", rec(vec![("g", rec(vec![("f", t())]))]))]))], None)),
        ("vec", prog(vec![("d", PTy::vec(t()))], None)),
        ("opt", prog(vec![("d", PTy::opt(t()))], None)),
        ("opt-vec-field", prog(vec![("d", rec(vec![("f", PTy::opt(PTy::vec(t())))]))], None)),
        ("tuple-component", prog(vec![("d", tuple(vec![nat(), t()]))], None)),
        ("result-ok", prog(vec![("d", var(vec![("Ok", t()), ("Err", text())]))], None)),
        ("result-err-field", prog(vec![("d", rec(vec![("r", var(vec![("Ok", nat()), ("Err", t())]))]))], None)),
        ("func-def-arg", prog(vec![("d", func(vec![t()], vec![], vec![]))], None)),
        ("func-def-ret2", prog(vec![("d", func(vec![nat()], vec![text(), t()], vec![Mode::Query]))], None)),
        ("service-def-method-arg", prog(vec![("d", serv(vec![("m", func(vec![t()], vec![t()], vec![]))]))], None)),
        ("func-in-field-arg", prog(vec![("d", rec(vec![("cb", func(vec![t()], vec![], vec![Mode::Oneway]))]))], None)),
        ("actor-method-arg", prog(vec![], actor1("m", vec![t()], vec![]))),
        ("actor-method-ret", prog(vec![], actor1("m", vec![], vec![nat(), t()]))),
        ("actor-method-arg-vec-opt", prog(vec![], actor1("get_all", vec![PTy::vec(PTy::opt(t()))], vec![]))),
        ("class-init-arg", prog(vec![], Some(PActor::Class(vec![(None, t())], serv(vec![("m", func(vec![], vec![], vec![]))]))))),
        ("two-uses", prog(vec![("d", rec(vec![("f", t()), ("g", PTy::opt(t()))]))], None)),
    ]
}

fn colliding() -> Vec<Prog> {
    let rx = || rec(vec![("x", nat())]);
    let ry = || rec(vec![("y", text())]);
    let vx = || var(vec![("x", nat())]);
    let vy = || var(vec![("y", text()), ("z", p(Prim::Null))]);
    let mut out = vec![];
    // the path names a_b.c / a.b_c
    for (i1, i2) in [(rx(), ry()), (rx(), rx()), (vx(), vy()), (rx(), vy()), (PTy::opt(rx()), PTy::opt(ry())), (PTy::vec(vx()), PTy::vec(vy()))] {
        let defs = vec![("a_b", rec(vec![("c", i1.clone())])), ("a", rec(vec![("b_c", i2.clone())]))];
        out.push(prog(defs.clone(), None));
        out.push(prog(defs, actor_using(&["a", "a_b"])));
    }
    // one definition, two paths with the same joined name
    out.push(prog(vec![("a", rec(vec![("b", rec(vec![("c", rx())])), ("b_c", ry())]))], None));
    out.push(prog(vec![("a", rec(vec![("b_c", rx()), ("bC", ry())]))], None));
    out.push(prog(vec![("a", var(vec![("b", rec(vec![("c", vx())])), ("b_c", vy())]))], None));
    // definition names that meet after case conversion
    let names = ["aB", "a_b", "AB", "Ab", "ab", "a__b", "A_B", "_ab", "ab_", "a", "A"];
    for (i, n1) in names.iter().enumerate() {
        for n2 in names.iter().skip(i + 1) {
            out.push(prog(vec![(n1, rx()), (n2, ry())], None));
        }
    }
    out.push(prog(vec![("aB", rx()), ("a_b", ry()), ("AB", vx())], actor_using(&["aB", "a_b", "AB"])));
    out.push(prog(vec![("a", nat()), ("A", text())], actor_using(&["a", "A"])));
    // a generated name meets a definition name
    out.push(prog(vec![("a_b", ry()), ("a", rec(vec![("b", rx())]))], None));
    out.push(prog(vec![("AB", ry()), ("a", rec(vec![("b", rx())]))], actor_using(&["a", "AB"])));
    out.push(prog(vec![("a_inner", ry()), ("a", PTy::opt(rx()))], None));
    out.push(prog(vec![("a_item", ry()), ("a", PTy::vec(rx()))], None));
    out.push(prog(vec![("a_arg", ry()), ("a", func(vec![rx()], vec![], vec![]))], None));
    out.push(prog(vec![("a_ret", ry()), ("a", func(vec![], vec![rx()], vec![]))], None));
    out.push(prog(vec![("a_arg1", ry()), ("a", func(vec![nat(), rx()], vec![], vec![]))], None));
    out.push(prog(vec![("m_arg", ry())], actor1("m", vec![rx()], vec![v("m_arg")])));
    out.push(prog(vec![("MRet", ry())], actor1("m", vec![v("MRet")], vec![rx()])));
    out.push(prog(vec![("init", ry())], Some(PActor::Class(vec![(None, rx())], serv(vec![("m", func(vec![v("init")], vec![], vec![]))])))));
    out.push(prog(vec![("init_inner", ry())], Some(PActor::Class(vec![(None, PTy::opt(rx()))], serv(vec![("m", func(vec![v("init_inner")], vec![], vec![]))])))));
    out.push(prog(vec![("a1", ry()), ("a", PTy::Record(vec![(PLabel::Id(1), rx()), (PLabel::Id(3), nat())]))], None));
    // two methods / two arguments whose generated names meet
    out.push(prog(vec![], Some(PActor::Service(serv(vec![("a_b", func(vec![rx()], vec![], vec![])), ("aB", func(vec![ry()], vec![], vec![]))])))));
    out.push(prog(vec![], Some(PActor::Service(serv(vec![("m", func(vec![rx(), ry()], vec![vx(), vy()], vec![]))])))));
    out.push(prog(vec![], Some(PActor::Service(serv(vec![("m", func(vec![rx()], vec![], vec![])), ("m_arg", func(vec![], vec![ry()], vec![]))])))));
    out.push(prog(vec![], Some(PActor::Class(vec![(None, rx()), (None, ry())], serv(vec![("m", func(vec![], vec![], vec![]))])))));
    // field / tag names that meet after case conversion
    let pairs = [("a_b", "aB"), ("a", "A"), ("ab", "Ab"), ("a_b", "a__b"), ("aB", "a_B"), ("AB", "a_b"), ("a_b", "A_b"), ("x1", "X1")];
    for (f1, f2) in pairs {
        out.push(prog(vec![("r", rec(vec![(f1, nat()), (f2, text())]))], None));
        out.push(prog(vec![("w", var(vec![(f1, p(Prim::Null)), (f2, text())]))], None));
        out.push(prog(vec![("w", var(vec![(f1, rec(vec![(f1, nat())])), (f2, rec(vec![(f2, nat())]))]))], None));
    }
    // numeric label next to its spelled twin `_N_`
    out.push(prog(vec![("r", PTy::Record(vec![(PLabel::Id(5), nat()), (l("_5_"), text())]))], None));
    out.push(prog(vec![("w", PTy::Variant(vec![(PLabel::Id(5), nat()), (l("_5_"), text())]))], None));
    // hashed spelling `_<hash>_` next to an identifier label of that spelling
    let h = refmodel::hash::idl_hash("a b");
    let twin = format!("_{h}_");
    out.push(Prog { defs: vec![("r".into(), PTy::Record(vec![(l("a b"), nat()), (l(&twin), text())]))], actor: None, actor_name: None });
    out
}

fn keywords(all: bool) -> Vec<Prog> {
    let mut out = vec![];
    let kws: Vec<&str> = if all { RUST_KEYWORDS.to_vec() } else { RUST_KEYWORDS[..5].iter().chain(["type", "fn", "struct", "match", "async", "try", "true", "mod"].iter()).copied().collect() };
    for k in kws {
        let mut spell = vec![k.to_string()];
        // the Pascal / snake twins of the keyword
        let mut cs = k.chars();
        if let Some(c) = cs.next() {
            let up: String = c.to_ascii_uppercase().to_string() + cs.as_str();
            if up != k {
                spell.push(up);
            }
        }
        for s in spell {
            let s = s.as_str();
            if is_def_name(s) {
                // definition name (record and alias), used by an actor
                out.push(prog(vec![(s, rec(vec![("x", nat())]))], actor_using(&[s])));
                out.push(prog(vec![(s, PTy::opt(nat())), ("user", rec(vec![("f", v(s))]))], None));
            }
            out.push(prog(vec![("d", rec(vec![(s, nat()), ("other", text())]))], None));
            out.push(prog(vec![("d", var(vec![(s, p(Prim::Null)), ("other", text())]))], None));
            out.push(prog(vec![("d", var(vec![(s, rec(vec![(s, rec(vec![("x", nat())]))]))]))], None));
            out.push(prog(vec![], actor1(s, vec![rec(vec![(s, nat())])], vec![])));
            out.push(prog(vec![("d", serv(vec![(s, func(vec![], vec![], vec![]))]))], None));
        }
    }
    out
}

fn labels() -> Vec<Prog> {
    let mut out = vec![];
    let weird = ["é", "名", "😀", "a b", "a-b", "1a", "0", "2", "007", "4294967295", "4294967296", "", "\"", "\\", "'", "a\nb", "a\"b", "a\\", "\\\"", "{", "}", "a.b", "a::b", "r#a", "#", "日本語_x"];
    for w in weird {
        out.push(prog(vec![("d", rec(vec![(w, nat())]))], None));
        out.push(prog(vec![("d", var(vec![(w, p(Prim::Null)), ("o", nat())]))], None));
        out.push(prog(vec![("d", rec(vec![(w, rec(vec![("x", nat())]))]))], None));
        out.push(prog(vec![("d", var(vec![(w, rec(vec![(w, nat())]))]))], None));
        out.push(prog(vec![("d", serv(vec![(w, func(vec![nat()], vec![], vec![]))]))], None));
        out.push(prog(vec![], actor1(w, vec![rec(vec![("x", nat())])], vec![var(vec![("y", p(Prim::Null))])])));
    }
    // numeric labels
    let num = |ids: &[u32]| PTy::Record(ids.iter().map(|i| (PLabel::Id(*i), nat())).collect());
    let numv = |ids: &[u32]| PTy::Variant(ids.iter().map(|i| (PLabel::Id(*i), nat())).collect());
    for ids in [&[0u32][..], &[1], &[5], &[0, 1], &[0, 2], &[1, 2], &[0, 1, 2], &[4294967295], &[0, 4294967295], &[7, 9]] {
        out.push(prog(vec![("d", num(ids))], None));
        out.push(prog(vec![("d", numv(ids))], None));
        out.push(prog(vec![("d", rec(vec![("f", num(ids))]))], actor_using(&["d"])));
        out.push(prog(vec![("d", rec(vec![("f", numv(ids))]))], None));
    }
    // mixed named and numeric, numeric holding anonymous types
    out.push(prog(vec![("d", PTy::Record(vec![(PLabel::Id(0), nat()), (l("a"), text())]))], None));
    out.push(prog(vec![("d", PTy::Record(vec![(PLabel::Id(3), rec(vec![("x", nat())])), (l("a"), text())]))], None));
    out.push(prog(vec![("d", PTy::Variant(vec![(PLabel::Id(3), rec(vec![("x", nat())])), (l("a"), p(Prim::Null))]))], None));
    out.push(prog(vec![("d", PTy::Variant(vec![(PLabel::Id(0), tuple(vec![nat(), text()])), (PLabel::Id(1), p(Prim::Null))]))], None));
    out
}

fn recursion() -> Vec<Prog> {
    let mut out = vec![];
    let use_a = || actor_using(&["a"]);
    for act in [false, true] {
        let a = |defs: Vec<(&str, PTy)>| prog(defs, if act { use_a() } else { None });
        // list through opt
        out.push(a(vec![("a", PTy::opt(rec(vec![("head", nat()), ("tail", v("a"))])))]));
        out.push(a(vec![("a", rec(vec![("head", nat()), ("tail", PTy::opt(v("a")))]))]));
        // direct through a record field / tuple component (uninhabited but well-formed)
        out.push(a(vec![("a", rec(vec![("next", v("a"))]))]));
        out.push(a(vec![("a", tuple(vec![nat(), v("a")]))]));
        out.push(a(vec![("a", tuple(vec![v("a")]))]));
        // variants
        out.push(a(vec![("a", var(vec![("leaf", p(Prim::Null)), ("node", tuple(vec![v("a"), v("a")]))]))]));
        out.push(a(vec![("a", var(vec![("leaf", nat()), ("node", rec(vec![("l", v("a")), ("r", v("a"))]))]))]));
        out.push(a(vec![("a", var(vec![("nil", p(Prim::Null)), ("cons", v("a"))]))]));
        // through vec: no Box needed
        out.push(a(vec![("a", rec(vec![("kids", PTy::vec(v("a")))]))]));
        out.push(a(vec![("a", PTy::vec(v("a")))]));
        out.push(a(vec![("a", PTy::opt(v("a")))]));
        out.push(a(vec![("a", PTy::opt(PTy::vec(PTy::opt(v("a")))))]));
        // through an anonymous nested record / variant
        out.push(a(vec![("a", rec(vec![("b", PTy::opt(rec(vec![("c", v("a"))])))]))]));
        out.push(a(vec![("a", rec(vec![("b", rec(vec![("c", PTy::opt(v("a")))]))]))]));
        out.push(a(vec![("a", rec(vec![("b", var(vec![("stop", p(Prim::Null)), ("go", v("a"))]))]))]));
        out.push(a(vec![("a", rec(vec![("b", rec(vec![("c", v("a"))]))]))]));
        // Result-shaped recursion
        out.push(a(vec![("a", var(vec![("Ok", v("a")), ("Err", text())]))]));
        out.push(a(vec![("a", var(vec![("Ok", nat()), ("Err", PTy::opt(v("a")))]))]));
        out.push(a(vec![("a", rec(vec![("r", var(vec![("Ok", v("a")), ("Err", text())]))]))]));
        out.push(a(vec![("a", var(vec![("ok", PTy::vec(v("a"))), ("err", text())]))]));
        // func / service references
        out.push(a(vec![("a", func(vec![v("a")], vec![PTy::opt(v("a"))], vec![]))]));
        out.push(a(vec![("a", serv(vec![("next", func(vec![], vec![v("a")], vec![Mode::Query]))]))]));
        out.push(a(vec![("a", rec(vec![("cb", func(vec![v("a")], vec![], vec![]))]))]));
        out.push(a(vec![("a", rec(vec![("s", serv(vec![("get", func(vec![], vec![v("a")], vec![]))]))]))]));
    }
    // mutual recursion and alias chains
    for act in [None, actor_using(&["a", "b"])] {
        out.push(prog(vec![("a", rec(vec![("b", PTy::opt(v("b")))])), ("b", var(vec![("a", v("a")), ("z", p(Prim::Null))]))], act.clone()));
        out.push(prog(vec![("a", rec(vec![("b", v("b"))])), ("b", rec(vec![("a", PTy::opt(v("a")))]))], act.clone()));
        out.push(prog(vec![("a", rec(vec![("b", v("b"))])), ("b", rec(vec![("a", v("a"))]))], act.clone()));
        out.push(prog(vec![("a", v("b")), ("b", PTy::opt(v("a")))], act.clone()));
        out.push(prog(vec![("a", v("b")), ("b", rec(vec![("a", PTy::opt(v("a")))]))], act.clone()));
        out.push(prog(vec![("a", PTy::opt(v("b"))), ("b", PTy::vec(v("a")))], act.clone()));
        out.push(prog(vec![("a", tuple(vec![v("b"), nat()])), ("b", PTy::opt(v("a")))], act.clone()));
        out.push(prog(vec![("a", func(vec![v("b")], vec![], vec![])), ("b", rec(vec![("f", v("a"))]))], act.clone()));
        out.push(prog(vec![("a", serv(vec![("f", v("b"))])), ("b", func(vec![v("a")], vec![], vec![]))], act.clone()));
    }
    // recursion reachable only from a method / from init args
    out.push(prog(vec![("a", PTy::opt(rec(vec![("n", v("a"))])))], Some(PActor::Class(vec![(None, v("a"))], serv(vec![("m", func(vec![], vec![], vec![]))])))));
    out.push(prog(vec![("s", serv(vec![("me", func(vec![], vec![v("s")], vec![]))]))], Some(PActor::Service(v("s")))));
    out
}

fn results() -> Vec<Prog> {
    let mut out = vec![];
    let payloads = [nat(), p(Prim::Null), rec(vec![("x", nat())]), var(vec![("e1", p(Prim::Null)), ("e2", text())]), tuple(vec![nat(), text()]), PTy::Blob, PTy::opt(text())];
    for (i, ok) in payloads.iter().enumerate() {
        let err = payloads[(i + 3) % payloads.len()].clone();
        for (o, e) in [("Ok", "Err"), ("ok", "err")] {
            let r = var(vec![(o, ok.clone()), (e, err.clone())]);
            out.push(prog(vec![("d", r.clone())], None));
            out.push(prog(vec![("d", rec(vec![("res", r.clone())]))], actor_using(&["d"])));
            out.push(prog(vec![], actor1("m", vec![], vec![r.clone()])));
            out.push(prog(vec![("d", PTy::vec(r.clone()))], None));
        }
    }
    // near misses: not Result-shaped
    for (o, e) in [("Ok", "err"), ("ok", "Err"), ("OK", "ERR"), ("Ok", "Error")] {
        out.push(prog(vec![("d", var(vec![(o, nat()), (e, text())]))], None));
        out.push(prog(vec![("d", rec(vec![("res", var(vec![(o, nat()), (e, text())]))]))], None));
    }
    out.push(prog(vec![("d", var(vec![("Ok", nat())]))], None));
    out.push(prog(vec![("d", var(vec![("Ok", nat()), ("Err", text()), ("Other", p(Prim::Null))]))], None));
    out.push(prog(vec![("d", rec(vec![("Ok", nat()), ("Err", text())]))], None));
    // nested results
    out.push(prog(vec![("d", var(vec![("Ok", var(vec![("Ok", nat()), ("Err", text())])), ("Err", var(vec![("ok", nat()), ("err", text())]))]))], None));
    out
}

fn prims_and_shapes() -> Vec<Prog> {
    let mut out = vec![];
    for pr in Prim::ALL {
        let t = p(pr);
        out.push(prog(vec![("d", t.clone())], None));
        out.push(prog(
            vec![("d", rec(vec![("f", t.clone()), ("o", PTy::opt(t.clone())), ("v", PTy::vec(t.clone()))])), ("w", var(vec![("t", t.clone()), ("u", PTy::vec(PTy::opt(t.clone())))]))],
            actor1("m", vec![t.clone(), v("d")], vec![v("w"), PTy::opt(t.clone())]),
        ));
        out.push(prog(vec![("d", tuple(vec![t.clone(), PTy::opt(t.clone())])), ("f", func(vec![t.clone()], vec![t.clone()], vec![Mode::Query]))], None));
    }
    // blob
    out.push(prog(vec![("d", PTy::Blob)], None));
    out.push(prog(vec![("d", PTy::vec(p(Prim::Nat8)))], actor_using(&["d"])));
    out.push(prog(vec![("d", rec(vec![("b", PTy::Blob), ("ob", PTy::opt(PTy::Blob)), ("vb", PTy::vec(PTy::Blob))]))], None));
    out.push(prog(vec![("d", var(vec![("b", PTy::Blob), ("n", p(Prim::Null))]))], actor1("m", vec![PTy::Blob], vec![PTy::opt(PTy::Blob)])));
    out.push(prog(vec![("d", tuple(vec![PTy::Blob, PTy::Blob]))], None));
    out.push(prog(vec![("d", func(vec![PTy::Blob], vec![PTy::vec(p(Prim::Nat8))], vec![]))], None));
    // empty record / variant
    out.push(prog(vec![("d", PTy::Record(vec![]))], actor_using(&["d"])));
    out.push(prog(vec![("d", PTy::Variant(vec![]))], actor_using(&["d"])));
    out.push(prog(vec![("d", rec(vec![("e", PTy::Record(vec![])), ("w", PTy::Variant(vec![]))]))], None));
    out.push(prog(vec![("d", var(vec![("e", PTy::Record(vec![])), ("w", PTy::Variant(vec![]))]))], None));
    // tuples
    out.push(prog(vec![("d", tuple(vec![nat()]))], None));
    out.push(prog(vec![("d", tuple(vec![nat(), text(), p(Prim::Bool)]))], actor_using(&["d"])));
    out.push(prog(vec![("d", tuple(vec![tuple(vec![nat(), text()]), tuple(vec![tuple(vec![nat()])])]))], None));
    out.push(prog(vec![("d", rec(vec![("t", tuple(vec![nat(), text()]))]))], None));
    out.push(prog(vec![("d", var(vec![("t", tuple(vec![nat(), text()])), ("u", tuple(vec![nat()]))]))], None));
    out.push(prog(vec![("d", PTy::vec(tuple(vec![text(), rec(vec![("x", nat())])])))], None));
    out.push(prog(vec![("d", PTy::Record(vec![(PLabel::Id(1), nat()), (PLabel::Id(0), text())]))], None));
    out.push(prog(vec![], actor1("m", vec![tuple(vec![nat(), text()])], vec![tuple(vec![tuple(vec![nat()])])])));
    // func / service reference definitions with every mode, aliases of them, and uses
    for m in [vec![], vec![Mode::Query], vec![Mode::Oneway], vec![Mode::CompositeQuery]] {
        let rets = if m == vec![Mode::Oneway] { vec![] } else { vec![text(), PTy::opt(nat())] };
        let f = func(vec![nat(), rec(vec![("x", nat())])], rets, m.clone());
        out.push(prog(vec![("f", f.clone())], None));
        out.push(prog(vec![("f", f.clone()), ("g", v("f")), ("h", rec(vec![("cb", v("g")), ("cbs", PTy::vec(v("f")))]))], actor_using(&["h"])));
        out.push(prog(vec![("s", serv(vec![("a", f.clone()), ("b", func(vec![], vec![], vec![]))]))], Some(PActor::Service(v("s")))));
        out.push(prog(vec![("f", f.clone()), ("s", serv(vec![("a", v("f")), ("b", f.clone())])), ("t", v("s"))], actor_using(&["t"])));
    }
    out.push(prog(vec![("s", PTy::Service(vec![]))], actor_using(&["s"])));
    out.push(prog(vec![("f", func(vec![], vec![], vec![]))], actor_using(&["f"])));
    out.push(prog(vec![("s", serv(vec![("m", func(vec![], vec![], vec![]))])), ("d", rec(vec![("s", v("s")), ("p", p(Prim::Principal))]))], Some(PActor::Class(vec![(None, v("d"))], v("s")))));
    out
}

/// definitions whose Rust name meets a name the emitted code itself relies on
fn shadowing() -> Vec<Prog> {
    let mut out = vec![];
    for n in ["string", "vec_", "Vec", "option", "box", "result", "principal_", "candid_type", "deserialize", "ok", "err", "some", "none", "String", "Vec", "Option", "Box", "Result", "Principal", "CandidType", "Deserialize", "candid", "serde_bytes", "std", "u8", "i32", "bool_", "f64", "Nat", "Int", "Reserved", "Empty", "byte_buf", "Func", "Service"] {
        if !is_def_name(n) {
            continue;
        }
        out.push(prog(vec![(n, rec(vec![("t", text()), ("o", PTy::opt(nat())), ("v", PTy::vec(nat())), ("p", p(Prim::Principal)), ("b", PTy::Blob)]))], None));
        out.push(prog(vec![(n, nat()), ("user", rec(vec![("f", v(n)), ("t", text()), ("o", PTy::opt(v(n)))]))], actor_using(&["user"])));
    }
    out
}

pub fn families(thorough: bool) -> Vec<Fam> {
    let mut out = vec![];
    for (kn, t) in anon_kinds() {
        for (cn, pr) in contexts(&t) {
            let _ = (kn, cn);
            out.push(Fam { family: "anon-paths", prog: pr });
        }
    }
    for pr in colliding() {
        out.push(Fam { family: "name-collisions", prog: pr });
    }
    for pr in keywords(thorough) {
        out.push(Fam { family: "rust-keywords", prog: pr });
    }
    for pr in labels() {
        out.push(Fam { family: "labels", prog: pr });
    }
    for pr in recursion() {
        out.push(Fam { family: "recursion", prog: pr });
    }
    for pr in results() {
        out.push(Fam { family: "result-shaped", prog: pr });
    }
    for pr in prims_and_shapes() {
        out.push(Fam { family: "prims-tuples-refs", prog: pr });
    }
    for pr in shadowing() {
        out.push(Fam { family: "shadowing", prog: pr });
    }
    out
}

#[allow(dead_code)]
pub fn _unused(_: PFunc) {}
