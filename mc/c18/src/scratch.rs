//! The generated crate under /verif/work/rsbind/<tag>: layout, build (cargo, offline,
//! JSON diagnostics mapped back to module files), removal of failing modules, execution.
use serde_json::Value;
use std::collections::{BTreeMap, BTreeSet};
use std::path::{Path, PathBuf};
use std::process::Command;

pub const WORK: &str = "/verif/work/rsbind";
pub const TARGET: &str = "/verif/mc/target/rsbind";
pub const DUMP_RS: &str = include_str!("dump_rs.txt");

#[derive(Clone, Debug)]
pub struct Module {
    /// global index: the module is `m<idx>`
    pub idx: usize,
    /// complete text of `m<idx>.rs`
    pub text: String,
    /// 1-based line ranges of the file: [defs_lo, defs_hi] are the generator's type_defs;
    /// lines after `items_lo` are the harness' own item export lines; after `meth_lo` the
    /// method type expressions taken from `Output.methods`
    pub defs_lo: usize,
    pub defs_hi: usize,
    pub meth_lo: usize,
}

#[derive(Clone, Debug)]
pub struct CompileError {
    pub message: String,
    pub code: Option<String>,
    pub line: usize,
    pub rendered: String,
}

#[derive(Debug, Default)]
pub struct BuildResult {
    /// modules that failed to compile with their errors in emission order
    pub failed: BTreeMap<usize, Vec<CompileError>>,
    /// modules that were still in a crate that did not build when the iteration cap was hit
    pub undecided: BTreeSet<usize>,
    /// output lines of the executed checks, by module
    pub lines: BTreeMap<usize, Vec<String>>,
    pub rounds: usize,
    pub cargo_invocations: usize,
    pub build_wall_s: f64,
    /// (wall seconds, binaries that failed) per cargo invocation
    pub round_walls: Vec<(f64, usize)>,
    pub run_wall_s: f64,
}

pub struct Crate {
    pub dir: PathBuf,
    pub bins: Vec<Vec<usize>>,
    /// false: the modules carry only the generator's text (no `check`), nothing is executed
    pub with_checks: bool,
}

fn cargo_toml(tag: &str) -> String {
    format!(
        r#"[package]
name = "rsbind_{tag}"
version = "0.0.0"
edition = "2021"
publish = false

[dependencies]
candid = {{ path = "/repo/rust/candid" }}
serde = {{ version = "1", features = ["derive"] }}
serde_bytes = "0.11"

[profile.dev]
opt-level = 0
debug = 0
incremental = false
overflow-checks = true

# 16 binaries are built in parallel already; few codegen units keep the thread count down
[profile.dev.package.rsbind_{tag}]
codegen-units = 2

# the derive macros (serde_derive, candid_derive) run once per emitted item: optimise them
[profile.dev.build-override]
opt-level = 2
debug = 0

[workspace]
"#
    )
}

fn bin_main(mods: &[usize], with_checks: bool) -> String {
    let mut s = String::from("#![allow(warnings)]\n#[path = \"../../dump.rs\"]\nmod dump;\n");
    for m in mods {
        s.push_str(&format!("mod m{m};\n"));
    }
    s.push_str("fn main() {\n    let mut out: ::std::vec::Vec<::std::string::String> = ::std::vec::Vec::new();\n");
    for m in mods {
        if with_checks {
            s.push_str(&format!("    dump::run(\"m{m}\", m{m}::check, &mut out);\n"));
        }
    }
    s.push_str("    for l in out {\n        println!(\"{}\", l);\n    }\n}\n");
    s
}

pub fn machinery(msg: &str) -> ! {
    eprintln!("ENGINE-ERROR: C18 machinery failure: {msg}");
    std::process::exit(2);
}

impl Crate {
    /// Lay the crate out: `nbins` binaries over contiguous ranges of the modules.
    pub fn create(tag: &str, modules: &[Module], nbins: usize, with_checks: bool) -> Crate {
        let dir = Path::new(WORK).join(tag);
        let _ = std::fs::remove_dir_all(dir.join("src"));
        std::fs::create_dir_all(dir.join("src/bin")).unwrap_or_else(|e| machinery(&format!("mkdir {dir:?}: {e}")));
        std::fs::write(dir.join("Cargo.toml"), cargo_toml(tag)).unwrap_or_else(|e| machinery(&format!("write Cargo.toml: {e}")));
        // the explorer workspace's lock file resolves everything offline
        std::fs::copy("/verif/mc/Cargo.lock", dir.join("Cargo.lock")).unwrap_or_else(|e| machinery(&format!("copy Cargo.lock: {e}")));
        std::fs::write(dir.join("src/dump.rs"), DUMP_RS).unwrap();
        let nbins = nbins.max(1);
        let mut bins: Vec<Vec<usize>> = vec![vec![]; nbins];
        // contiguous ranges: programs of one family (which tend to fail together) share a binary,
        // so that the other binaries build in the first round
        let per = modules.len().div_ceil(nbins).max(1);
        for (k, m) in modules.iter().enumerate() {
            bins[(k / per).min(nbins - 1)].push(m.idx);
        }
        let c = Crate { dir, bins, with_checks };
        for (b, mods) in c.bins.iter().enumerate() {
            let bd = c.dir.join(format!("src/bin/b{b}"));
            std::fs::create_dir_all(&bd).unwrap();
            std::fs::write(bd.join("main.rs"), bin_main(mods, with_checks)).unwrap();
        }
        let by_idx: BTreeMap<usize, &Module> = modules.iter().map(|m| (m.idx, m)).collect();
        for (b, mods) in c.bins.iter().enumerate() {
            for m in mods {
                std::fs::write(c.dir.join(format!("src/bin/b{b}/m{m}.rs")), &by_idx[m].text).unwrap();
            }
        }
        c
    }

    fn rewrite_bin(&self, b: usize) {
        std::fs::write(self.dir.join(format!("src/bin/b{b}/main.rs")), bin_main(&self.bins[b], self.with_checks)).unwrap();
    }

    /// One `cargo build`. Returns (success, errors by (bin, module) in order, executables by bin,
    /// bins that failed, unattributed error texts).
    #[allow(clippy::type_complexity)]
    fn cargo(&self) -> (bool, Vec<(usize, usize, CompileError)>, BTreeMap<usize, String>, BTreeSet<usize>, Vec<String>) {
        let out = Command::new("cargo")
            .args(["build", "--offline", "--bins", "--message-format=json", "--keep-going"])
            .current_dir(&self.dir)
            .env("CARGO_TARGET_DIR", TARGET)
            .env("CARGO_NET_OFFLINE", "true")
            .env_remove("RUSTFLAGS")
            .env_remove("CARGO_ENCODED_RUSTFLAGS")
            .env_remove("RUSTC_WRAPPER")
            .output()
            .unwrap_or_else(|e| machinery(&format!("cannot run cargo: {e}")));
        let stdout = String::from_utf8_lossy(&out.stdout);
        let mut errs = vec![];
        let mut exes = BTreeMap::new();
        let mut failed_bins = BTreeSet::new();
        let mut unattributed = vec![];
        let mut finished = None;
        for line in stdout.lines() {
            let Ok(v) = serde_json::from_str::<Value>(line) else { continue };
            match v["reason"].as_str() {
                Some("compiler-message") => {
                    let m = &v["message"];
                    if m["level"].as_str() != Some("error") {
                        continue;
                    }
                    let text = m["message"].as_str().unwrap_or("").to_string();
                    if text.starts_with("aborting due to") || text.starts_with("could not compile") {
                        continue;
                    }
                    let bin = v["target"]["name"].as_str().and_then(|n| n.strip_prefix('b')).and_then(|n| n.parse::<usize>().ok());
                    if let Some(b) = bin {
                        failed_bins.insert(b);
                    }
                    match (bin, find_module(m)) {
                        (Some(b), Some((idx, line))) => errs.push((
                            b,
                            idx,
                            CompileError {
                                message: text,
                                code: m["code"]["code"].as_str().map(|s| s.to_string()),
                                line,
                                rendered: m["rendered"].as_str().unwrap_or("").to_string(),
                            },
                        )),
                        _ => unattributed.push(format!("{} :: {}", v["target"]["name"], m["rendered"].as_str().unwrap_or(&text))),
                    }
                }
                Some("compiler-artifact") => {
                    if let (Some(exe), Some(name)) = (v["executable"].as_str(), v["target"]["name"].as_str()) {
                        if let Some(b) = name.strip_prefix('b').and_then(|n| n.parse::<usize>().ok()) {
                            exes.insert(b, exe.to_string());
                        }
                    }
                }
                Some("build-finished") => finished = v["success"].as_bool(),
                _ => {}
            }
        }
        let ok = match finished {
            Some(s) => s,
            None => machinery(&format!(
                "cargo produced no build-finished message (status {:?}); stderr: {}",
                out.status.code(),
                String::from_utf8_lossy(&out.stderr).chars().take(3000).collect::<String>()
            )),
        };
        if !ok && errs.is_empty() && unattributed.is_empty() {
            machinery(&format!("cargo build failed without compiler errors; stderr: {}", String::from_utf8_lossy(&out.stderr).chars().take(3000).collect::<String>()));
        }
        (ok, errs, exes, failed_bins, unattributed)
    }

    /// Build; remove modules with errors; rebuild; at most `max_rounds` times. Then run.
    pub fn build_and_run(&mut self, max_rounds: usize) -> BuildResult {
        let t0 = std::time::Instant::now();
        let mut res = BuildResult::default();
        let mut exes: BTreeMap<usize, String> = BTreeMap::new();
        loop {
            res.rounds += 1;
            res.cargo_invocations += 1;
            let tr = std::time::Instant::now();
            let (ok, errs, ex, failed_bins, unattributed) = self.cargo();
            res.round_walls.push((tr.elapsed().as_secs_f64(), failed_bins.len()));
            exes.extend(ex);
            if ok {
                break;
            }
            let mut bad: BTreeMap<usize, BTreeSet<usize>> = BTreeMap::new();
            for (b, idx, e) in errs {
                bad.entry(b).or_default().insert(idx);
                res.failed.entry(idx).or_default().push(e);
            }
            // a binary that failed without any error in one of its modules cannot be repaired
            for b in &failed_bins {
                if !bad.contains_key(b) {
                    machinery(&format!("binary b{b} of the generated crate fails outside the generated modules: {}", unattributed.join("\n")));
                }
            }
            for (b, idxs) in &bad {
                self.bins[*b].retain(|m| !idxs.contains(m));
                for m in idxs {
                    let _ = std::fs::remove_file(self.dir.join(format!("src/bin/b{b}/m{m}.rs")));
                }
                self.rewrite_bin(*b);
                exes.remove(b);
            }
            if res.rounds >= max_rounds {
                for b in bad.keys() {
                    // these binaries were changed and not rebuilt
                    for m in &self.bins[*b] {
                        res.undecided.insert(*m);
                    }
                    self.bins[*b].clear();
                }
                break;
            }
        }
        res.build_wall_s = t0.elapsed().as_secs_f64();
        let t1 = std::time::Instant::now();
        for (b, mods) in self.bins.iter().enumerate() {
            if mods.is_empty() || !self.with_checks {
                continue;
            }
            let Some(exe) = exes.get(&b) else { machinery(&format!("no executable reported for b{b}")) };
            let out = Command::new(exe).output().unwrap_or_else(|e| machinery(&format!("cannot run {exe}: {e}")));
            if !out.status.success() {
                // a crash (stack overflow / abort) inside some module's check: find it by the last END
                machinery(&format!("generated binary b{b} died ({:?}): {}", out.status, String::from_utf8_lossy(&out.stderr).chars().take(2000).collect::<String>()));
            }
            for l in String::from_utf8_lossy(&out.stdout).lines() {
                if let Some(rest) = l.strip_prefix('m') {
                    if let Some((n, _)) = rest.split_once('\t') {
                        if let Ok(idx) = n.parse::<usize>() {
                            res.lines.entry(idx).or_default().push(l.to_string());
                        }
                    }
                }
            }
        }
        res.run_wall_s = t1.elapsed().as_secs_f64();
        res
    }
}

/// The module file (and line in it) a diagnostic belongs to: the primary span, else any
/// span, following macro expansion back to the call site.
fn find_module(m: &Value) -> Option<(usize, usize)> {
    fn in_span(s: &Value) -> Option<(usize, usize)> {
        if let Some(f) = s["file_name"].as_str() {
            if let Some(idx) = module_of_path(f) {
                return Some((idx, s["line_start"].as_u64().unwrap_or(0) as usize));
            }
        }
        if s["expansion"].is_object() {
            return in_span(&s["expansion"]["span"]);
        }
        None
    }
    let spans = m["spans"].as_array()?;
    for s in spans.iter().filter(|s| s["is_primary"].as_bool() == Some(true)) {
        if let Some(r) = in_span(s) {
            return Some(r);
        }
    }
    for s in spans {
        if let Some(r) = in_span(s) {
            return Some(r);
        }
    }
    for c in m["children"].as_array().into_iter().flatten() {
        if let Some(r) = find_module(c) {
            return Some(r);
        }
    }
    None
}

fn module_of_path(f: &str) -> Option<usize> {
    let name = Path::new(f).file_name()?.to_str()?;
    name.strip_prefix('m')?.strip_suffix(".rs")?.parse::<usize>().ok()
}

/// Pre-build the dependencies of the generated crate (candid, serde, serde_bytes) in the
/// shared target directory.
pub fn prepare() -> i32 {
    let mut c = Crate::create("prepare", &[], 1, true);
    // an empty binary still links candid
    let r = c.build_and_run(1);
    println!("c18 --prepare: dependencies of the generated crate built in {TARGET} ({:.1}s)", r.build_wall_s);
    0
}
