//! C18 — the generated Rust binding defines types with the same Candid meaning.
//!
//! E1 with a compile step: every program of the scope is type-checked by the real front
//! end, `emit_bindgen` (default config) is run on it, its `type_defs` become one module of a
//! generated crate under /verif/work/rsbind together with a generated `check()` that
//! exports `<Item as CandidType>::ty()` of every emitted item and of every method
//! argument/result type expression. The crate is built offline (failing modules are mapped
//! back to their program through rustc's JSON diagnostics, removed, and the rest rebuilt),
//! executed, and the exported types are compared with the source program by the reference
//! model's structural equality (R3 `equal`, greatest fixed point).
mod families;
mod oracle;
mod rustlex;
mod scratch;

use mclib::engine::{catch, finish, install_quiet_panic_hook, Ctx, Report, Tier};
use mclib::progs::{self, PActor, PFunc, PLabel, PTy, Prog};
use serde_json::{json, Value};
use std::collections::{BTreeMap, BTreeSet};
use std::sync::Mutex;

fn parse_args() -> (Tier, Option<String>, Vec<String>) {
    let args: Vec<String> = std::env::args().collect();
    let mut tier = match std::env::var("VERIF_TIER").as_deref() {
        Ok("thorough") => Tier::Thorough,
        _ => Tier::Quick,
    };
    let mut replay = None;
    let mut rest = vec![];
    let mut i = 1;
    while i < args.len() {
        match args[i].as_str() {
            "--tier" => {
                i += 1;
                tier = if args.get(i).map(|s| s.as_str()) == Some("thorough") { Tier::Thorough } else { Tier::Quick };
            }
            "--replay" => {
                i += 1;
                replay = args.get(i).cloned();
            }
            o => rest.push(o.to_string()),
        }
        i += 1;
    }
    (tier, replay, rest)
}

// ---------------------------------------------------------------------------------------
// scope

struct Case {
    family: String,
    prog: Prog,
}

fn scope(tier: Tier) -> Vec<Case> {
    let mut out: Vec<Case> = vec![];
    let mut seen: BTreeSet<String> = BTreeSet::new();
    let mut push = |family: &str, p: Prog, out: &mut Vec<Case>| {
        if seen.insert(p.to_did()) {
            out.push(Case { family: family.to_string(), prog: p });
        }
    };
    // complete in both tiers: one or two programs per shape class of the design
    for p in families::sentinels() {
        push("sentinels", p, &mut out);
    }
    // quick: every k-th program of each family (k per family); thorough: all of them
    let fams = families::families(tier == Tier::Thorough);
    let mut pos: BTreeMap<&'static str, usize> = BTreeMap::new();
    for f in fams {
        let k = match tier {
            Tier::Thorough => 1,
            Tier::Quick => match f.family {
                "anon-paths" => 5,
                "recursion" | "name-collisions" => 3,
                _ => 4,
            },
        };
        let n = pos.entry(f.family).or_insert(0);
        if *n % k == 0 {
            push(f.family, f.prog, &mut out);
        }
        *n += 1;
    }
    let k = tier.pick(48, 1);
    for p in progs::plain_programs(100000).into_iter().step_by(k) {
        push("U_P-plain", p, &mut out);
    }
    for p in progs::default_programs(100000).into_iter().step_by(k) {
        push("U_P-default", p, &mut out);
    }
    for p in progs::shape_programs().into_iter().step_by(tier.pick(3, 1)) {
        push("U_P-shapes", p, &mut out);
    }
    out
}

// ---------------------------------------------------------------------------------------
// running the subject

#[derive(Clone, Debug)]
struct MethodOut {
    original_name: String,
    rust_name: String,
    args: Vec<String>,
    rets: Vec<String>,
}

#[derive(Clone, Debug)]
struct EmitOut {
    type_defs: String,
    methods: Vec<MethodOut>,
    init_args: Option<Vec<String>>,
}

enum Emit {
    /// not a type-checked program (outside the property's quantifier)
    Rejected(String),
    Panic(String),
    Ok(EmitOut),
}

fn run_emit(src: &str) -> Emit {
    use candid_parser::bindings::rust::{emit_bindgen, Config};
    use candid_parser::configs::Configs;
    use candid_parser::syntax::IDLMergedProg;
    use std::str::FromStr;
    let front = catch(|| -> Result<_, String> {
        let ast: candid_parser::IDLProg = src.parse().map_err(|e| format!("parse: {e}"))?;
        let mut te = candid::TypeEnv::new();
        let actor = candid_parser::check_prog(&mut te, &ast).map_err(|e| format!("check: {e}"))?;
        Ok((te, actor, IDLMergedProg::new(ast)))
    });
    let (te, actor, merged) = match front {
        Ok(Ok(x)) => x,
        Ok(Err(e)) => return Emit::Rejected(e),
        Err(p) => return Emit::Rejected(format!("front end panicked: {p}")),
    };
    let r = catch(|| {
        let config = Config::new(Configs::from_str("").unwrap());
        let (out, _unused) = emit_bindgen(&config, &te, &actor, &merged);
        EmitOut {
            type_defs: out.type_defs,
            methods: out
                .methods
                .iter()
                .map(|m| MethodOut {
                    original_name: m.original_name.clone(),
                    rust_name: m.name.clone(),
                    args: m.args.iter().map(|a| a.1.clone()).collect(),
                    rets: m.rets.clone(),
                })
                .collect(),
            init_args: out.init_args.map(|a| a.into_iter().map(|x| x.1).collect()),
        }
    });
    match r {
        Ok(o) => Emit::Ok(o),
        Err(p) => Emit::Panic(p),
    }
}

/// Text of module `m<idx>` and its line map.
fn module_text(idx: usize, e: &EmitOut, items: &[rustlex::Item]) -> scratch::Module {
    let mut s = String::new();
    s.push_str("use candid::{self, CandidType, Deserialize, Principal};\n");
    let defs_lo = 2;
    s.push_str(&e.type_defs);
    s.push('\n');
    let defs_hi = 1 + e.type_defs.matches('\n').count() + 1;
    s.push_str("pub fn check(out: &mut ::std::vec::Vec<::std::string::String>) {\n");
    let mut seen = BTreeSet::new();
    for it in items {
        if seen.insert(it.name.clone()) {
            s.push_str(&format!(
                "    out.push(::std::format!(\"m{idx}\\tI\\t{{}}\\t{{}}\", {:?}, crate::dump::d::<{}>()));\n",
                it.name, it.name
            ));
        }
    }
    let meth_lo = s.matches('\n').count() + 1;
    for (k, m) in e.methods.iter().enumerate() {
        for (j, a) in m.args.iter().enumerate() {
            s.push_str(&format!("    out.push(::std::format!(\"m{idx}\\tA\\t{k}\\t{j}\\t{{}}\", crate::dump::d::<{a}>()));\n"));
        }
        for (j, a) in m.rets.iter().enumerate() {
            s.push_str(&format!("    out.push(::std::format!(\"m{idx}\\tR\\t{k}\\t{j}\\t{{}}\", crate::dump::d::<{a}>()));\n"));
        }
    }
    if let Some(init) = &e.init_args {
        for (j, a) in init.iter().enumerate() {
            s.push_str(&format!("    out.push(::std::format!(\"m{idx}\\tN\\t0\\t{j}\\t{{}}\", crate::dump::d::<{a}>()));\n"));
        }
    }
    s.push_str("}\n");
    scratch::Module { idx, text: s, defs_lo, defs_hi, meth_lo }
}

fn excerpt(s: &str, n: usize) -> String {
    if s.chars().count() <= n {
        s.to_string()
    } else {
        s.chars().take(n).collect::<String>() + " ..."
    }
}

/// (clause, message, canonical signature used in the violation key)
type Finding = (&'static str, String, String);

/// rustc names items by module path (`m12::A`): the module number is the harness' own
fn strip_mod(s: &str) -> String {
    let cs: Vec<char> = s.chars().collect();
    let mut o = String::new();
    let mut i = 0;
    while i < cs.len() {
        if cs[i] == 'm' && (i == 0 || !(cs[i - 1].is_alphanumeric() || cs[i - 1] == '_')) {
            let mut j = i + 1;
            while j < cs.len() && cs[j].is_ascii_digit() {
                j += 1;
            }
            if j > i + 1 && cs.get(j) == Some(&':') && cs.get(j + 1) == Some(&':') {
                i = j + 2;
                continue;
            }
        }
        o.push(cs[i]);
        i += 1;
    }
    o
}

/// Everything known about one program after the emit phase.
struct Planned {
    src: String,
    emit: Option<EmitOut>,
    items: Vec<rustlex::Item>,
    module: Option<scratch::Module>,
    /// violations found before compiling
    pre: Vec<Finding>,
    rejected: Option<String>,
}

fn plan(idx: usize, c: &Case) -> Planned {
    let src = c.prog.to_did();
    let mut pl = Planned { src: src.clone(), emit: None, items: vec![], module: None, pre: vec![], rejected: None };
    match run_emit(&src) {
        Emit::Rejected(e) => pl.rejected = Some(e),
        Emit::Panic(p) => pl.pre.push(("panic", format!("emit_bindgen panicked: {p}"), p.clone())),
        Emit::Ok(e) => {
            // same input twice => same output (the generator is a function of the program)
            if let Emit::Ok(e2) = run_emit(&src) {
                if e2.type_defs != e.type_defs {
                    pl.pre.push(("panic", "emit_bindgen is not deterministic: two runs give different type_defs".into(), "nondeterministic".into()));
                }
            }
            let items = rustlex::items(&e.type_defs);
            // clause: distinct source types never collapse into one Rust item (by name)
            let mut count: BTreeMap<&str, usize> = BTreeMap::new();
            for it in &items {
                *count.entry(it.name.as_str()).or_insert(0) += 1;
            }
            let srcm = oracle::source(&c.prog);
            for (name, n) in &count {
                if *n > 1 {
                    let defs: Vec<&String> = srcm.all_defs.iter().filter(|d| oracle::norm(d) == oracle::norm(name)).collect();
                    let mut sorted = defs.clone();
                    sorted.sort();
                    let sig = format!("{n} items named {name} for definitions {sorted:?}{}", if defs.len() < *n { " and generated names" } else { "" });
                    pl.pre.push(("collapse", format!("{n} emitted items are all named `{name}` (source definitions with that name after case conversion: {defs:?})"), sig));
                }
            }
            let mut by_norm: BTreeMap<String, Vec<&String>> = BTreeMap::new();
            for d in &srcm.expected_defs {
                by_norm.entry(oracle::norm(d)).or_default().push(d);
            }
            for (n, defs) in &by_norm {
                let have: BTreeSet<&str> = items.iter().filter(|it| oracle::norm(&it.name) == *n).map(|it| it.name.as_str()).collect();
                if have.len() < defs.len() && !have.iter().any(|h| count[h] > 1) {
                    pl.pre.push(("collapse", format!("definitions {defs:?} are represented by only {} item name(s) {have:?}", have.len()), format!("definitions {defs:?} as {have:?}")));
                }
            }
            let distinct: BTreeSet<&str> = items.iter().map(|it| it.name.as_str()).collect();
            let (required, what) = oracle::required_items(&srcm);
            if distinct.len() < required && !pl.pre.iter().any(|p| p.0 == "collapse") {
                pl.pre.push((
                    "collapse",
                    format!("the program needs at least {required} distinct Rust items ({}) but only {} are emitted: {:?}", what.join("; "), distinct.len(), distinct),
                    format!("needs {} got {:?}", what.join(";"), distinct),
                ));
            }
            pl.module = Some(module_text(idx, &e, &items));
            pl.items = items;
            pl.emit = Some(e);
        }
    }
    pl
}

#[derive(Default)]
struct Tally {
    modules_compiled: u64,
    modules_failed: u64,
    items_compared: u64,
    comparisons: u64,
    methods_compared: u64,
}

type DumpRes = Result<oracle::Dumped, String>;

fn err_text(x: &scratch::CompileError) -> String {
    format!("{}{}", x.message, x.code.as_ref().map(|c| format!(" [{c}]")).unwrap_or_default())
}

/// Post-build evaluation of one program. Returns (clause, message) findings.
/// `build`: the crate with the generated checks; `bare`: the crate holding only the
/// generator's text of the modules that failed in `build` (decides whether the generator's
/// text or the harness' export lines are at fault).
/// Shape of the source definition whose emitted name is the first back-quoted identifier of a compiler message.
fn source_shape(c: &Case, msg: &str) -> String {
    use mclib::progs::{PLabel, PTy};
    let Some(name) = msg.split('`').nth(1) else { return "source: ?".into() };
    let Some((_, t)) = c.prog.defs.iter().find(|(n, _)| oracle::norm(n) == oracle::norm(name)) else { return "source: not a definition".into() };
    let result_shaped = |fs: &Vec<(PLabel, PTy)>| {
        let names: BTreeSet<&str> = fs.iter().filter_map(|f| if let PLabel::Named(n) = &f.0 { Some(n.as_str()) } else { None }).collect();
        fs.len() == 2 && (names == ["Ok", "Err"].into_iter().collect() || names == ["ok", "err"].into_iter().collect())
    };
    let shape = match t {
        PTy::Prim(_) => "primitive",
        PTy::Var(_) => "alias",
        PTy::Opt(_) => "opt",
        PTy::Vec(_) => "vec",
        PTy::Blob => "blob",
        PTy::Record(_) => "record",
        PTy::Variant(fs) if result_shaped(fs) => "result-shaped variant",
        PTy::Variant(_) => "variant",
        PTy::Func(_) => "func",
        PTy::Service(_) => "service",
    };
    format!("source definition: {shape}")
}

fn evaluate(
    c: &Case,
    pl: &Planned,
    build: &scratch::BuildResult,
    bare: &scratch::BuildResult,
    idx: usize,
    tally: &mut Tally,
) -> Vec<Finding> {
    let mut out: Vec<Finding> = vec![];
    let (Some(e), Some(module)) = (&pl.emit, &pl.module) else { return out };
    if let Some(errs) = build.failed.get(&idx) {
        tally.modules_failed += 1;
        // errors inside the generator's own text decide at once; otherwise the module was rebuilt
        // with the generator's text alone (`bare`)
        let in_defs: Vec<&scratch::CompileError> = errs.iter().filter(|x| x.line >= module.defs_lo && x.line <= module.defs_hi).collect();
        let at_fault: Vec<&scratch::CompileError> = if !in_defs.is_empty() { in_defs } else { bare.failed.get(&idx).map(|b| b.iter().collect()).unwrap_or_default() };
        if !at_fault.is_empty() {
            let dup_only = pl.pre.iter().any(|p| p.0 == "collapse") && at_fault.iter().all(|x| matches!(x.code.as_deref(), Some("E0428")));
            if !dup_only {
                let x = at_fault[0];
                // the signature names the shape of the source definition behind the item rustc complains about,
                // so that one compiler message stands for one cause only
                let sig = format!("{} ({})", strip_mod(&err_text(x)), source_shape(c, &strip_mod(&err_text(x))));
                out.push(("does-not-compile", format!("type_defs line {}: {}", x.line.saturating_sub(1), err_text(x)), sig));
            }
        } else if bare.undecided.contains(&idx) {
            // not decided (reported as an incomplete level)
        } else if let Some(x) = errs.iter().find(|x| x.line >= module.meth_lo) {
            out.push(("method-differs", format!("type_defs compiles, but a method argument/result type expression of Output.methods does not: {}", err_text(x)), format!("type expression does not compile: {}", strip_mod(&err_text(x)))));
        } else {
            let x = &errs[0];
            out.push(("does-not-compile", format!("type_defs compiles, but an emitted item cannot be used as a CandidType: {} (line {})", err_text(x), x.line), format!("item unusable: {}", strip_mod(&err_text(x)))));
        }
        return out;
    }
    if build.undecided.contains(&idx) {
        return out;
    }
    let Some(lines) = build.lines.get(&idx) else {
        scratch::machinery(&format!("module m{idx} compiled but printed nothing"));
    };
    tally.modules_compiled += 1;
    let mut items: Vec<(String, DumpRes)> = vec![];
    let mut margs: BTreeMap<(char, usize, usize), DumpRes> = BTreeMap::new();
    let mut ended = false;
    for l in lines {
        let f: Vec<&str> = l.split('\t').collect();
        match f.get(1).copied() {
            Some("I") if f.len() == 5 => items.push((f[2].to_string(), oracle::parse_dump(f[3], f[4]))),
            Some(k @ ("A" | "R" | "N")) if f.len() == 6 => {
                margs.insert((k.chars().next().unwrap(), f[2].parse().unwrap_or(0), f[3].parse().unwrap_or(0)), oracle::parse_dump(f[4], f[5]));
            }
            Some("END") => ended = true,
            Some("PANIC") => {
                let msg = String::from_utf8_lossy(&hex::decode(f.get(2).copied().unwrap_or("")).unwrap_or_default()).to_string();
                out.push(("panic", format!("computing ty() of the emitted types panicked: {msg}"), format!("ty(): {msg}")));
                return out;
            }
            _ => scratch::machinery(&format!("unreadable line from the generated crate: {l}")),
        }
    }
    if !ended {
        scratch::machinery(&format!("module m{idx}: output without END marker"));
    }
    let srcm = oracle::source(&c.prog);
    let r = oracle::compare_items(&srcm, &items);
    tally.items_compared += items.len() as u64;
    tally.comparisons += r.comparisons;
    let mut td: Vec<String> = vec![];
    td.extend(r.def_mismatch.iter().cloned());
    td.extend(r.unexplained.iter().cloned());
    td.extend(r.unmatched_anon.iter().cloned());
    // methods
    let mut md: Vec<(String, String)> = vec![];
    if let Some(want) = &srcm.methods {
        let mut w: Vec<&String> = want.iter().map(|m| &m.0).collect();
        let mut g: Vec<&String> = e.methods.iter().map(|m| &m.original_name).collect();
        w.sort();
        g.sort();
        if w != g {
            md.push((format!("methods of the source service {w:?}, methods emitted {g:?}"), format!("methods {w:?} emitted as {g:?}")));
        } else {
            for (k, m) in e.methods.iter().enumerate() {
                let (_, wa, wr) = want.iter().find(|x| x.0 == m.original_name).unwrap();
                tally.methods_compared += 1;
                let ga: Vec<Option<DumpRes>> = (0..m.args.len()).map(|j| margs.get(&('A', k, j)).cloned()).collect();
                let gr: Vec<Option<DumpRes>> = (0..m.rets.len()).map(|j| margs.get(&('R', k, j)).cloned()).collect();
                if let Some(d) = oracle::compare_tys(&srcm, &format!("method {:?} argument", m.original_name), wa, &ga) {
                    md.push(d);
                }
                if let Some(d) = oracle::compare_tys(&srcm, &format!("method {:?} result", m.original_name), wr, &gr) {
                    md.push(d);
                }
            }
        }
        match (&srcm.init_args, &e.init_args) {
            (None, None) => {}
            (Some(wi), Some(gi)) => {
                tally.methods_compared += 1;
                let g: Vec<Option<DumpRes>> = (0..gi.len()).map(|j| margs.get(&('N', 0, j)).cloned()).collect();
                if let Some(d) = oracle::compare_tys(&srcm, "init argument", wi, &g) {
                    md.push(d);
                }
            }
            (w, g) => md.push((format!("init args: source has {}, emitted has {}", w.is_some(), g.is_some()), "init args presence".into())),
        }
    } else if !e.methods.is_empty() {
        md.push(("methods emitted for a program without a service".into(), "methods without service".into()));
    }
    if !td.is_empty() {
        let more = if td.len() > 1 { format!(" (+{} more differences)", td.len() - 1) } else { String::new() };
        let sig = r
            .signature
            .clone()
            .or_else(|| md.first().map(|m| m.1.clone()))
            .or_else(|| r.item_signature.clone())
            .unwrap_or_else(|| td[0].clone());
        out.push(("type-differs", format!("{}{more}", td[0]), sig));
    }
    if !r.lost.is_empty() {
        out.push(("lost-definition", r.lost.join("; "), r.lost.join("; ")));
    }
    if let Some((m, sig)) = md.first() {
        out.push(("method-differs", m.clone(), sig.clone()));
    }
    out
}

fn case_json(c: &Case, pl: &Planned, clause: &str, errs: Option<&Vec<scratch::CompileError>>) -> Value {
    let mut v = json!({
        "did": pl.src,
        "family": c.family,
        "clause": clause,
        "type_defs": pl.emit.as_ref().map(|e| excerpt(&e.type_defs, 4000)),
        "methods": pl.emit.as_ref().map(|e| e.methods.iter().map(|m| json!({"name": m.original_name, "rust_name": m.rust_name, "args": m.args, "rets": m.rets})).collect::<Vec<_>>()),
    });
    if let Some(errs) = errs {
        v["rustc"] = json!(errs.iter().take(3).map(|e| excerpt(&e.rendered, 1500)).collect::<Vec<_>>());
    }
    v
}

const PRIORITY: &[&str] = &["panic", "collapse", "does-not-compile", "type-differs", "lost-definition", "method-differs"];

/// The whole pipeline over a list of cases. `tag` names the generated crate.
fn pipeline(ctx: &Ctx, cases: &[Case], tag: &str, nbins: usize) -> (Report, Tally, Value) {
    // phase 1: front end + emit_bindgen + name clauses (parallel; the subject's types are !Send)
    let planned: Mutex<Vec<Option<Planned>>> = Mutex::new((0..cases.len()).map(|_| None).collect());
    let mut rep = ctx.par_range("emit", cases.len() as u64, 8, || (), |_, i, rep| {
        let c = &cases[i as usize];
        rep.evaluations += 1;
        rep.transitions += 1;
        let pl = plan(i as usize, c);
        planned.lock().unwrap()[i as usize] = Some(pl);
    });
    let planned: Vec<Option<Planned>> = planned.into_inner().unwrap();
    let emit_done = planned.iter().all(|p| p.is_some());
    // phase 2: the generated crate
    let modules: Vec<scratch::Module> = planned.iter().flatten().filter_map(|p| p.module.clone()).collect();
    let mut krate = scratch::Crate::create(tag, &modules, nbins, true);
    for (b, mods) in krate.bins.iter().enumerate() {
        for i in mods {
            // the program next to its module, for people reading the scratch crate
            if let Some(Some(p)) = planned.get(*i) {
                let _ = std::fs::write(krate.dir.join(format!("src/bin/b{b}/m{i}.did")), &p.src);
            }
        }
    }
    let build = krate.build_and_run(10);
    rep.transitions += modules.len() as u64;
    // phase 2b: the generator's text alone, for the modules that failed
    let bare_modules: Vec<scratch::Module> = modules
        .iter()
        .filter(|m| build.failed.get(&m.idx).is_some_and(|errs| !errs.iter().any(|x| x.line >= m.defs_lo && x.line <= m.defs_hi)))
        .map(|m| {
            let text: String = m.text.lines().take(m.defs_hi).map(|l| format!("{l}\n")).collect();
            scratch::Module { idx: m.idx, text, defs_lo: m.defs_lo, defs_hi: m.defs_hi, meth_lo: usize::MAX }
        })
        .collect();
    let bare = if bare_modules.is_empty() {
        scratch::BuildResult::default()
    } else {
        let mut k = scratch::Crate::create(&format!("{tag}_bare"), &bare_modules, nbins.min(bare_modules.len().div_ceil(8)).max(1), false);
        rep.transitions += bare_modules.len() as u64;
        k.build_and_run(10)
    };
    // phase 3: comparison
    let mut tally = Tally::default();
    let mut fam_out: BTreeMap<String, u64> = BTreeMap::new();
    let mut rejected = 0u64;
    let mut rejected_samples = vec![];
    let mut method_name_clashes = 0u64;
    let mut undecided = 0u64;
    let mut pending: Vec<(usize, String, String, Value)> = vec![];
    for (i, c) in cases.iter().enumerate() {
        let Some(pl) = &planned[i] else { continue };
        if let Some(r) = &pl.rejected {
            rejected += 1;
            if rejected_samples.len() < 5 {
                rejected_samples.push(json!({"did": pl.src, "error": excerpt(r, 300)}));
            }
            rep.outcome(&format!("{}:rejected-by-front-end", c.family));
            continue;
        }
        let mut findings: Vec<Finding> = pl.pre.clone();
        findings.extend(evaluate(c, pl, &build, &bare, i, &mut tally));
        let is_undecided = build.undecided.contains(&i) || (build.failed.contains_key(&i) && bare.undecided.contains(&i));
        if is_undecided {
            undecided += 1;
        }
        if let Some(e) = &pl.emit {
            let names: BTreeSet<&String> = e.methods.iter().map(|m| &m.rust_name).collect();
            if names.len() != e.methods.len() {
                method_name_clashes += 1;
            }
            if !pl.items.is_empty() || !e.methods.is_empty() {
                rep.nontrivial += 1;
            }
            rep.traces_validated += 1;
        }
        findings.sort_by_key(|f| PRIORITY.iter().position(|p| *p == f.0).unwrap_or(99));
        let class = if findings.is_empty() {
            if is_undecided {
                "undecided".to_string()
            } else {
                "ok".to_string()
            }
        } else {
            findings[0].0.to_string()
        };
        *fam_out.entry(format!("{}:{}", c.family, class)).or_insert(0) += 1;
        rep.outcome(&format!("{}:{}", c.family, class));
        if findings.is_empty() && rep.samples.len() < 4 && !pl.items.is_empty() {
            rep.sample(json!({"did": pl.src, "items": pl.items.iter().map(|i| i.name.clone()).collect::<Vec<_>>(), "verdict": "compiled; every item equal to its source type"}));
        }
        // one violation per program: the first clause in PRIORITY order; the others are
        // listed in the message (they are usually consequences)
        if let Some((clause, msg, sig)) = findings.first() {
            let others: Vec<String> = findings.iter().skip(1).map(|f| format!("{}: {}", f.0, excerpt(&f.1, 160))).collect();
            let also = if others.is_empty() { String::new() } else { format!(" || also {}", others.join(" || ")) };
            let errs = build.failed.get(&i).or_else(|| bare.failed.get(&i));
            let one_line = pl.src.trim().replace('\n', " ");
            pending.push((pl.src.len(), format!("{clause}:{sig}"), format!("[{}] {} :: {}{}", c.family, one_line, msg, also), case_json(c, pl, clause, errs)));
        }
    }
    // the smallest program of each key is the one that is kept (and replayed)
    pending.sort_by(|a, b| (a.0, &a.1).cmp(&(b.0, &b.1)));
    for (_, key, msg, case) in pending {
        rep.violation(&key, msg, case);
    }
    rep.level("compile+compare", tally.modules_compiled + tally.modules_failed, emit_done && undecided == 0);
    if undecided > 0 {
        rep.notes.push(format!("{undecided} modules were not decided: the generated crate still failed after {} rounds", build.rounds.max(bare.rounds)));
    }
    rep.states = cases.len() as u64;
    rep.count("programs", cases.len() as u64);
    rep.count("programs_rejected_by_front_end", rejected);
    rep.count("modules_generated", modules.len() as u64);
    rep.count("modules_compiled_and_run", tally.modules_compiled);
    rep.count("modules_failing_to_compile", tally.modules_failed);
    rep.count("modules_rebuilt_with_type_defs_alone", bare_modules.len() as u64);
    rep.count("items_exported", tally.items_compared);
    rep.count("type_comparisons", tally.comparisons);
    rep.count("methods_compared", tally.methods_compared);
    rep.count("programs_with_colliding_rust_method_names(not a verdict)", method_name_clashes);
    rep.transitions += tally.items_compared;
    let extra = json!({
        "by_family": fam_out,
        "build_wall_s": build.build_wall_s + bare.build_wall_s,
        "cargo_rounds_wall_s_and_failed_bins": {"with_checks": build.round_walls, "type_defs_alone": bare.round_walls},
        "run_wall_s": build.run_wall_s,
        "rejected_samples": rejected_samples,
        "generated_crate": krate.dir.to_string_lossy(),
    });
    (rep, tally, extra)
}

const RULE: &str = "a program is non-trivial when emit_bindgen produced at least one Rust item or method for it; every such program's module is compiled and executed and each exported ty() is compared with the source by R3 equal";

const ASSUMPTIONS: &[&str] = &[
    "default binding config (Config::new(Configs::from_str(\"\"))), as in didc bind -t rs and tests/parse_type.rs",
    "only Output.type_defs is compiled; the ic_cdk call stubs of the template are not (crate absent offline); method argument/result type expressions of Output.methods are compiled and exported through ty() instead",
    "definitions unreachable from the actor are not required to be emitted (chase_actor is the generator's documented selection); without an actor every definition is required",
    "an emitted item is related to `its` definition by name up to case, underscores and r# (the only things a case conversion / keyword escape may change); anonymous types are related by type only",
    "the generated crate depends on candid (default features), serde (derive) and serde_bytes, which is what the emitted text refers to",
    "method modes and the Rust spelling of method names are not compared (not part of the property); colliding Rust method names are only counted",
];

fn run(tier: Tier) -> i32 {
    // replay files of earlier runs of this property would be mistaken for current ones
    let _ = std::fs::remove_dir_all("/verif/replays/C18");
    let ctx = Ctx::new("C18", tier, tier.pick(300, 1500));
    let cases = scope(tier);
    let nbins = ctx.threads.clamp(1, 16).min(cases.len().div_ceil(20).max(1));
    let (rep, _tally, extra) = pipeline(&ctx, &cases, tier.name(), nbins);
    finish(&ctx, rep, RULE, ASSUMPTIONS, extra)
}

// ---------------------------------------------------------------------------------------
// replay

fn ast_to_prog(ast: &candid_parser::IDLProg) -> Option<Prog> {
    use candid::types::{FuncMode, Label};
    use candid_parser::syntax::{Dec, IDLType, PrimType};
    use refmodel::ty::{Mode, Prim};
    fn lab(l: &Label) -> PLabel {
        match l {
            Label::Id(n) | Label::Unnamed(n) => PLabel::Id(*n),
            Label::Named(s) => PLabel::Named(s.clone()),
        }
    }
    fn ty(t: &IDLType) -> Option<PTy> {
        Some(match t {
            IDLType::PrimT(p) => PTy::Prim(match p {
                PrimType::Nat => Prim::Nat,
                PrimType::Nat8 => Prim::Nat8,
                PrimType::Nat16 => Prim::Nat16,
                PrimType::Nat32 => Prim::Nat32,
                PrimType::Nat64 => Prim::Nat64,
                PrimType::Int => Prim::Int,
                PrimType::Int8 => Prim::Int8,
                PrimType::Int16 => Prim::Int16,
                PrimType::Int32 => Prim::Int32,
                PrimType::Int64 => Prim::Int64,
                PrimType::Float32 => Prim::Float32,
                PrimType::Float64 => Prim::Float64,
                PrimType::Bool => Prim::Bool,
                PrimType::Text => Prim::Text,
                PrimType::Null => Prim::Null,
                PrimType::Reserved => Prim::Reserved,
                PrimType::Empty => Prim::Empty,
            }),
            IDLType::PrincipalT => PTy::Prim(Prim::Principal),
            IDLType::VarT(v) => PTy::Var(v.clone()),
            IDLType::OptT(t) => PTy::opt(ty(t)?),
            IDLType::VecT(t) => PTy::vec(ty(t)?),
            IDLType::RecordT(fs) => PTy::Record(fs.iter().map(|f| Some((lab(&f.label), ty(&f.typ)?))).collect::<Option<_>>()?),
            IDLType::VariantT(fs) => PTy::Variant(fs.iter().map(|f| Some((lab(&f.label), ty(&f.typ)?))).collect::<Option<_>>()?),
            IDLType::FuncT(f) => PTy::Func(PFunc {
                args: f.args.iter().map(|a| Some((None, ty(&a.typ)?))).collect::<Option<_>>()?,
                rets: f.rets.iter().map(|a| Some((None, ty(&a.typ)?))).collect::<Option<_>>()?,
                modes: f
                    .modes
                    .iter()
                    .map(|m| match m {
                        FuncMode::Query => Mode::Query,
                        FuncMode::Oneway => Mode::Oneway,
                        FuncMode::CompositeQuery => Mode::CompositeQuery,
                    })
                    .collect(),
            }),
            IDLType::ServT(ms) => PTy::Service(ms.iter().map(|b| Some((b.id.clone(), ty(&b.typ)?))).collect::<Option<_>>()?),
            IDLType::ClassT(..) => return None,
        })
    }
    let mut defs = vec![];
    for d in &ast.decs {
        match d {
            Dec::TypD(b) => defs.push((b.id.clone(), ty(&b.typ)?)),
            _ => return None,
        }
    }
    let actor = match &ast.actor {
        None => None,
        Some(a) => Some(match &a.typ {
            IDLType::ClassT(args, t) => PActor::Class(args.iter().map(|a| Some((None, ty(&a.typ)?))).collect::<Option<_>>()?, ty(t)?),
            t => PActor::Service(ty(t)?),
        }),
    };
    Some(Prog { defs, actor, actor_name: None })
}

fn replay(path: &str) -> i32 {
    let s = std::fs::read_to_string(path).unwrap_or_else(|e| scratch::machinery(&format!("replay file {path}: {e}")));
    let v: Value = serde_json::from_str(&s).unwrap_or_else(|e| scratch::machinery(&format!("replay json: {e}")));
    let case = if v["case"].is_object() { &v["case"] } else { &v };
    let Some(did) = case["did"].as_str() else { scratch::machinery("replay file has no case.did") };
    // the recorded program, from the trusted generator if it is one of the scope's programs
    let found = scope(Tier::Thorough).into_iter().find(|c| c.prog.to_did() == did);
    let c = match found {
        Some(c) => c,
        None => {
            let ast: candid_parser::IDLProg = did.parse().unwrap_or_else(|e| scratch::machinery(&format!("recorded program does not parse: {e}")));
            let prog = ast_to_prog(&ast).unwrap_or_else(|| scratch::machinery("recorded program uses imports"));
            Case { family: "replay".into(), prog }
        }
    };
    let ctx = Ctx::new("C18", Tier::Quick, 600);
    // the source text that is run is the recorded one
    let cases = vec![c];
    let tag = format!("replay{}", std::process::id());
    let (rep, _t, _e) = pipeline_with_src(&ctx, &cases, did, &tag);
    let _ = std::fs::remove_dir_all(std::path::Path::new(scratch::WORK).join(&tag));
    let _ = std::fs::remove_dir_all(std::path::Path::new(scratch::WORK).join(format!("{tag}_bare")));
    let want = v["key"].as_str();
    let mut hit = false;
    for vio in &rep.violations {
        println!("REPRODUCED {} :: {}", vio.key, vio.msg);
        if want.is_none() || want == Some(vio.key.as_str()) {
            hit = true;
        }
    }
    if rep.violations.is_empty() {
        println!("not reproduced: the emitted binding compiles and every exported type equals its source type");
        0
    } else {
        if !hit {
            println!("note: the recorded key {:?} was not among the reproduced ones", want);
        }
        1
    }
}

/// Single-case pipeline used by replay; checks that the case's printed form is the recorded text.
fn pipeline_with_src(ctx: &Ctx, cases: &[Case], did: &str, tag: &str) -> (Report, Tally, Value) {
    if cases[0].prog.to_did() != did {
        // a hand-written .did: its model is the parsed one, the text that is run is the printer's
        eprintln!("note: replaying the program as re-printed by the harness:\n{}", cases[0].prog.to_did());
    }
    pipeline(ctx, cases, tag, 1)
}

fn main() {
    install_quiet_panic_hook();
    let (tier, replay_path, rest) = parse_args();
    if rest.iter().any(|a| a == "--prepare") {
        std::process::exit(scratch::prepare());
    }
    if let Some(i) = rest.iter().position(|a| a == "--show") {
        // debugging aid: print what the generator emits for a .did file
        let src = std::fs::read_to_string(&rest[i + 1]).expect("file");
        match run_emit(&src) {
            Emit::Ok(e) => {
                println!("{}", e.type_defs);
                for m in e.methods {
                    println!("// method {:?} as {} : ({}) -> ({})", m.original_name, m.rust_name, m.args.join(", "), m.rets.join(", "));
                }
                if let Some(i) = e.init_args {
                    println!("// init ({})", i.join(", "));
                }
            }
            Emit::Rejected(e) => println!("rejected: {e}"),
            Emit::Panic(p) => println!("panic: {p}"),
        }
        return;
    }
    if let Some(path) = replay_path {
        std::process::exit(replay(&path));
    }
    std::process::exit(run(tier));
}
