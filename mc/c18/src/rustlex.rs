//! A tiny lexer for the Rust text emitted by the binding generator, written from the Rust
//! lexical grammar (identifiers, raw identifiers, string literals with escapes, line and
//! block comments, punctuation). It only has to find *item heads at nesting depth 0*:
//!   `pub struct X`, `pub enum X`, `pub type X`, `define_function!(pub X`, `define_service!(pub X`.
//! It is independent of the generator's own printer.

#[derive(Clone, Debug, PartialEq, Eq)]
pub enum Tok {
    Ident(String),
    Punct(char),
    Str,
    Other,
}

pub fn tokens(src: &str) -> Vec<Tok> {
    let cs: Vec<char> = src.chars().collect();
    let mut i = 0;
    let mut out = vec![];
    let is_start = |c: char| c == '_' || c.is_alphabetic();
    let is_cont = |c: char| c == '_' || c.is_alphanumeric();
    while i < cs.len() {
        let c = cs[i];
        if c.is_whitespace() {
            i += 1;
        } else if c == '/' && cs.get(i + 1) == Some(&'/') {
            while i < cs.len() && cs[i] != '\n' {
                i += 1;
            }
        } else if c == '/' && cs.get(i + 1) == Some(&'*') {
            let mut depth = 1;
            i += 2;
            while i < cs.len() && depth > 0 {
                if cs[i] == '/' && cs.get(i + 1) == Some(&'*') {
                    depth += 1;
                    i += 2;
                } else if cs[i] == '*' && cs.get(i + 1) == Some(&'/') {
                    depth -= 1;
                    i += 2;
                } else {
                    i += 1;
                }
            }
        } else if c == '"' {
            i += 1;
            while i < cs.len() && cs[i] != '"' {
                if cs[i] == '\\' {
                    i += 1;
                }
                i += 1;
            }
            i += 1;
            out.push(Tok::Str);
        } else if c == 'r' && cs.get(i + 1) == Some(&'#') && cs.get(i + 2).map(|c| is_start(*c)) == Some(true) {
            let mut s = String::from("r#");
            i += 2;
            while i < cs.len() && is_cont(cs[i]) {
                s.push(cs[i]);
                i += 1;
            }
            out.push(Tok::Ident(s));
        } else if is_start(c) {
            let mut s = String::new();
            while i < cs.len() && is_cont(cs[i]) {
                s.push(cs[i]);
                i += 1;
            }
            out.push(Tok::Ident(s));
        } else if c.is_ascii_digit() {
            while i < cs.len() && is_cont(cs[i]) {
                i += 1;
            }
            out.push(Tok::Other);
        } else {
            out.push(Tok::Punct(c));
            i += 1;
        }
    }
    out
}

#[derive(Clone, Debug, PartialEq, Eq)]
pub struct Item {
    /// struct | enum | type | function | service
    pub kind: &'static str,
    /// as written (may carry `r#`)
    pub name: String,
}

/// Item heads at nesting depth 0 of `src`.
pub fn items(src: &str) -> Vec<Item> {
    let ts = tokens(src);
    let mut out = vec![];
    let mut depth: i64 = 0;
    let id = |t: Option<&Tok>| -> Option<String> {
        match t {
            Some(Tok::Ident(s)) => Some(s.clone()),
            _ => None,
        }
    };
    let mut i = 0;
    while i < ts.len() {
        match &ts[i] {
            Tok::Punct('{') | Tok::Punct('(') | Tok::Punct('[') => depth += 1,
            Tok::Punct('}') | Tok::Punct(')') | Tok::Punct(']') => depth -= 1,
            Tok::Ident(s) if depth == 0 => {
                let kind = match s.as_str() {
                    "struct" => Some("struct"),
                    "enum" => Some("enum"),
                    "type" => Some("type"),
                    _ => None,
                };
                if let Some(kind) = kind {
                    if let Some(name) = id(ts.get(i + 1)) {
                        out.push(Item { kind, name });
                        i += 1;
                    }
                } else if s == "define_function" || s == "define_service" {
                    // define_x ! ( [pub [(...)]] Name
                    if ts.get(i + 1) == Some(&Tok::Punct('!')) && ts.get(i + 2) == Some(&Tok::Punct('(')) {
                        let mut j = i + 3;
                        if id(ts.get(j)).as_deref() == Some("pub") {
                            j += 1;
                            if ts.get(j) == Some(&Tok::Punct('(')) {
                                while j < ts.len() && ts[j] != Tok::Punct(')') {
                                    j += 1;
                                }
                                j += 1;
                            }
                        }
                        if let Some(name) = id(ts.get(j)) {
                            out.push(Item { kind: if s == "define_function" { "function" } else { "service" }, name });
                        }
                    }
                }
            }
            _ => {}
        }
        i += 1;
    }
    out
}

#[cfg(test)]
mod tests {
    use super::*;
    #[test]
    fn heads() {
        let src = r##"#[derive(CandidType, Deserialize)]
pub struct AB { #[serde(rename="struct X {")] pub r#type: u8, pub c: ABC }
#[derive(CandidType, Deserialize)]
pub enum E { A, B{ x: u8 }, C(u8) }
pub type T = Vec<AB>;
candid::define_function!(pub F : (u8) -> (AB) query);
candid::define_service!(pub S : { "struct Y" : candid::func!(() -> ()) });
#[derive(CandidType, Deserialize)]
pub struct L(pub Option<Box<L>>);
"##;
        let it = items(src);
        let names: Vec<_> = it.iter().map(|i| (i.kind, i.name.as_str())).collect();
        assert_eq!(names, vec![("struct", "AB"), ("enum", "E"), ("type", "T"), ("function", "F"), ("service", "S"), ("struct", "L")]);
    }
}
