//! Oracle side of C18: reading the types exported by the generated crate back into the
//! reference model (R1) and relating them to the source program with R3 `equal`.
use mclib::progs::{PActor, PFunc, PTy, Prog};
use refmodel::sub;
use refmodel::ty::{Env, FuncTy, Mode, Prim, Ty};
use std::collections::{BTreeMap, BTreeSet};

// ------------------------------------------------------------------------------------
// parser of the dump notation (see dump_rs.txt)

struct P<'a> {
    s: &'a [u8],
    i: usize,
}
impl<'a> P<'a> {
    fn peek(&self) -> Option<u8> {
        self.s.get(self.i).copied()
    }
    fn eat(&mut self, c: u8) -> Result<(), String> {
        if self.peek() == Some(c) {
            self.i += 1;
            Ok(())
        } else {
            Err(format!("expected '{}' at {} in {}", c as char, self.i, String::from_utf8_lossy(self.s)))
        }
    }
    fn word(&mut self) -> String {
        let st = self.i;
        while let Some(c) = self.peek() {
            if c.is_ascii_alphanumeric() || c == b'_' {
                self.i += 1;
            } else {
                break;
            }
        }
        String::from_utf8_lossy(&self.s[st..self.i]).to_string()
    }
    fn num(&mut self) -> Result<u64, String> {
        let st = self.i;
        while let Some(c) = self.peek() {
            if c.is_ascii_digit() {
                self.i += 1;
            } else {
                break;
            }
        }
        std::str::from_utf8(&self.s[st..self.i]).unwrap().parse::<u64>().map_err(|e| format!("number: {e}"))
    }
    fn list(&mut self, close: u8) -> Result<Vec<Ty>, String> {
        let mut v = vec![];
        if self.peek() == Some(close) {
            self.i += 1;
            return Ok(v);
        }
        loop {
            v.push(self.ty()?);
            if self.peek() == Some(b',') {
                self.i += 1;
            } else {
                self.eat(close)?;
                return Ok(v);
            }
        }
    }
    fn fields(&mut self) -> Result<Vec<(u32, Ty)>, String> {
        self.eat(b'{')?;
        let mut v: Vec<(u32, Ty)> = vec![];
        if self.peek() == Some(b'}') {
            self.i += 1;
            return Ok(v);
        }
        loop {
            let id = self.num()? as u32;
            self.eat(b':')?;
            let t = self.ty()?;
            v.push((id, t));
            if self.peek() == Some(b';') {
                self.i += 1;
            } else {
                self.eat(b'}')?;
                break;
            }
        }
        // a Candid record / variant type lists its fields in ascending id order (the encoder writes them
        // in the order of the type)
        if v.windows(2).any(|w| w[0].0 > w[1].0) {
            return Err("the derived type lists its fields out of ascending id order".to_string());
        }
        v.sort_by_key(|f| f.0);
        for w in v.windows(2) {
            if w[0].0 == w[1].0 {
                return Err(format!("duplicate field id {} in the derived type", w[0].0));
            }
        }
        Ok(v)
    }
    fn ty(&mut self) -> Result<Ty, String> {
        match self.peek() {
            Some(b'o') if self.s.get(self.i + 1) == Some(&b'(') => {
                self.i += 2;
                let t = self.ty()?;
                self.eat(b')')?;
                Ok(Ty::opt(t))
            }
            Some(b'v') if self.s.get(self.i + 1) == Some(&b'(') => {
                self.i += 2;
                let t = self.ty()?;
                self.eat(b')')?;
                Ok(Ty::vec(t))
            }
            Some(b'r') if self.s.get(self.i + 1) == Some(&b'{') => {
                self.i += 1;
                Ok(Ty::Record(self.fields()?))
            }
            Some(b'V') => {
                self.i += 1;
                Ok(Ty::Variant(self.fields()?))
            }
            Some(b'f') if self.s.get(self.i + 1) == Some(&b'(') => {
                self.i += 2;
                let args = self.list(b')')?;
                self.eat(b'(')?;
                let rets = self.list(b')')?;
                self.eat(b'[')?;
                let mut modes = vec![];
                while self.peek() != Some(b']') {
                    let w = self.word();
                    modes.push(match w.as_str() {
                        "query" => Mode::Query,
                        "oneway" => Mode::Oneway,
                        "composite_query" => Mode::CompositeQuery,
                        o => return Err(format!("mode {o}")),
                    });
                    if self.peek() == Some(b',') {
                        self.i += 1;
                    }
                }
                self.eat(b']')?;
                Ok(Ty::Func(FuncTy { args, rets, modes }))
            }
            Some(b's') if self.s.get(self.i + 1) == Some(&b'{') => {
                self.i += 2;
                let mut ms: Vec<(String, Ty)> = vec![];
                if self.peek() == Some(b'}') {
                    self.i += 1;
                    return Ok(Ty::Service(ms));
                }
                loop {
                    let h = self.word();
                    let name = String::from_utf8(hex::decode(&h).map_err(|e| format!("hex: {e}"))?).map_err(|e| format!("utf8: {e}"))?;
                    self.eat(b':')?;
                    ms.push((name, self.ty()?));
                    if self.peek() == Some(b';') {
                        self.i += 1;
                    } else {
                        self.eat(b'}')?;
                        break;
                    }
                }
                if ms.windows(2).any(|w| w[0].0.as_bytes() > w[1].0.as_bytes()) {
                    return Err("the derived service type lists its methods out of ascending name order".to_string());
                }
                ms.sort_by(|a, b| a.0.as_bytes().cmp(b.0.as_bytes()));
                for w in ms.windows(2) {
                    if w[0].0 == w[1].0 {
                        return Err(format!("duplicate method {:?} in the derived type", w[0].0));
                    }
                }
                Ok(Ty::Service(ms))
            }
            Some(b'c') if self.s.get(self.i + 1) == Some(&b'(') => {
                self.i += 2;
                let args = self.list(b')')?;
                let t = self.ty()?;
                Ok(Ty::Class(args, Box::new(t)))
            }
            Some(b'k') if self.s.get(self.i + 1).map(|c| c.is_ascii_digit()) == Some(true) => {
                self.i += 1;
                let n = self.num()?;
                Ok(Ty::Var(format!("k{n}")))
            }
            Some(b'?') => Err("the derived type contains an Unknown/Future/unresolved node".into()),
            Some(b'x') if self.s.get(self.i + 1).map(|c| c.is_ascii_hexdigit()) == Some(true) && {
                // x<hex> (a Var node) -- prims never start with x
                true
            } =>
            {
                self.i += 1;
                let h = self.word();
                Err(format!("the derived type contains a free variable {:?}", String::from_utf8_lossy(&hex::decode(&h).unwrap_or_default())))
            }
            _ => {
                let w = self.word();
                for p in Prim::ALL {
                    if p.name() == w {
                        return Ok(Ty::Prim(p));
                    }
                }
                Err(format!("unknown token {:?} at {} in {}", w, self.i, String::from_utf8_lossy(self.s)))
            }
        }
    }
}

/// A type exported by the generated crate: the term and the knots it refers to (`k<n>`).
#[derive(Clone, Debug)]
pub struct Dumped {
    pub ty: Ty,
    pub knots: Env,
}

pub fn parse_dump(ty: &str, defs: &str) -> Result<Dumped, String> {
    let mut p = P { s: ty.as_bytes(), i: 0 };
    let t = p.ty()?;
    if p.i != p.s.len() {
        return Err(format!("trailing input in {ty}"));
    }
    let mut knots = Env::new();
    if !defs.is_empty() {
        for d in defs.split('|') {
            let (n, body) = d.split_once('=').ok_or("knot def")?;
            let mut p = P { s: body.as_bytes(), i: 0 };
            let b = p.ty()?;
            if p.i != p.s.len() {
                return Err(format!("trailing input in {body}"));
            }
            knots.0.insert(format!("k{n}"), b);
        }
    }
    Ok(Dumped { ty: t, knots })
}

// ------------------------------------------------------------------------------------
// the source side

pub const SRC_PREFIX: &str = "s.";
fn sname(s: &str) -> String {
    format!("{SRC_PREFIX}{s}")
}

/// An anonymous composite sub-term of the program with a printable path.
#[derive(Clone, Debug)]
pub struct Anon {
    pub path: String,
    pub ty: Ty,
    /// by the constraints of the target language this occurrence cannot be written in
    /// place and needs a named Rust item
    pub needs_item: bool,
}

pub struct Source {
    /// program environment with every name prefixed `s.`
    pub env: Env,
    /// definitions that must be emitted: all of them without an actor, otherwise those
    /// reachable from the actor
    pub expected_defs: Vec<String>,
    pub all_defs: Vec<String>,
    /// every sub-term (including whole definition bodies), renamed into the `s.` namespace
    pub subterms: Vec<Anon>,
    /// (method name, args, rets) of the actor's service, None if the program has no actor
    pub methods: Option<Vec<(String, Vec<Ty>, Vec<Ty>)>>,
    pub init_args: Option<Vec<Ty>>,
}

fn is_tuple(fs: &[(mclib::progs::PLabel, PTy)]) -> bool {
    if fs.is_empty() {
        return false;
    }
    let mut ids: Vec<u32> = fs.iter().map(|f| f.0.id()).collect();
    ids.sort();
    ids.iter().enumerate().all(|(i, id)| *id == i as u32)
}
fn is_result_shaped(fs: &[(mclib::progs::PLabel, PTy)]) -> bool {
    use mclib::progs::PLabel;
    if fs.len() != 2 {
        return false;
    }
    let names: BTreeSet<&str> = fs.iter().filter_map(|f| if let PLabel::Named(n) = &f.0 { Some(n.as_str()) } else { None }).collect();
    names == ["Ok", "Err"].into_iter().collect() || names == ["ok", "err"].into_iter().collect()
}

#[derive(Clone, Copy, PartialEq)]
enum Ctx {
    /// body of a definition (the definition's own item)
    Def,
    /// payload of a variant tag (a Rust enum variant may carry named fields in place)
    VariantPayload,
    Other,
}

fn walk(t: &PTy, path: &str, ctx: Ctx, out: &mut Vec<Anon>) {
    let model = t.to_model().rename(&|s| sname(s));
    match t {
        PTy::Prim(_) | PTy::Var(_) | PTy::Blob => {}
        PTy::Opt(x) => walk(x, &format!("{path}?"), Ctx::Other, out),
        PTy::Vec(x) => walk(x, &format!("{path}[]"), Ctx::Other, out),
        PTy::Record(fs) => {
            // a record with fields 0..n-1 can be written in place as a Rust tuple; a record
            // directly under a variant tag can be written in place as the variant's fields
            let needs = ctx == Ctx::Other && !is_tuple(fs);
            out.push(Anon { path: path.to_string(), ty: model, needs_item: needs });
            for (l, x) in fs {
                walk(x, &format!("{path}.{}", label_text(l)), Ctx::Other, out);
            }
        }
        PTy::Variant(fs) => {
            // Result-shaped variants can be written in place (std::result::Result)
            let needs = ctx != Ctx::Def && !is_result_shaped(fs);
            out.push(Anon { path: path.to_string(), ty: model, needs_item: needs });
            for (l, x) in fs {
                walk(x, &format!("{path}#{}", label_text(l)), Ctx::VariantPayload, out);
            }
        }
        PTy::Func(f) => {
            out.push(Anon { path: path.to_string(), ty: model, needs_item: ctx != Ctx::Def });
            walk_func(f, path, out);
        }
        PTy::Service(ms) => {
            out.push(Anon { path: path.to_string(), ty: model, needs_item: ctx != Ctx::Def });
            for (n, x) in ms {
                match x {
                    // a method's func type is written in place inside the service type
                    PTy::Func(f) => walk_func(f, &format!("{path}:{n:?}"), out),
                    other => walk(other, &format!("{path}:{n:?}"), Ctx::Other, out),
                }
            }
        }
    }
}
fn walk_func(f: &PFunc, path: &str, out: &mut Vec<Anon>) {
    for (i, a) in f.args.iter().enumerate() {
        walk(&a.1, &format!("{path}(arg{i})"), Ctx::Other, out);
    }
    for (i, a) in f.rets.iter().enumerate() {
        walk(&a.1, &format!("{path}(ret{i})"), Ctx::Other, out);
    }
}
fn label_text(l: &mclib::progs::PLabel) -> String {
    match l {
        mclib::progs::PLabel::Id(n) => n.to_string(),
        mclib::progs::PLabel::Named(s) => format!("{s:?}"),
    }
}

fn resolve<'a>(p: &'a Prog, mut t: &'a PTy) -> Option<&'a PTy> {
    for _ in 0..64 {
        match t {
            PTy::Var(v) => t = &p.defs.iter().find(|d| d.0 == *v)?.1,
            other => return Some(other),
        }
    }
    None
}

pub fn source(p: &Prog) -> Source {
    let (env, _) = p.to_model();
    let env = env.rename(&|s| sname(s));
    let all_defs: Vec<String> = p.defs.iter().map(|d| d.0.clone()).collect();
    let mut subterms = vec![];
    for (n, t) in &p.defs {
        walk(t, n, Ctx::Def, &mut subterms);
    }
    let mut methods = None;
    let mut init_args = None;
    let mut roots: Vec<&PTy> = vec![];
    if let Some(a) = &p.actor {
        let serv = match a {
            PActor::Service(t) => t,
            PActor::Class(args, t) => {
                init_args = Some(args.iter().map(|a| a.1.to_model().rename(&|s| sname(s))).collect());
                for (i, a) in args.iter().enumerate() {
                    walk(&a.1, &format!("<init>(arg{i})"), Ctx::Other, &mut subterms);
                    roots.push(&a.1);
                }
                t
            }
        };
        roots.push(serv);
        // the actor's own service type is written in place (it becomes the method list)
        if let PTy::Service(ms) = serv {
            for (n, x) in ms {
                match x {
                    PTy::Func(f) => walk_func(f, &format!("<actor>:{n:?}"), &mut subterms),
                    other => walk(other, &format!("<actor>:{n:?}"), Ctx::Other, &mut subterms),
                }
            }
        }
        let mut ms_out = vec![];
        if let Some(PTy::Service(ms)) = resolve(p, serv) {
            for (n, x) in ms {
                if let Some(PTy::Func(f)) = resolve(p, x) {
                    ms_out.push((
                        n.clone(),
                        f.args.iter().map(|a| a.1.to_model().rename(&|s| sname(s))).collect(),
                        f.rets.iter().map(|a| a.1.to_model().rename(&|s| sname(s))).collect(),
                    ));
                }
            }
        }
        methods = Some(ms_out);
    }
    let expected_defs: Vec<String> = if p.actor.is_some() {
        // reachability through variables
        let mut seen: BTreeSet<String> = BTreeSet::new();
        let mut work: Vec<String> = vec![];
        for r in roots {
            let mut fv = vec![];
            r.to_model().free_vars(&mut fv);
            work.extend(fv);
        }
        while let Some(v) = work.pop() {
            if seen.insert(v.clone()) {
                if let Some(d) = p.defs.iter().find(|d| d.0 == v) {
                    let mut fv = vec![];
                    d.1.to_model().free_vars(&mut fv);
                    work.extend(fv);
                }
            }
        }
        all_defs.iter().filter(|d| seen.contains(*d)).cloned().collect()
    } else {
        all_defs.clone()
    };
    // anonymous types inside definitions that need not be emitted need no item either
    for (n, t) in &p.defs {
        if !expected_defs.contains(n) {
            let mut inner = vec![];
            walk(t, n, Ctx::Def, &mut inner);
            let paths: BTreeSet<String> = inner.into_iter().map(|a| a.path).collect();
            for a in subterms.iter_mut() {
                if paths.contains(&a.path) {
                    a.needs_item = false;
                }
            }
        }
    }
    Source { env, expected_defs, all_defs, subterms, methods, init_args }
}

/// normal form of a name for relating a Rust item to the definition it was generated for:
/// case, underscores and the raw-identifier prefix are the only things a case conversion
/// or keyword escape may change
pub fn norm(name: &str) -> String {
    name.strip_prefix("r#").unwrap_or(name).chars().filter(|c| *c != '_').map(|c| c.to_ascii_lowercase()).collect()
}

pub fn equal_src(src: &Source, s: &Ty, d: &Dumped) -> bool {
    let merged = src.env.merge_disjoint(&d.knots);
    sub::equal(&merged, s, &d.ty)
}

/// Result of relating the exported items of one module to the source program.
#[derive(Clone, Debug, Default)]
pub struct ItemReport {
    /// items whose exported type is unreadable or is no definition / sub-term of the source
    pub unexplained: Vec<String>,
    /// definitions whose item (by name) carries a different type
    pub def_mismatch: Vec<String>,
    /// canonical description of the first difference of the first mismatching definition
    pub signature: Option<String>,
    /// fallback description: the type of the first unexplained item
    pub item_signature: Option<String>,
    /// definitions without any item
    pub lost: Vec<String>,
    /// anonymous types that cannot be written in place and have no item of their type
    pub unmatched_anon: Vec<String>,
    pub comparisons: u64,
}

/// Lower bound on the number of distinct Rust items the program needs: one per expected
/// definition plus one per class (structural equality) of anonymous types that cannot be
/// written in place and are not equal to a definition (those may share the definition's item).
pub fn required_items(src: &Source) -> (usize, Vec<String>) {
    let mut reps: Vec<&Anon> = vec![];
    for a in src.subterms.iter().filter(|a| a.needs_item) {
        if src.expected_defs.iter().any(|d| sub::equal(&src.env, &Ty::Var(sname(d)), &a.ty)) {
            continue;
        }
        if reps.iter().any(|r| sub::equal(&src.env, &r.ty, &a.ty)) {
            continue;
        }
        reps.push(a);
    }
    let mut names: Vec<String> = src.expected_defs.iter().map(|d| format!("definition {d}")).collect();
    names.extend(reps.iter().map(|a| format!("anonymous {} = {}", a.path, a.ty)));
    (src.expected_defs.len() + reps.len(), names)
}

/// Post-compile comparison of one module. `items`: (item name, exported type or the reason
/// it could not be read).
pub fn compare_items(src: &Source, items: &[(String, Result<Dumped, String>)]) -> ItemReport {
    let mut out = ItemReport::default();
    let mut by_norm: BTreeMap<String, Vec<usize>> = BTreeMap::new();
    for (i, it) in items.iter().enumerate() {
        by_norm.entry(norm(&it.0)).or_default().push(i);
    }
    // every item: readable, and equal to some source definition or sub-term
    for (name, d) in items {
        match d {
            Err(e) => out.unexplained.push(format!("item {name}: {e}")),
            Ok(d) => {
                out.comparisons += 1;
                let hit = src.all_defs.iter().any(|n| equal_src(src, &Ty::Var(sname(n)), d))
                    || src.subterms.iter().any(|a| equal_src(src, &a.ty, d));
                if !hit {
                    if out.item_signature.is_none() {
                        out.item_signature = Some(format!("item of type {}", d.ty));
                    }
                    out.unexplained.push(format!("item {name} has Candid type {} (knots {}) which is no definition or sub-term of the source", d.ty, env_line(&d.knots)));
                }
            }
        }
    }
    // every expected definition: the item(s) named after it carry its type
    for n in &src.expected_defs {
        let sty = Ty::Var(sname(n));
        let cands: Vec<usize> = by_norm.get(&norm(n)).cloned().unwrap_or_default();
        out.comparisons += 1;
        if cands.is_empty() {
            let any = items.iter().any(|it| matches!(&it.1, Ok(d) if equal_src(src, &sty, d)));
            if !any {
                out.lost.push(format!("definition {n}: no emitted item is named after it and none has its type"));
            }
            continue;
        }
        let ok = cands.iter().any(|i| matches!(&items[*i].1, Ok(d) if equal_src(src, &sty, d)));
        if !ok {
            let shown: Vec<String> = cands
                .iter()
                .map(|i| match &items[*i].1 {
                    Ok(d) => format!("{} = {} (knots {})", items[*i].0, d.ty, env_line(&d.knots)),
                    Err(e) => format!("{}: {e}", items[*i].0),
                })
                .collect();
            if out.signature.is_none() {
                // describe the difference against the candidate that is not already the item of
                // another definition
                let free: Vec<usize> = cands
                    .iter()
                    .copied()
                    .filter(|i| match &items[*i].1 {
                        Ok(d) => {
                            !src.expected_defs.iter().any(|o| o != n && equal_src(src, &Ty::Var(sname(o)), d))
                                && !src.subterms.iter().any(|a| a.needs_item && equal_src(src, &a.ty, d))
                        }
                        Err(_) => false,
                    })
                    .collect();
                if let Some(Ok(d)) = free.first().or(cands.first()).map(|i| &items[*i].1) {
                    out.signature = diff(&src.env.merge_disjoint(&d.knots), &sty, &d.ty);
                }
            }
            out.def_mismatch.push(format!(
                "definition {n} = {} but the item generated for it is {}",
                src.env.get(&sname(n)).map(|t| t.to_string()).unwrap_or_default(),
                shown.join(" / ")
            ));
        }
    }
    // every anonymous type that cannot be written in place has an item of its own type
    for a in &src.subterms {
        if !a.needs_item {
            continue;
        }
        out.comparisons += 1;
        let ok = items.iter().any(|it| matches!(&it.1, Ok(d) if equal_src(src, &a.ty, d)));
        if !ok {
            out.unmatched_anon.push(format!("anonymous type at {} = {} has no Rust item of its own type", a.path, a.ty));
        }
    }
    out
}

pub fn env_line(e: &Env) -> String {
    let v: Vec<String> = e.0.iter().map(|(k, v)| format!("{k}={v}")).collect();
    format!("[{}]", v.join("; "))
}

/// Compare one exported argument/result list with the source's.
/// Returns (message, canonical signature of the difference).
pub fn compare_tys(src: &Source, what: &str, want: &[Ty], got: &[Option<Result<Dumped, String>>]) -> Option<(String, String)> {
    if want.len() != got.len() {
        let m = format!("arity {} in the source, {} emitted", want.len(), got.len());
        return Some((format!("{what}: {m}"), m));
    }
    for (i, (w, g)) in want.iter().zip(got).enumerate() {
        match g {
            None => return Some((format!("{what}[{i}]: no type exported"), "no type exported".into())),
            Some(Err(e)) => return Some((format!("{what}[{i}]: {e}"), e.clone())),
            Some(Ok(d)) => {
                if !equal_src(src, w, d) {
                    let sig = diff(&src.env.merge_disjoint(&d.knots), w, &d.ty).unwrap_or_else(|| "differs".into());
                    return Some((format!("{what}[{i}]: source {} but emitted {} (knots {})", w, d.ty, env_line(&d.knots)), sig));
                }
            }
        }
    }
    None
}

fn ctor(t: &Ty) -> String {
    match t {
        Ty::Prim(p) => p.name().to_string(),
        Ty::Var(v) => format!("var {v}"),
        Ty::Opt(_) => "opt".into(),
        Ty::Vec(_) => "vec".into(),
        Ty::Record(fs) => format!("record{{{}}}", fs.iter().map(|f| f.0.to_string()).collect::<Vec<_>>().join(",")),
        Ty::Variant(fs) => format!("variant{{{}}}", fs.iter().map(|f| f.0.to_string()).collect::<Vec<_>>().join(",")),
        Ty::Func(_) => "func".into(),
        Ty::Service(_) => "service".into(),
        Ty::Class(..) => "class".into(),
        Ty::Future(..) => "future".into(),
    }
}

/// Canonical description of the first difference between `a` (source) and `b` (emitted),
/// walking both in field order; None if no difference is found.
pub fn diff(env: &Env, a: &Ty, b: &Ty) -> Option<String> {
    fn tys(env: &Env, what: &str, x: &[Ty], y: &[Ty], seen: &mut BTreeSet<(Ty, Ty)>) -> Option<String> {
        if x.len() != y.len() {
            return Some(format!("{what} arity {} vs {}", x.len(), y.len()));
        }
        x.iter().zip(y).find_map(|(p, q)| go(env, p, q, seen))
    }
    fn go(env: &Env, a: &Ty, b: &Ty, seen: &mut BTreeSet<(Ty, Ty)>) -> Option<String> {
        if !seen.insert((a.clone(), b.clone())) {
            return None;
        }
        let (ua, ub) = match (env.unf(a), env.unf(b)) {
            (Ok(x), Ok(y)) => (x.clone(), y.clone()),
            (Err(_), _) => return Some(format!("source side does not unfold: {a}")),
            (_, Err(_)) => return Some(format!("emitted type does not unfold (vacuous cycle): {}", ctor(b))),
        };
        match (&ua, &ub) {
            (Ty::Prim(p), Ty::Prim(q)) => (p != q).then(|| format!("{} vs {}", p.name(), q.name())),
            (Ty::Opt(x), Ty::Opt(y)) | (Ty::Vec(x), Ty::Vec(y)) => go(env, x, y, seen),
            (Ty::Record(f), Ty::Record(g)) | (Ty::Variant(f), Ty::Variant(g)) if std::mem::discriminant(&ua) == std::mem::discriminant(&ub) => {
                let fi: BTreeSet<u32> = f.iter().map(|x| x.0).collect();
                let gi: BTreeSet<u32> = g.iter().map(|x| x.0).collect();
                if fi != gi {
                    let only_f: Vec<String> = fi.difference(&gi).map(|x| x.to_string()).collect();
                    let only_g: Vec<String> = gi.difference(&fi).map(|x| x.to_string()).collect();
                    let k = if matches!(ua, Ty::Record(_)) { "record" } else { "variant" };
                    // one recognised cause gets a signature of its own: every numeric id N that went
                    // missing came back as the hash of the *name* "_N_" (and nothing else changed)
                    let src_only: Vec<u32> = fi.difference(&gi).copied().collect();
                    let emitted_only: BTreeSet<u32> = gi.difference(&fi).copied().collect();
                    let as_names: BTreeSet<u32> = src_only.iter().map(|n| refmodel::hash::idl_hash(&format!("_{n}_"))).collect();
                    if !src_only.is_empty() && as_names == emitted_only {
                        return Some(format!("{k} labels numeric id N emitted as the name _N_"));
                    }
                    return Some(format!("{k} labels {{{}}} emitted as {{{}}}", only_f.join(","), only_g.join(",")));
                }
                f.iter().zip(g).find_map(|(x, y)| go(env, &x.1, &y.1, seen))
            }
            (Ty::Func(f), Ty::Func(g)) => {
                let mf: BTreeSet<_> = f.modes.iter().collect();
                let mg: BTreeSet<_> = g.modes.iter().collect();
                if mf != mg {
                    return Some(format!("func modes {:?} vs {:?}", f.modes, g.modes));
                }
                tys(env, "func argument", &f.args, &g.args, seen).or_else(|| tys(env, "func result", &f.rets, &g.rets, seen))
            }
            (Ty::Service(m), Ty::Service(n)) => {
                let mi: Vec<&String> = m.iter().map(|x| &x.0).collect();
                let ni: Vec<&String> = n.iter().map(|x| &x.0).collect();
                if mi != ni {
                    return Some(format!("service methods {mi:?} emitted as {ni:?}"));
                }
                m.iter().zip(n).find_map(|(x, y)| go(env, &x.1, &y.1, seen))
            }
            (Ty::Record(f), _) if f.len() == 1 && f[0].0 == 0 && sub::equal(env, &f[0].1, b) => {
                Some("record { 0 : T } emitted as T".to_string())
            }
            _ => Some(format!("{} emitted as {}", ctor(&ua), ctor(&ub))),
        }
    }
    go(env, a, b, &mut BTreeSet::new())
}

#[cfg(test)]
mod tests {
    use super::*;
    #[test]
    fn parse() {
        let d = parse_dump("r{1:o(k0);5:V{0:null;7:f(nat,text)(k0)[query]}}", "0=r{0:v(k0)}").unwrap();
        assert_eq!(d.knots.0.len(), 1);
        assert!(parse_dump("r{1:nat;1:text}", "").is_err());
        let s = parse_dump("s{6162:f()()[]}", "").unwrap();
        assert_eq!(s.ty, Ty::service(vec![("ab".into(), Ty::func(vec![], vec![], vec![]))]));
    }
}
