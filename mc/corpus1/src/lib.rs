//! one share of the corpus registry (split so that cargo compiles the shares in parallel)
pub fn register(v: &mut Vec<corpus::Entry>) {
    corpus::elem_reg!(v; bool, u8, u16, u32, u64, i8, i16);
}
