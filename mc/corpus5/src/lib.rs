//! one share of the corpus registry (split so that cargo compiles the shares in parallel)
pub fn register(v: &mut Vec<corpus::Entry>) {
    corpus::kv_reg!(v; bool, String, candid::Nat);
}
